/-
  E2E/C01: the pipeline parse → bindTypes → bindInputs → renderSQL, and the helper lemmas of
  property C01 end to end.
-/
import SqlairProofs.Props.Parser
import SqlairProofs.E2E.Render
import SqlairProofs.E2E.Nodes

namespace Sqlair

/-- the model-side pipeline: Parse, Prepare (BindTypes with the type samples), Query
    (BindInputs with the argument values) -/
def prepareAndBind (E : Env) (C : Cls) (tt : TypeTable) (samples : List (Option Nat)) (args : List GoVal) :
    Option Primed :=
  match parse E with
  | .ok segs =>
    match bindTypes C tt (segs.map (Seg.toOSeg E.inp)) samples with
    | .ok tes => (bindInputs tt tes args).toOption
    | .error _ => none
  | .error _ => none

theorem prepareAndBind_some {E : Env} {C : Cls} {tt : TypeTable} {samples : List (Option Nat)}
    {args : List GoVal} {pq : Primed} (h : prepareAndBind E C tt samples args = some pq) :
    ∃ segs tes, parse E = .ok segs ∧ bindTypes C tt (segs.map (Seg.toOSeg E.inp)) samples = .ok tes ∧
      bindInputs tt tes args = .ok pq := by
  unfold prepareAndBind at h
  split at h
  · rename_i segs hp
    split at h
    · rename_i tes hb
      cases hq : bindInputs tt tes args with
      | error e => rw [hq] at h; cases h
      | ok pq' =>
        rw [hq] at h
        have : pq' = pq := by simpa [Except.toOption] using h
        subst this
        exact ⟨segs, tes, hp, hb, hq⟩
    · cases h
  · cases h

theorem prepareAndBind_of {E : Env} {C : Cls} {tt : TypeTable} {samples : List (Option Nat)}
    {args : List GoVal} {pq : Primed} {segs : List Seg} {tes : List TExpr} (hp : parse E = .ok segs)
    (hb : bindTypes C tt (segs.map (Seg.toOSeg E.inp)) samples = .ok tes)
    (hq : bindInputs tt tes args = .ok pq) : prepareAndBind E C tt samples args = some pq := by
  unfold prepareAndBind
  rw [hp]; simp only []; rw [hb]; simp only []; rw [hq]; rfl

/-- node `i` of the parse and piece `i` of the generated SQL correspond, kind by kind -/
theorem parse_bind_pieces {E : Env} {C : Cls} {tt : TypeTable} {samples : List (Option Nat)}
    {args : List GoVal} {pq : Primed} {segs : List Seg} {tes : List TExpr}
    (hb : bindTypes C tt (segs.map (Seg.toOSeg E.inp)) samples = .ok tes)
    (hq : bindInputs tt tes args = .ok pq) :
    Corr (fun s p => NodePiece s.kind (E.inp.extract s.a s.b) p) segs pq.pieces := by
  have h1 := (bindTypes_exprs hb).map_left
  have h2 := bindInputs_pieces hq
  exact Corr.trans (R := fun s e => NodeExpr (Seg.toOSeg E.inp s) e) (S := ExprPiece)
    (fun s e p hr hs => NodeExpr.piece hr hs) h1 h2

/-- the text of the query with every expression node replaced by the rendering of its piece -/
def expansion (inp : Bytes) (segs : List Seg) (ps : List Piece) : List Bytes :=
  (segs.zip ps).map fun sp => if sp.1.kind = .bypass then inp.extract sp.1.a sp.1.b else sp.2.render

theorem expansion_eq {inp : Bytes} {segs : List Seg} {ps : List Piece}
    (h : Corr (fun s p => NodePiece s.kind (inp.extract s.a s.b) p) segs ps) :
    ps.map Piece.render = expansion inp segs ps := by
  unfold expansion
  apply List.ext_getElem
  · simp [h.1]
  · intro i h1 h2
    simp only [List.length_map, List.length_zip] at h1 h2
    have hi : i < segs.length := by omega
    have hr := h.getElem i hi h1
    simp only [List.getElem_map, List.getElem_zip]
    split
    · rename_i hk
      rw [hk] at hr
      rw [hr.bypass]; rfl
    · rfl

/-! ### spans -/

theorem SpansChain.le {a b : Nat} {segs : List Seg} (hc : SpansChain a b segs) : a ≤ b := by
  induction hc with
  | nil x => exact Nat.le_refl _
  | cons s rest to hle _ ih => exact Nat.le_trans hle ih

theorem SpansChain.bounds {a b : Nat} {segs : List Seg} (hc : SpansChain a b segs) :
    ∀ s ∈ segs, a ≤ s.a ∧ s.a ≤ s.b ∧ s.b ≤ b := by
  induction hc with
  | nil x => intro s hs; cases hs
  | cons s rest to hle hrest ih =>
    intro s' hs'
    rcases List.mem_cons.1 hs' with rfl | hs'
    · exact ⟨Nat.le_refl _, hle, hrest.le⟩
    · have := ih s' hs'; omega

/-- consecutive spans: an earlier node ends before a later one starts -/
theorem SpansChain.pairwise {a b : Nat} {segs : List Seg} (hc : SpansChain a b segs) :
    segs.Pairwise (fun s s' => s.b ≤ s'.a) := by
  induction hc with
  | nil x => exact List.Pairwise.nil
  | cons s rest to hle hrest ih =>
    rw [List.pairwise_cons]
    exact ⟨fun s' hs' => (hrest.bounds s' hs').1, ih⟩

/-- every offset of `[a, b)` lies in the span of some node -/
theorem SpansChain.cover {a b : Nat} {segs : List Seg} (hc : SpansChain a b segs) :
    ∀ x, a ≤ x → x < b → ∃ s ∈ segs, s.a ≤ x ∧ x < s.b := by
  induction hc with
  | nil x => intro y h1 h2; omega
  | cons s rest to hle hrest ih =>
    intro x h1 h2
    rcases Nat.lt_or_ge x s.b with h | h
    · exact ⟨s, List.mem_cons_self, h1, h⟩
    · obtain ⟨s', hs', h3⟩ := ih x h h2
      exact ⟨s', List.mem_cons_of_mem _ hs', h3⟩

/-- ... and of exactly one -/
theorem SpansChain.unique {a b : Nat} {segs : List Seg} (hc : SpansChain a b segs) {s s' : Seg}
    (hs : s ∈ segs) (hs' : s' ∈ segs) {x : Nat} (h1 : s.a ≤ x ∧ x < s.b) (h2 : s'.a ≤ x ∧ x < s'.b) :
    s = s' := by
  rcases pairwise_mem_cases hc.pairwise hs hs' with h | h | h
  · exact h
  · omega
  · omega

/-- the bypass spans are exactly the complement of the expression spans -/
theorem SpansChain.bypass_complement {b : Nat} {segs : List Seg} (hc : SpansChain 0 b segs)
    (x : Nat) (hx : x < b) :
    (∃ s ∈ segs, s.kind = .bypass ∧ s.a ≤ x ∧ x < s.b) ↔
      ¬ ∃ s ∈ segs, s.kind ≠ .bypass ∧ s.a ≤ x ∧ x < s.b := by
  constructor
  · rintro ⟨s, hs, hk, h1⟩ ⟨s', hs', hk', h2⟩
    have := hc.unique hs hs' h1 h2
    subst this
    exact hk' hk
  · intro hno
    obtain ⟨s, hs, h1⟩ := hc.cover x (Nat.zero_le _) hx
    by_cases hk : s.kind = .bypass
    · exact ⟨s, hs, hk, h1⟩
    · exact absurd ⟨s, hs, hk, h1⟩ hno

/-- the input is the in-order concatenation of the raw texts of the nodes -/
theorem concat_spans {inp : Bytes} {b : Nat} {segs : List Seg} (hc : SpansChain 0 b segs) (hb : inp.size ≤ b) :
    concatBytes (segs.map fun s => inp.extract s.a s.b) = inp := by
  have h := flattenRaws_chain inp hc
  rw [Array.extract_zero, List.foldl_map] at h
  have h2 : concatBytes (segs.map fun s => inp.extract s.a s.b) =
      segs.foldl (fun acc s => acc ++ (Seg.toOSeg inp s).raw) #[] := by
    unfold concatBytes
    rw [List.foldl_map]; rfl
  rw [h2, h]
  exact Array.extract_eq_self_of_le hb

/-! ### a query without expressions -/

theorem bindSegs_all_bypass : ∀ (segs : List OSeg) (st : TEB), (∀ s ∈ segs, s.kind = .bypass) →
    bindSegs st segs = .ok { st with exprs := st.exprs ++ segs.map (fun s => TExpr.bypass s.raw) } := by
  intro segs
  induction segs with
  | nil => intro st _; simp [bindSegs]
  | cons s rest ih =>
    intro st h
    have hk : s.kind = .bypass := h s List.mem_cons_self
    have hs : bindSeg st s = .ok (st.add (.bypass s.raw)) := by
      unfold bindSeg; rw [hk]
    simp only [bindSegs, hs]
    rw [ih _ (fun s' hs' => h s' (List.mem_cons_of_mem _ hs'))]
    simp [TEB.add]

/-- a list of bypass nodes prepares without samples, into the list of its chunks -/
theorem bindTypes_all_bypass (C : Cls) (tt : TypeTable) (segs : List OSeg)
    (h : ∀ s ∈ segs, s.kind = .bypass) :
    bindTypes C tt segs [] = .ok (segs.map (fun s => TExpr.bypass s.raw)) := by
  unfold bindTypes
  simp only [generateArgInfo, bindSegs_all_bypass segs _ h]
  simp

theorem foldlM_addToQuery_bypass (tt : TypeTable) (m : TypeToValue) : ∀ (chunks : List Bytes) (qb : QB),
    (chunks.map TExpr.bypass).foldlM (addToQuery tt m) qb =
      .ok { qb with pieces := qb.pieces ++ chunks.map Piece.text } := by
  intro chunks
  induction chunks with
  | nil => intro qb; simp [pure, Except.pure]
  | cons c rest ih =>
    intro qb
    rw [List.map_cons, foldlM_except_cons]
    simp only [addToQuery]
    rw [ih]
    simp

/-- bypass chunks only, no arguments: the pieces are the chunks, no parameters, no outputs -/
theorem bindInputs_all_bypass (tt : TypeTable) (chunks : List Bytes) :
    bindInputs tt (chunks.map TExpr.bypass) [] =
      .ok { pieces := chunks.map Piece.text, params := [], outputs := [] } := by
  unfold bindInputs
  simp only [validateInputs, foldlM_addToQuery_bypass]
  simp

theorem renderSQL_texts (chunks : List Bytes) : renderSQL (chunks.map Piece.text) = concatBytes chunks := by
  rw [renderSQL_eq_concat, List.map_map]
  congr 1
  exact List.map_id' _ |>.symm ▸ rfl

end Sqlair
