/-
  L5Sound/CloseOut: C11 of the model - after a history, once every Query that was built has
  been run, every handle dropped and garbage collected (with the fuel `runHistory` gives
  `gc`), every driver statement that was prepared has exactly one `close` event, nothing
  else has one, and the cache is empty.
-/
import SqlairProofs.L5Sound.Hist

namespace Sqlair.Cache

/-- the C11 conclusion about a final state, stated on its log -/
def L5sReleased (st : St) : Prop :=
  (∀ ds, l5s_closes st.log ds = if l5s_prepared st.log ds then 1 else 0) ∧ st.pairs = [] ∧
    st.stmtDB = [] ∧ st.dbStmt = []

theorem l5s_closes_eq_count (log : List Ev) (ds : Nat) : l5s_closes log ds = log.count (Ev.close ds) := by
  unfold l5s_closes
  rw [List.count_eq_length_filter]

theorem l5s_prepared_iff {st : St} (hr : Reachable st) (ds : Nat) :
    l5s_prepared st.log ds = true ↔ ∃ x, dsGet st.ds ds = some x := by
  unfold l5s_prepared
  rw [List.any_eq_true]
  constructor
  · rintro ⟨e, he, hp⟩
    cases e with
    | prepare i d q =>
      simp only [l5s_isPrepareOf, beq_iff_eq] at hp
      subst hp
      obtain ⟨x, hx, _⟩ := (l5s_log_reachable hr).prep i d q he
      exact ⟨x, hx⟩
    | exec _ _ _ => simp [l5s_isPrepareOf] at hp
    | close _ => simp [l5s_isPrepareOf] at hp
    | execClosed _ => simp [l5s_isPrepareOf] at hp
  · rintro ⟨x, hx⟩
    exact ⟨_, hr.inv.log.prep ds x hx, by simp [l5s_isPrepareOf]⟩

/-- a quiescent state of a history, collected -/
theorem l5s_quiescent_released {st : St} (hr : Reachable st) (hq : Quiescent st) : L5sReleased (l5s_gc st) := by
  obtain ⟨hr', hs, hd, _, hall⟩ := quiescent_closed hr hq (Nat.le_refl _)
  have hr'' : Reachable (l5s_gc st) := hr'
  have hs' : (l5s_gc st).stmtDB = [] := hs
  refine ⟨?_, ?_, hs', hd⟩
  · intro ds
    rw [l5s_closes_eq_count]
    cases hp : l5s_prepared (l5s_gc st).log ds with
    | true =>
      obtain ⟨x, hx⟩ := (l5s_prepared_iff hr'' ds).1 hp
      obtain ⟨hid, hm⟩ := dsGet_some hx
      have := (hall x hm).2.2.2
      rw [hid] at this
      rw [if_pos rfl]
      exact this
    | false =>
      simp only [Bool.false_eq_true, if_false]
      rw [List.count_eq_zero]
      intro hm
      obtain ⟨x, hx, _⟩ := hr''.inv.log.close ds hm
      have := (l5s_prepared_iff hr'' ds).2 ⟨x, hx⟩
      rw [hp] at this; cases this
  · unfold St.pairs
    rw [hs']
    rfl

/-! ### dropping every handle -/

theorem l5s_dropS_eq (st : St) (s : Nat) :
    (step st (.dropS s)).getD st = { st with liveS := st.liveS.filter (· != s) } := by
  by_cases h : s ∈ st.liveS
  · simp [step, h]
  · have hf : st.liveS.filter (· != s) = st.liveS := by
      rw [List.filter_eq_self]
      intro a ha
      simp only [bne_iff_ne, ne_eq]
      intro e; subst e; exact h ha
    simp [step, h, hf]

theorem l5s_dropD_eq (st : St) (d : Nat) :
    (step st (.dropD d)).getD st = { st with liveD := st.liveD.filter (· != d) } := by
  by_cases h : d ∈ st.liveD
  · simp [step, h]
  · have hf : st.liveD.filter (· != d) = st.liveD := by
      rw [List.filter_eq_self]
      intro a ha
      simp only [bne_iff_ne, ne_eq]
      intro e; subst e; exact h ha
    simp [step, h, hf]

theorem l5s_final_dropS (L : List Nat) : ∀ (st : St) (t : Nat),
    l5s_final (L.map HOp.dropS) st t = ({ st with liveS := st.liveS.filter (fun s => !L.contains s) }, t) := by
  induction L with
  | nil =>
    intro st t
    have hf : st.liveS.filter (fun s => !([] : List Nat).contains s) = st.liveS :=
      List.filter_eq_self.2 (by intro a _; rfl)
    simp only [List.map_nil, l5s_final]
    rw [hf]
  | cons s L ih =>
    intro st t
    simp only [List.map_cons, l5s_final, l5s_op]
    rw [l5s_dropS_eq, ih]
    simp only [List.filter_filter, Prod.mk.injEq, and_true]
    congr 1
    apply List.filter_congr
    intro a _
    simp only [List.contains_cons, Bool.not_or]
    cases h1 : L.contains a <;> by_cases h2 : a = s <;> simp [h2, bne]

theorem l5s_final_dropD (L : List Nat) : ∀ (st : St) (t : Nat),
    l5s_final (L.map HOp.dropD) st t = ({ st with liveD := st.liveD.filter (fun s => !L.contains s) }, t) := by
  induction L with
  | nil =>
    intro st t
    have hf : st.liveD.filter (fun s => !([] : List Nat).contains s) = st.liveD :=
      List.filter_eq_self.2 (by intro a _; rfl)
    simp only [List.map_nil, l5s_final]
    rw [hf]
  | cons s L ih =>
    intro st t
    simp only [List.map_cons, l5s_final, l5s_op]
    rw [l5s_dropD_eq, ih]
    simp only [List.filter_filter, Prod.mk.injEq, and_true]
    congr 1
    apply List.filter_congr
    intro a _
    simp only [List.contains_cons, Bool.not_or]
    cases h1 : L.contains a <;> by_cases h2 : a = s <;> simp [h2, bne]

/-- all Queries finished, every handle the state may hold dropped, garbage collected -/
theorem l5s_drop_gc_released {st : St} (hs : L5sSeq st) (hdone : ∀ p ∈ st.ops, p.2.pc = .done) (t nS nD : Nat)
    (hS : st.nextS ≤ nS + 1) (hD : st.nextD ≤ nD + 1) :
    L5sReleased (l5s_final ((List.range' 1 nS).map HOp.dropS ++ (List.range' 1 nD).map HOp.dropD ++ [.gc]) st t).1 := by
  rw [l5s_final_append, l5s_final_append, l5s_final_dropS, l5s_final_dropD]
  simp only [l5s_final, l5s_op]
  have hs3 := l5s_seq_final ((List.range' 1 nS).map HOp.dropS ++ (List.range' 1 nD).map HOp.dropD) hs t
  rw [l5s_final_append, l5s_final_dropS, l5s_final_dropD] at hs3
  apply l5s_quiescent_released hs3.reach
  refine ⟨?_, ?_, hs.noIter, hdone⟩
  · show st.liveS.filter _ = []
    rw [List.filter_eq_nil_iff]
    intro s hm
    have := hs.boundS s hm
    have hc : (List.range' 1 nS).contains s = true := by
      rw [List.contains_iff_mem, List.mem_range'_1]; omega
    show ¬ ((!(List.range' 1 nS).contains s) = true)
    rw [hc]; simp
  · show st.liveD.filter _ = []
    rw [List.filter_eq_nil_iff]
    intro s hm
    have := hs.boundD s hm
    have hc : (List.range' 1 nD).contains s = true := by
      rw [List.contains_iff_mem, List.mem_range'_1]; omega
    show ¬ ((!(List.range' 1 nD).contains s) = true)
    rw [hc]; simp

/-! ### counting the handles a history creates -/

theorem l5s_next_op {st : St} (hs : L5sSeq st) (t : Nat) (op : HOp) :
    (l5s_op st t op).1.nextS = st.nextS + l5s_numS [op] ∧ (l5s_op st t op).1.nextD = st.nextD + l5s_numD [op] := by
  have hget : ∀ x, (∀ st', step st x = some st' → st'.nextS = st.nextS ∧ st'.nextD = st.nextD) →
      ((step st x).getD st).nextS = st.nextS ∧ ((step st x).getD st).nextD = st.nextD := by
    intro x h
    cases hx : step st x with
    | none => exact ⟨rfl, rfl⟩
    | some st' => exact h st' hx
  cases op with
  | newS => exact ⟨rfl, rfl⟩
  | newD => exact ⟨rfl, rfl⟩
  | run s d shape =>
    rcases l5s_run_cases hs t s d shape with ⟨_, _, h⟩ | ⟨_, o, _, _, h⟩ | ⟨_, _, _, _, h⟩
    · rw [h]; exact ⟨rfl, rfl⟩
    · exact ⟨h.nextS, h.nextD⟩
    · exact ⟨h.nextS, h.nextD⟩
  | mkq q s d shape =>
    exact hget (.query (1000 + q) s d shape) (by intro st' h; obtain ⟨_, _, _, rfl⟩ := step_query h; exact ⟨rfl, rfl⟩)
  | runq q =>
    rw [l5s_op_runq_eq]
    rcases l5s_tail_cases hs (1000 + q) with ⟨_, h⟩ | ⟨o, _, _, h⟩
    · rw [h]; exact ⟨rfl, rfl⟩
    · exact ⟨h.nextS, h.nextD⟩
  | dropS s => exact hget (.dropS s) (by intro st' h; obtain ⟨_, rfl⟩ := step_dropS h; exact ⟨rfl, rfl⟩)
  | dropD d => exact hget (.dropD d) (by intro st' h; obtain ⟨_, rfl⟩ := step_dropD h; exact ⟨rfl, rfl⟩)
  | gc => exact ⟨(l5s_gc_quiet st).nextS, (l5s_gc_quiet st).nextD⟩

theorem l5s_num_cons (op : HOp) (rest : List HOp) :
    l5s_numS (op :: rest) = l5s_numS [op] + l5s_numS rest ∧ l5s_numD (op :: rest) = l5s_numD [op] + l5s_numD rest := by
  unfold l5s_numS l5s_numD
  cases op <;> simp <;> omega

theorem l5s_next_final (h : List HOp) : ∀ {st : St} (_ : L5sSeq st) (t : Nat),
    (l5s_final h st t).1.nextS = st.nextS + l5s_numS h ∧ (l5s_final h st t).1.nextD = st.nextD + l5s_numD h := by
  induction h with
  | nil => intro st _ t; exact ⟨rfl, rfl⟩
  | cons op rest ih =>
    intro st hs t
    simp only [l5s_final]
    obtain ⟨a, b⟩ := ih (l5s_seq_op hs t op) (l5s_op st t op).2
    obtain ⟨c, d⟩ := l5s_next_op hs t op
    obtain ⟨e, f⟩ := l5s_num_cons op rest
    rw [a, b, c, d, e, f]
    omega

/-! ### Queries that were built and not run -/

/-- every Query that is not finished was built by a `mkq` with an id in `Q` -/
def L5sPend (st : St) (Q : List Nat) : Prop := ∀ p ∈ st.ops, p.2.pc = .done ∨ ∃ q ∈ Q, p.1 = 1000 + q

theorem L5sPend.mono {st : St} {Q Q' : List Nat} (h : L5sPend st Q) (hsub : ∀ q ∈ Q, q ∈ Q') : L5sPend st Q' := by
  intro p hp
  rcases h p hp with h | ⟨q, hq, e⟩
  · exact Or.inl h
  · exact Or.inr ⟨q, hsub q hq, e⟩

theorem L5sPend.ran {st st' : St} {Q : List Nat} {k : Nat} {o : Op} (h : L5sPend st Q) (hr : L5sRan st st' k o) :
    L5sPend st' Q := by
  intro p hp
  rcases hr.ops.mem p hp with e | ⟨hm, _⟩
  · rw [e]; exact Or.inl rfl
  · exact h p hm

theorem l5s_queries_cons (op : HOp) (rest : List HOp) : l5s_queries (op :: rest) = l5s_queries [op] ++ l5s_queries rest := by
  unfold l5s_queries
  cases op <;> simp

theorem l5s_pend_op {st : St} {Q : List Nat} (hs : L5sSeq st) (hp : L5sPend st Q) (t : Nat) (op : HOp) :
    L5sPend (l5s_op st t op).1 (Q ++ l5s_queries [op]) := by
  have hmono : L5sPend st (Q ++ l5s_queries [op]) := hp.mono (by intro q hq; exact List.mem_append_left _ hq)
  have hget : ∀ x, (∀ st', step st x = some st' → st'.ops = st.ops) →
      L5sPend ((step st x).getD st) (Q ++ l5s_queries [op]) := by
    intro x h
    cases hx : step st x with
    | none => exact hmono
    | some st' =>
      intro p hm
      simp only [Option.getD_some] at hm
      rw [h st' hx] at hm
      exact hmono p hm
  cases op with
  | newS => exact hget .newS (by intro st' h; rw [step_newS h])
  | newD => exact hget .newD (by intro st' h; rw [step_newD h])
  | dropS s => exact hget (.dropS s) (by intro st' h; obtain ⟨_, rfl⟩ := step_dropS h; rfl)
  | dropD d => exact hget (.dropD d) (by intro st' h; obtain ⟨_, rfl⟩ := step_dropD h; rfl)
  | gc =>
    intro p hm
    have : (l5s_op st t HOp.gc).1.ops = st.ops := (l5s_gc_spec hs.reach).2.2.1
    rw [this] at hm
    exact hmono p hm
  | run s d shape =>
    rcases l5s_run_cases hs t s d shape with ⟨_, _, h⟩ | ⟨_, o, _, _, h⟩ | ⟨_, _, _, _, h⟩
    · rw [h]; exact hmono
    · exact hmono.ran h
    · exact hmono.ran h
  | runq q =>
    rw [l5s_op_runq_eq]
    rcases l5s_tail_cases hs (1000 + q) with ⟨_, h⟩ | ⟨o, _, _, h⟩
    · rw [h]; exact hmono
    · exact hmono.ran h
  | mkq q s d shape =>
    show L5sPend ((step st (.query (1000 + q) s d shape)).getD st) _
    cases hx : step st (.query (1000 + q) s d shape) with
    | none => exact hmono
    | some st' =>
      obtain ⟨_, _, _, rfl⟩ := step_query hx
      intro p hm
      simp only [Option.getD_some] at hm
      rcases mem_ainsert.1 hm with e | ⟨hm, _⟩
      · rw [e]
        exact Or.inr ⟨q, by simp [l5s_queries], rfl⟩
      · exact hmono p hm

theorem l5s_pend_final (h : List HOp) : ∀ {st : St} {Q : List Nat} (_ : L5sSeq st) (_ : L5sPend st Q) (t : Nat),
    L5sPend (l5s_final h st t).1 (Q ++ l5s_queries h) := by
  induction h with
  | nil => intro st Q _ hp t; exact hp.mono (by intro q hq; exact List.mem_append_left _ hq)
  | cons op rest ih =>
    intro st Q hs hp t
    simp only [l5s_final]
    have := ih (l5s_seq_op hs t op) (l5s_pend_op hs hp t op) (l5s_op st t op).2
    rw [l5s_queries_cons, ← List.append_assoc]
    exact this

/-- running every Query of `Q` leaves none unfinished -/
theorem l5s_runqs_done (Q : List Nat) : ∀ {st : St} (_ : L5sSeq st) (_ : L5sPend st Q) (t : Nat),
    ∀ p ∈ (l5s_final (Q.map HOp.runq) st t).1.ops, p.2.pc = .done := by
  induction Q with
  | nil =>
    intro st _ hp t p hm
    rcases hp p hm with h | ⟨q, hq, _⟩
    · exact h
    · simp at hq
  | cons q Q ih =>
    intro st hs hp t
    simp only [List.map_cons, l5s_final]
    apply ih (l5s_seq_op hs t (.runq q))
    rw [l5s_op_runq_eq]
    rcases l5s_tail_cases hs (1000 + q) with ⟨hnd, h⟩ | ⟨o, _, _, h⟩
    · rw [h]
      intro p hm
      rcases hp p hm with h | ⟨q', hq', e⟩
      · exact Or.inl h
      · rcases List.mem_cons.1 hq' with rfl | hq'
        · left
          have hal : alook st.ops p.1 = some p.2 :=
            alook_of_mem_nodup hs.reach.inv.ops.nodup (by exact hm)
          rw [e] at hal
          rcases hnd with hn | ⟨o, ho, hpc⟩
          · rw [hn] at hal; cases hal
          · rw [ho] at hal; cases hal; exact hpc
        · exact Or.inr ⟨q', hq', e⟩
    · intro p hm
      rcases h.ops.mem p hm with e | ⟨hm', hne⟩
      · rw [e]; exact Or.inl rfl
      · rcases hp p hm' with h | ⟨q', hq', e⟩
        · exact Or.inl h
        · rcases List.mem_cons.1 hq' with rfl | hq'
          · exact absurd e hne
          · exact Or.inr ⟨q', hq', e⟩

/-! ### the two ways of closing a history out -/

theorem l5s_closeOutQ_released (h : List HOp) : L5sReleased (runHistory (closeOutQ h) {} 0 [] 1).1 := by
  rw [l5s_runHistory_fst]
  unfold closeOutQ l5s_dropAll
  rw [List.append_assoc, List.append_assoc, l5s_final_append, l5s_final_append]
  have hs1 := l5s_seq_final h l5s_seq_init 1
  have hp1 : L5sPend (l5s_final h {} 1).1 ([] ++ l5s_queries h) :=
    l5s_pend_final h l5s_seq_init (by intro p hp; simp at hp) 1
  rw [List.nil_append] at hp1
  have hs2 := l5s_seq_final ((l5s_queries h).map HOp.runq) hs1 (l5s_final h {} 1).2
  have hdone := l5s_runqs_done (l5s_queries h) hs1 hp1 (l5s_final h {} 1).2
  obtain ⟨n1, n2⟩ := l5s_next_final h l5s_seq_init 1
  obtain ⟨m1, m2⟩ := l5s_next_final ((l5s_queries h).map HOp.runq) hs1 (l5s_final h {} 1).2
  have z : l5s_numS ((l5s_queries h).map HOp.runq) = 0 ∧ l5s_numD ((l5s_queries h).map HOp.runq) = 0 := by
    unfold l5s_numS l5s_numD
    constructor <;> simp [List.filter_eq_nil_iff]
  apply l5s_drop_gc_released hs2 hdone
  · rw [m1, n1, z.1]; show 1 + _ + 0 ≤ _; omega
  · rw [m2, n2, z.2]; show 1 + _ + 0 ≤ _; omega

theorem l5s_pending_false {st : St} (h : l5s_pending st = false) : ∀ p ∈ st.ops, p.2.pc = .done := by
  unfold l5s_pending at h
  rw [List.any_eq_false] at h
  intro p hp
  have := h p hp
  simpa using this

theorem l5s_closeOut_released (h : List HOp) (hnp : l5s_pending (runHistory h {} 0 [] 1).1 = false) :
    L5sReleased (runHistory (closeOut h) {} 0 [] 1).1 := by
  rw [l5s_runHistory_fst] at hnp ⊢
  unfold closeOut l5s_dropAll
  rw [List.append_assoc, l5s_final_append]
  have hs1 := l5s_seq_final h l5s_seq_init 1
  obtain ⟨n1, n2⟩ := l5s_next_final h l5s_seq_init 1
  apply l5s_drop_gc_released hs1 (l5s_pending_false hnp)
  · rw [n1]; show 1 + _ ≤ _; omega
  · rw [n2]; show 1 + _ ≤ _; omega

end Sqlair.Cache
