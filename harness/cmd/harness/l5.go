package main

import (
	"context"
	"database/sql"
	"database/sql/driver"
	"encoding/json"
	"errors"
	"flag"
	"fmt"
	"runtime"
	"sort"
	"strings"
	"sync"
	"time"

	"github.com/canonical/sqlair"

	"verifharness/internal/fakedrv"
	"verifharness/internal/lean"
	"verifharness/internal/rng"
	"verifharness/internal/zoo"
)

// two slice inputs: different argument shapes can have the same number of parameters
// (ends in a statement terminator: the text is the cache key as it stands)
const l5SQL = "SELECT &Row.* FROM t WHERE a IN ($Ints[:]) OR b IN ($Strs[:]);"

// the same shapes on a statement without outputs (concurrent runs: every other Statement)
const l5ExecSQL = "UPDATE t SET c = 0 WHERE a IN ($Ints[:]) OR b IN ($Strs[:])"

// a bulk insert written with explicit members: its SQL has one tuple per row (concurrent
// runs: the third Statement, when there are three)
const l5BulkSQL = "INSERT INTO t (a, b) VALUES ($Row.a, $Row.b)"

// l5Tag is what the shape means for a statement: the shape itself, or the number of tuples.
func l5Tag(bulk bool, shape int) int {
	if bulk {
		return 1 + shape%4
	}
	return shape
}

// l5ArgsFor builds the arguments of a shape for a statement.
func l5ArgsFor(bulk bool, shape int) []any {
	if bulk {
		return []any{make([]Row, 1+shape%4)}
	}
	ints, strs := l5Args(shape)
	return []any{ints, strs}
}

// l5All runs the query to its end: GetAll for a statement with outputs, Run for one without.
func l5All(q *sqlair.Query, noOut bool) error {
	if noOut {
		return q.Run()
	}
	var rows []Row
	return q.GetAll(&rows)
}

// l5Args builds the arguments of shape k (0..8): slice lengths (k/3, k%3).
func l5Args(k int) (zoo.Ints, zoo.Strs) {
	return make(zoo.Ints, (k%9)/3), make(zoo.Strs, k%3)
}

type l5Op struct {
	Op    string `json:"op"` // newS newD run dropS dropD gc
	S     int    `json:"s,omitempty"`
	D     int    `json:"d,omitempty"`
	Shape int    `json:"shape,omitempty"`
	Q     int    `json:"q,omitempty"`
	// Twin (mkq only): this Query is the very same Go object as Query Twin, to be run a
	// second time; for the model it is a second Query built at the same moment
	Twin int `json:"twin,omitempty"`
	// Fail (run only): the driver fails the execution of this run (the cache protocol is
	// the same: the statement was prepared and stored before it is executed)
	Fail bool `json:"fail,omitempty"`
	// Bad (run only): the run is a Query.Get whose first row cannot be decoded; what the
	// cache and the driver see is the same as for any other run
	Bad bool `json:"bad,omitempty"`
}

func genL5(r *rng.R) []l5Op {
	var h []l5Op
	nS, nD := 0, 0
	liveS, liveD := []int{}, []int{}
	add := func(o l5Op) { h = append(h, o) }
	add(l5Op{Op: "newS"})
	nS++
	liveS = append(liveS, nS)
	add(l5Op{Op: "newD"})
	nD++
	liveD = append(liveD, nD)
	n := 4 + r.Intn(22)
	lastShape := 1
	nQ := 0
	var pendingQ []int
	if r.Chance(1, 4) {
		// directed opening: a Query is built (and perhaps run once), its cached statement is
		// evicted by another shape, garbage is collected, then the held Query is run (again)
		a := r.Pick9()
		b := r.Pick9()
		for b == a {
			b = r.Pick9()
		}
		if r.Chance(1, 2) {
			add(l5Op{Op: "run", S: 1, D: 1, Shape: a})
		}
		nQ++
		add(l5Op{Op: "mkq", Q: nQ, S: 1, D: 1, Shape: a})
		twin := r.Chance(2, 3)
		if twin {
			nQ++
			add(l5Op{Op: "mkq", Q: nQ, S: 1, D: 1, Shape: a, Twin: nQ - 1})
			add(l5Op{Op: "runq", Q: nQ - 1})
		}
		pendingQ = append(pendingQ, nQ)
		add(l5Op{Op: "run", S: 1, D: 1, Shape: b})
		if r.Chance(3, 4) {
			add(l5Op{Op: "gc"})
		}
		if r.Chance(1, 2) {
			add(l5Op{Op: "runq", Q: nQ})
			pendingQ = nil
		}
		lastShape = b
	}
	for i := 0; i < n; i++ {
		switch x := r.Intn(20); {
		case x < 11 && len(liveS) > 0 && len(liveD) > 0:
			shape := lastShape
			if r.Chance(1, 2) {
				shape = r.Pick9()
			}
			lastShape = shape
			o := l5Op{Op: "run", S: liveS[r.Intn(len(liveS))], D: liveD[r.Intn(len(liveD))], Shape: shape, Fail: r.Chance(1, 6)}
			if !o.Fail && r.Chance(1, 6) {
				o.Bad = true
			}
			add(o)
		case x == 11 && len(liveS) > 0 && len(liveD) > 0 && nQ < 4:
			// a Query that is built now and run later (handles may be dropped in between)
			nQ++
			pendingQ = append(pendingQ, nQ)
			shape := lastShape
			if r.Chance(1, 3) {
				shape = r.Pick9()
			}
			o := l5Op{Op: "mkq", Q: nQ, S: liveS[r.Intn(len(liveS))], D: liveD[r.Intn(len(liveD))], Shape: shape}
			add(o)
			if r.Chance(1, 2) {
				// the same Query object will be run twice
				nQ++
				pendingQ = append(pendingQ, nQ)
				o.Twin, o.Q = o.Q, nQ
				add(o)
			}
		case x == 12 && len(pendingQ) > 0:
			i := r.Intn(len(pendingQ))
			add(l5Op{Op: "runq", Q: pendingQ[i]})
			pendingQ = append(pendingQ[:i], pendingQ[i+1:]...)
		case x < 13 && nS < 4:
			add(l5Op{Op: "newS"})
			nS++
			liveS = append(liveS, nS)
		case x < 14 && nD < 3:
			add(l5Op{Op: "newD"})
			nD++
			liveD = append(liveD, nD)
		case x < 16 && len(liveS) > 0:
			i := r.Intn(len(liveS))
			add(l5Op{Op: "dropS", S: liveS[i]})
			liveS = append(liveS[:i], liveS[i+1:]...)
		case x < 17 && len(liveD) > 0:
			i := r.Intn(len(liveD))
			add(l5Op{Op: "dropD", D: liveD[i]})
			liveD = append(liveD[:i], liveD[i+1:]...)
		default:
			add(l5Op{Op: "gc"})
		}
	}
	if r.Chance(1, 2) && len(pendingQ) > 0 {
		// drop everything, collect, and only then run the pending queries
		for _, s := range liveS {
			add(l5Op{Op: "dropS", S: s})
		}
		for _, d := range liveD {
			add(l5Op{Op: "dropD", D: d})
		}
		liveS, liveD = nil, nil
		add(l5Op{Op: "gc"})
	}
	for _, q := range pendingQ {
		add(l5Op{Op: "runq", Q: q})
	}
	if r.Chance(1, 2) {
		for _, s := range liveS {
			add(l5Op{Op: "dropS", S: s})
		}
		for _, d := range liveD {
			add(l5Op{Op: "dropD", D: d})
		}
	}
	add(l5Op{Op: "gc"})
	return h
}

// collect forces garbage collection until finalizers have quiesced.
func collect(stable func() string) {
	last := ""
	same := 0
	for i := 0; i < 200 && same < 3; i++ {
		done := make(chan struct{})
		sentinel := new([16]byte)
		runtime.SetFinalizer(sentinel, func(*[16]byte) { close(done) })
		sentinel = nil
		runtime.GC()
		select {
		case <-done:
		case <-time.After(200 * time.Millisecond):
		}
		time.Sleep(time.Millisecond)
		cur := stable()
		if cur == last {
			same++
		} else {
			same = 0
			last = cur
		}
	}
}

// prepares counts the driver-level prepares seen so far by all databases of a case.
func prepares(states []*fakedrv.State) int {
	n := 0
	for _, st := range states {
		for _, e := range st.Events() {
			if e.Kind == "prepare" {
				n++
			}
		}
	}
	return n
}

type l5DB struct {
	db    *sqlair.DB
	state *fakedrv.State
	id    uint64
}

type dsKey struct {
	db   int
	stmt int
}

type l5Seg struct {
	Calls  [][]any `json:"calls"` // [kind, ds, db, shape]
	Closed []int   `json:"closed"`
}

type l5Obs struct {
	Segs        []l5Seg  `json:"segs"`
	Execs       [][]any  `json:"execs"` // [ds, db, shape, wantDb, wantShape, closedBefore]
	Pairs       [][3]int `json:"pairs"` // (s, d, shape) cached at the end
	Stmts       int      `json:"stmts"` // cache entries (statement ids of this case)
	DBs         int      `json:"dbs"`
	OpenStmts   int      `json:"openStmts"`
	DoubleClose int      `json:"doubleClose"`
	ClosedUse   int      `json:"closedUse"`
	ClosedErrs  int      `json:"closedErrs"`
	AllDropped  bool     `json:"allDropped"`
	NoStats     bool     `json:"noStats"` // degraded mode: the cache snapshot hook is not available
	Errors      []string `json:"errors"`
	// PrepPerOp: driver-level prepares made by each run / runq operation, in order
	PrepPerOp []int `json:"prepPerOp"`
	// LeftOpen: a failed Get left its result set (and so its connection and, for ever, its
	// driver statement) open
	LeftOpen bool   `json:"leftOpen"`
	Panic    string `json:"panic,omitempty"`
}

// shapeOfSQL recovers the shape from the generated SQL: placeholders in the first and
// in the second IN list.
func shapeOfSQL(q string) int {
	if strings.HasPrefix(q, "INSERT") {
		return strings.Count(q, "), (") + 1
	}
	i := strings.Index(q, " OR b IN (")
	if i < 0 {
		return -1
	}
	return strings.Count(q[:i], "@sqlair_")*3 + strings.Count(q[i:], "@sqlair_")
}

func runL5Case(h []l5Op) (obs *l5Obs) {
	obs = &l5Obs{Segs: []l5Seg{}, Pairs: [][3]int{}, Errors: []string{}, Execs: [][]any{}, NoStats: !hooksAvailable}
	preparedSQL := map[dsKey]string{}
	closedDS := map[dsKey]bool{}
	defer func() {
		if p := recover(); p != nil {
			obs.Panic = fmt.Sprint(p)
		}
	}()
	var stmts []*sqlair.Statement
	queries := map[int]*sqlair.Query{}
	pendingDB := map[int]int{} // kept Query -> number of its DB
	var stmtIDs []uint64
	var dbs []*l5DB
	var keep []*fakedrv.State
	dsNum := map[dsKey]int{}
	seen := map[int64]bool{}
	segment := func() {
		// merge the new events of all databases by global sequence number
		type ev struct {
			e  fakedrv.Event
			db int
		}
		var evs []ev
		for i, st := range keep {
			for _, e := range st.Events() {
				if !seen[e.Seq] {
					seen[e.Seq] = true
					evs = append(evs, ev{e, i + 1})
				}
			}
		}
		sort.Slice(evs, func(i, j int) bool { return evs[i].e.Seq < evs[j].e.Seq })
		sg := l5Seg{Calls: [][]any{}, Closed: []int{}}
		for _, x := range evs {
			k := dsKey{x.db, x.e.Stmt}
			switch x.e.Kind {
			case "prepare":
				dsNum[k] = len(dsNum) + 1
				preparedSQL[k] = x.e.SQL
				sg.Calls = append(sg.Calls, []any{"prepare", dsNum[k], x.db, shapeOfSQL(x.e.SQL)})
			case "query", "exec":
				sg.Calls = append(sg.Calls, []any{"exec", dsNum[k], x.db, shapeOfSQL(x.e.SQL)})
				var wd, wk int
				fmt.Sscanf(x.e.Ctx, "d%d-k%d", &wd, &wk)
				obs.Execs = append(obs.Execs, []any{dsNum[k], x.db, shapeOfSQL(preparedSQL[k]), wd, wk, closedDS[k] || x.e.Closed})
			case "stmtclose":
				closedDS[k] = true
				sg.Closed = append(sg.Closed, dsNum[k])
			}
		}
		sort.Ints(sg.Closed)
		obs.Segs = append(obs.Segs, sg)
	}
	stable := func() string {
		n := 0
		for _, st := range keep {
			n += len(st.Events())
		}
		cs := hookGetCacheStats()
		return fmt.Sprint(n, len(cs.Pairs), cs.Statements, cs.DBs)
	}
history:
	for _, op := range h {
		switch op.Op {
		case "newS":
			s, err := sqlair.Prepare(l5SQL, Row{}, zoo.Ints{}, zoo.Strs{})
			if err != nil {
				obs.Panic = "prepare: " + err.Error()
				return obs
			}
			stmts = append(stmts, s)
			stmtIDs = append(stmtIDs, hookStatementID(s))
		case "newD":
			sqldb, st := fakedrv.Open()
			sqldb.SetMaxOpenConns(1)
			st.SetScript(fakedrv.Script{Columns: rowCols})
			d := sqlair.NewDB(sqldb)
			dbs = append(dbs, &l5DB{db: d, state: st, id: hookDBID(d)})
			keep = append(keep, st)
		case "run":
			ints, strs := l5Args(op.Shape)
			var rows []Row
			ctx := context.WithValue(context.Background(), fakedrv.CtxKey{}, fmt.Sprintf("d%d-k%d", op.D, op.Shape))
			if op.Fail {
				dbs[op.D-1].state.FailNext("query", inj(2))
			}
			p0 := prepares(keep)
			var err error
			if op.Bad {
				// one row whose first column does not convert to the int64 member
				dbs[op.D-1].state.SetRows([][]driver.Value{{"abc", "r1", "l1"}})
				var row Row
				err = dbs[op.D-1].db.Query(ctx, stmts[op.S-1], ints, strs).Get(&row)
				dbs[op.D-1].state.SetRows(nil)
				if err != nil && errText(err) == "wrapped(scan)" {
					err = nil // the scripted failure
				}
				if dbs[op.D-1].db.PlainDB().Stats().InUse != 0 {
					// nothing can be run on this database any more (one pooled connection)
					obs.LeftOpen = true
					obs.PrepPerOp = append(obs.PrepPerOp, prepares(keep)-p0)
					break history
				}
			} else {
				err = dbs[op.D-1].db.Query(ctx, stmts[op.S-1], ints, strs).GetAll(&rows)
			}
			obs.PrepPerOp = append(obs.PrepPerOp, prepares(keep)-p0)
			if op.Fail && err != nil && strings.Contains(err.Error(), "INJ2") {
				err = nil // the scripted failure
			}
			if err != nil && errText(err) != "noRows" {
				obs.Errors = append(obs.Errors, err.Error())
				if strings.Contains(err.Error(), "statement is closed") {
					obs.ClosedErrs++
				}
			}
		case "mkq":
			pendingDB[op.Q] = op.D
			if op.Twin != 0 {
				pendingDB[op.Q] = pendingDB[op.Twin]
			}
			ints, strs := l5Args(op.Shape)
			ctx := context.WithValue(context.Background(), fakedrv.CtxKey{}, fmt.Sprintf("d%d-k%d", op.D, op.Shape))
			if op.Twin != 0 {
				queries[op.Q] = queries[op.Twin]
			} else {
				queries[op.Q] = dbs[op.D-1].db.Query(ctx, stmts[op.S-1], ints, strs)
			}
		case "runq":
			var rows []Row
			q := queries[op.Q]
			delete(queries, op.Q)
			delete(pendingDB, op.Q)
			p0 := prepares(keep)
			err := q.GetAll(&rows)
			obs.PrepPerOp = append(obs.PrepPerOp, prepares(keep)-p0)
			q = nil
			if err != nil && errText(err) != "noRows" {
				obs.Errors = append(obs.Errors, err.Error())
				if strings.Contains(err.Error(), "statement is closed") {
					obs.ClosedErrs++
				}
			}
		case "dropS":
			stmts[op.S-1] = nil
		case "dropD":
			dbs[op.D-1].db = nil
		case "gc":
			collect(stable)
			segment()
			// a DB that was dropped, that no kept Query refers to, and that the collector has
			// dealt with: every driver statement prepared on it is closed, whichever
			// Statements are still held
			for di, d := range dbs {
				held := d.db != nil
				for _, pd := range pendingDB {
					if pd == di+1 {
						held = true
					}
				}
				if !held && d.state.OpenStmts() > 0 {
					obs.LeftOpen = true
					obs.Errors = append(obs.Errors, fmt.Sprintf("DB %d was dropped and collected, %d of its driver statements are still open", di+1, d.state.OpenStmts()))
				}
			}
		}
	}
	segment()
	// cache snapshot restricted to this case's ids
	cs := hookGetCacheStats()
	sIdx := map[uint64]int{}
	for i, id := range stmtIDs {
		sIdx[id] = i + 1
	}
	dIdx := map[uint64]int{}
	for i, d := range dbs {
		dIdx[d.id] = i + 1
	}
	for i, p := range cs.Pairs {
		if s, ok := sIdx[p[0]]; ok {
			if d, ok := dIdx[p[1]]; ok {
				obs.Pairs = append(obs.Pairs, [3]int{s, d, shapeOfSQL(cs.SQL[i])})
			}
		}
	}
	sort.Slice(obs.Pairs, func(i, j int) bool {
		a, b := obs.Pairs[i], obs.Pairs[j]
		return a[0] < b[0] || a[0] == b[0] && a[1] < b[1]
	})
	obs.AllDropped = true
	for _, s := range stmts {
		if s != nil {
			obs.AllDropped = false
		}
	}
	for _, d := range dbs {
		if d.db != nil {
			obs.AllDropped = false
		}
	}
	for _, st := range keep {
		obs.OpenStmts += st.OpenStmts()
		obs.DoubleClose += st.DoubleClose
		obs.ClosedUse += st.ClosedStmtUse
	}
	for id := range sIdx {
		for _, p := range cs.Pairs {
			_ = p
		}
		_ = id
	}
	runtime.KeepAlive(stmts)
	runtime.KeepAlive(dbs)
	return obs
}

// ---- invariant flavour: concurrency, open iterators, several pooled connections ---------

type l5ConcObs struct {
	Execs       [][]any  `json:"execs"` // [ds, db, shape, wantDb, wantShape, closedBefore]
	ClosedErrs  int      `json:"closedErrs"`
	DoubleClose int      `json:"doubleClose"`
	OpenStmts   int      `json:"openStmts"`
	CacheLeft   int      `json:"cacheLeft"`
	Errors      []string `json:"errors"`
	Calls       int      `json:"calls"`
	Evictions   int      `json:"evictions"`
	// TxStray: driver calls made on behalf of a transaction on another connection than the
	// transaction's; TxRuns: statements issued through transactions
	// DupIDs: live Statements sharing a cache id; StmtEntriesLeft: Statement entries in the
	// cache after everything was dropped and collected
	DupIDs          int `json:"dupIDs"`
	StmtEntriesLeft int `json:"stmtEntriesLeft"`
	TxStray         int `json:"txStray"`
	TxRuns          int `json:"txRuns"`
	// DBStray: DBs created at the same moment that share a cache id, or whose first query
	// did not reach their own driver; TxAfterEnd: Query objects of a finished transaction
	// that ran without an error
	DBStray    int    `json:"dbStray"`
	TxAfterEnd int    `json:"txAfterEnd"`
	Panic      string `json:"panic,omitempty"`
}

func runL5Conc(r *rng.R, threads, perThread int) (obs *l5ConcObs) {
	obs = &l5ConcObs{Execs: [][]any{}, Errors: []string{}}
	defer func() {
		if p := recover(); p != nil {
			obs.Panic = fmt.Sprint(p)
		}
	}()
	nS, nD := 1+r.Intn(3), 1+r.Intn(2)
	stress := threads == 0
	if stress {
		// eviction stress: several goroutines alternate argument shapes on one Statement and
		// one DB in a tight loop (no iterators, no forced GC): the window between obtaining
		// a driver statement and executing it is hit many times
		nS, nD, threads, perThread = 1, 1, 4, 1500
	}
	// transaction-heavy runs: one Statement, one DB, two shapes, half of the operations inside
	// transactions, so that several transactions overlap on the same cached statement
	txHeavy := !stress && r.Chance(1, 2)
	if txHeavy {
		nS, nD = 1, 1
	}
	// the Statements of the run, and sixteen more that are only held until the end, are
	// prepared at the same moment by as many goroutines: every one gets its own place in
	// the cache (C11: "for all histories ... over several Statements")
	stmts := make([]*sqlair.Statement, nS)
	noOut := map[*sqlair.Statement]bool{} // (read-only once the goroutines run)
	bulk := map[*sqlair.Statement]bool{} // (the bulk insert; run like a statement without outputs)
	par := r.Intn(2)
	extra := make([]*sqlair.Statement, 16*16)
	{
		startP := make(chan struct{})
		var wgp sync.WaitGroup
		for g := 0; g < 16; g++ {
			wgp.Add(1)
			go func(g int) {
				defer wgp.Done()
				<-startP
				for k := 0; k < 16; k++ {
					s, _ := sqlair.Prepare(l5SQL, Row{}, zoo.Ints{}, zoo.Strs{})
					if (g*16+k+par)%2 == 1 {
						s, _ = sqlair.Prepare(l5ExecSQL, zoo.Ints{}, zoo.Strs{})
					}
					if g*16+k == 2 {
						s, _ = sqlair.Prepare(l5BulkSQL, Row{})
					}
					extra[g*16+k] = s
					if i := g*16 + k; i < nS {
						stmts[i] = s
					}
				}
			}(g)
		}
		close(startP)
		wgp.Wait()
		for i, s := range stmts {
			noOut[s] = (i+par)%2 == 1 || i == 2
			bulk[s] = i == 2
		}
		seenID := map[uint64]bool{}
		for _, s := range extra { // (the run's own Statements are the first of them)
			id := hookStatementID(s)
			if seenID[id] {
				obs.DupIDs++
			}
			seenID[id] = true
		}
	}
	type dbT struct {
		db    *sqlair.DB
		state *fakedrv.State
	}
	// the DBs of the run, and some fifty more, are created at the same moment by sixteen
	// goroutines: every DB is a cache key of its own
	const moreDBs = 48
	all := make([]*dbT, nD+moreDBs)
	{
		startD := make(chan struct{})
		var wgd sync.WaitGroup
		for g := 0; g < 16; g++ {
			wgd.Add(1)
			go func(g int) {
				defer wgd.Done()
				type pre struct {
					sqldb *sql.DB
					st    *fakedrv.State
				}
				var mine []pre
				for i := g; i < len(all); i += 16 {
					sqldb, st := fakedrv.Open()
					sqldb.SetMaxOpenConns(4)
					st.SetScript(fakedrv.Script{Columns: rowCols, Rows: nil})
					mine = append(mine, pre{sqldb, st})
				}
				<-startD
				for k, i := 0, g; i < len(all); k, i = k+1, i+16 {
					all[i] = &dbT{sqlair.NewDB(mine[k].sqldb), mine[k].st}
				}
			}(g)
		}
		close(startD)
		wgd.Wait()
		seenDB := map[uint64]bool{}
		for _, d := range all {
			if hooksAvailable {
				id := hookDBID(d.db)
				if seenDB[id] {
					obs.DBStray++
				}
				seenDB[id] = true
			}
		}
		// the first query of every additional DB reaches that DB's own driver
		for _, d := range all[nD:] {
			ints, strs := l5Args(1)
			l5All(d.db.Query(context.Background(), stmts[0], ints, strs), noOut[stmts[0]])
			seen := false
			for _, e := range d.state.Events() {
				if e.Kind == "query" || e.Kind == "exec" {
					seen = true
				}
			}
			if !seen {
				obs.DBStray++
			}
		}
	}
	// half of the additional DBs go away; the others, still held, keep what was prepared for
	// them (a DB sharing a cache key with one that went would lose its statements)
	for i := nD; i < len(all); i += 2 {
		all[i].db = nil
	}
	collect(func() string {
		n := 0
		for _, d := range all[nD:] {
			n += len(d.state.Events())
		}
		return fmt.Sprint(n)
	})
	for i := nD + 1; i < len(all); i += 2 {
		func() {
			defer func() {
				if p := recover(); p != nil {
					obs.ClosedErrs++
					obs.Errors = append(obs.Errors, fmt.Sprint("a held DB, after DBs created at the same moment were collected: panic: ", p))
				}
			}()
			ints, strs := l5Args(1)
			if err := l5All(all[i].db.Query(context.Background(), stmts[0], ints, strs), noOut[stmts[0]]); err != nil && strings.Contains(err.Error(), "statement is closed") {
				obs.ClosedErrs++
				obs.Errors = append(obs.Errors, "a held DB, after DBs created at the same moment were collected: "+err.Error())
			}
			if all[i].state.OpenStmts() == 0 {
				// its one statement was closed although the DB and the Statement are held
				obs.ClosedErrs++
			}
		}()
	}
	dbs := all[:nD]
	// two DB values over one sql.DB are two cache keys as well: what one of them prepared
	// goes away with it, the other keeps working
	func() {
		sqldb, st := fakedrv.Open()
		sqldb.SetMaxOpenConns(4)
		st.SetScript(fakedrv.Script{Columns: rowCols, Rows: nil})
		a, b := sqlair.NewDB(sqldb), sqlair.NewDB(sqldb)
		ints, strs := l5Args(1)
		l5All(a.Query(context.Background(), stmts[0], ints, strs), noOut[stmts[0]])
		l5All(b.Query(context.Background(), stmts[0], ints, strs), noOut[stmts[0]])
		a = nil
		collect(func() string { return fmt.Sprint(len(st.Events())) })
		if err := l5All(b.Query(context.Background(), stmts[0], ints, strs), noOut[stmts[0]]); err != nil && (strings.Contains(err.Error(), "statement is closed") || strings.Contains(err.Error(), "database is closed")) {
			obs.ClosedErrs++
			obs.Errors = append(obs.Errors, "second DB value over the same sql.DB, after the first was collected: "+err.Error())
		}
		runtime.KeepAlive(b)
		all = append(all, &dbT{nil, st})
	}()
	var mu sync.Mutex
	var wg sync.WaitGroup
	seeds := make([]*rng.R, threads)
	for i := range seeds {
		seeds[i] = r.Fork()
	}
	dropAt := r.Intn(perThread + 1)
	for t := 0; t < threads; t++ {
		wg.Add(1)
		go func(t int) {
			defer wg.Done()
			defer func() {
				// a panic inside the library on one of the goroutines: reported, not fatal
				if p := recover(); p != nil {
					mu.Lock()
					obs.Panic = fmt.Sprint(p)
					mu.Unlock()
				}
			}()
			tr := seeds[t]
			var open *sqlair.Iterator
			for i := 0; i < perThread; i++ {
				s := stmts[tr.Intn(nS)]
				di := tr.Intn(nD)
				shape := tr.Pick9()
				if !stress && (txHeavy || tr.Chance(1, 2)) {
					shape = 1 + tr.Intn(2) // two frequent shapes: cache hits, also inside transactions
				}
				if !stress && open == nil && (tr.Chance(1, 5) || (txHeavy && tr.Chance(1, 2))) {
					// a transaction running one to four statements (several shapes of the same
					// Statements the other goroutines run on the DB), then Commit or Rollback
					txid := t*10000 + i
					bctx := context.WithValue(context.Background(), fakedrv.CtxKey{}, fmt.Sprintf("txB-%d", txid))
					tx, berr := dbs[di].db.Begin(bctx, []*sqlair.TXOptions{nil, {}, {ReadOnly: true}}[txid%3])
					if berr != nil {
						mu.Lock()
						obs.Errors = append(obs.Errors, "begin: "+berr.Error())
						mu.Unlock()
						continue
					}
					nq := 1 + tr.Intn(4)
					var lastTQ *sqlair.Query
					lastNoOut := false
					for k := 0; k < nq; k++ {
						s := stmts[tr.Intn(nS)]
						if k > 0 && tr.Chance(1, 3) {
							shape = 1 + tr.Intn(3)
							if txHeavy {
								shape = 1 + tr.Intn(2)
							}
						}
						ctx := context.WithValue(context.Background(), fakedrv.CtxKey{}, fmt.Sprintf("d%d-k%d-x%d", di+1, l5Tag(bulk[s], shape), txid))
						tq := tx.Query(ctx, s, l5ArgsFor(bulk[s], shape)...)
						err := l5All(tq, noOut[s])
						if err == nil && tr.Chance(1, 3) {
							// the same Query object once more: still the transaction's
							l5All(tq, noOut[s])
						}
						lastTQ, lastNoOut = tq, noOut[s]
						if k == 0 && err == nil && !stress && tr.Chance(1, 8) {
							// the transaction's connection is lost: what is issued through the
							// transaction from now on fails, it does not run anywhere else
							for _, e := range dbs[di].state.Events() {
								if e.Kind == "begin" && e.Ctx == fmt.Sprintf("txB-%d", txid) {
									dbs[di].state.KillConn(e.Conn)
								}
							}
						}
						if k == 0 && tr.Chance(1, 2) {
							// the same shape on the DB in between: the pair's cache entry changes
							// while the transaction is open
							shape2 := tr.Pick9()
							// (this needs a second connection while the transaction holds one: bounded
							// by a deadline so that goroutines cannot wait for each other for ever)
							c2, cancel2 := context.WithTimeout(context.WithValue(context.Background(), fakedrv.CtxKey{}, fmt.Sprintf("d%d-k%d", di+1, l5Tag(bulk[s], shape2))), 20*time.Millisecond)
							l5All(dbs[di].db.Query(c2, s, l5ArgsFor(bulk[s], shape2)...), noOut[s])
							cancel2()
						}
						mu.Lock()
						obs.Calls++
						obs.TxRuns++
						if err != nil && errText(err) != "noRows" {
							obs.Errors = append(obs.Errors, err.Error())
							if strings.Contains(err.Error(), "statement is closed") {
								obs.ClosedErrs++
							}
						}
						mu.Unlock()
					}
					// in a third of the transactions one more statement is issued through the
					// transaction by a helper goroutine while this one ends it: it runs on the
					// transaction's connection before the end, or not at all
					var raced chan struct{}
					if !stress && tr.Chance(1, 3) {
						rs := stmts[tr.Intn(nS)]
						rshape := 1 + tr.Intn(2)
						rctx := context.WithValue(context.Background(), fakedrv.CtxKey{}, fmt.Sprintf("d%d-k%d-x%d", di+1, l5Tag(bulk[rs], rshape), txid))
						rq := tx.Query(rctx, rs, l5ArgsFor(bulk[rs], rshape)...)
						raced = make(chan struct{})
						rNoOut := noOut[rs]
						go func() {
							defer close(raced)
							defer func() { recover() }()
							l5All(rq, rNoOut)
						}()
						if tr.Chance(1, 2) {
							runtime.Gosched()
						}
					}
					if tr.Chance(1, 2) {
						tx.Commit()
					} else {
						tx.Rollback()
					}
					if raced != nil {
						<-raced
					}
					if tr.Chance(1, 3) {
						// another transaction is begun on this goroutine; the finished one stays
						// finished: its handle ends nothing and runs nothing
						// (no deadline on this context: database/sql would end the transaction with it;
						// this goroutine holds no other connection while it waits for one)
						bctx2, bcancel2 := context.WithCancel(context.WithValue(context.Background(), fakedrv.CtxKey{}, fmt.Sprintf("txB-%d", txid+5000)))
						if tx2, e2 := dbs[di].db.Begin(bctx2, nil); e2 == nil {
							ints, strs := l5Args(1)
							eq := l5All(tx.Query(context.Background(), stmts[0], ints, strs), noOut[stmts[0]])
							er := tx.Rollback()
							ec := tx2.Commit()
							if eq == nil || er == nil || ec != nil {
								mu.Lock()
								obs.TxAfterEnd++
								obs.Errors = append(obs.Errors, fmt.Sprintf("after a finished transaction and a new Begin: query on the old handle %v, its Rollback %v, Commit of the new one %v", eq, er, ec))
								mu.Unlock()
							}
						}
						bcancel2()
					}
					if lastTQ != nil && tr.Chance(1, 2) {
						// a Query object of the finished transaction: it fails, nothing runs
						if e := l5All(lastTQ, lastNoOut); e == nil {
							mu.Lock()
							obs.TxAfterEnd++
							mu.Unlock()
						}
					}
					continue
				}
				ctx := context.WithValue(context.Background(), fakedrv.CtxKey{}, fmt.Sprintf("d%d-k%d", di+1, l5Tag(bulk[s], shape)))
				if !stress && tr.Chance(1, 12) {
					// the context ends at the very moment the driver has prepared a statement (this
					// call's, or whichever goroutine's Prepare comes next on this DB): whatever was
					// prepared is still released in the end
					var cancelP context.CancelFunc
					ctx, cancelP = context.WithCancel(ctx)
					defer cancelP()
					dbs[di].state.CancelNext("prepare", cancelP)
				}
				if !stress && tr.Chance(1, 10) {
					// an ordinary database error (a constraint violation, say) answers the next
					// execution on this DB - this call's or another goroutine's: the failure is
					// that call's alone, every other execution still finds its statement open
					dbs[di].state.FailNext("exec", errors.New("constraint failed"))
					dbs[di].state.FailNext("query", errors.New("constraint failed"))
				}
				q := dbs[di].db.Query(ctx, s, l5ArgsFor(bulk[s], shape)...)
				if !stress && tr.Chance(1, 4) {
					runtime.GC()
				}
				var err error
				if !stress && open == nil && !noOut[s] && tr.Chance(1, 4) {
					// keep an iterator open across the following operations
					open = q.Iter()
					open.Next()
				} else {
					err = l5All(q, noOut[s])
				}
				if open != nil && tr.Chance(1, 2) {
					if cerr := open.Close(); cerr != nil {
						err = cerr
					}
					open = nil
				}
				if i == dropAt && t == 0 {
					// the Statements that were only held are dropped while the other goroutines
					// are in the middle of their queries: they are released all the same
					for k := nS; k < len(extra); k++ {
						extra[k] = nil
					}
					runtime.GC()
					runtime.GC()
				}
				mu.Lock()
				obs.Calls++
				if err != nil && errText(err) != "noRows" {
					obs.Errors = append(obs.Errors, err.Error())
					if strings.Contains(err.Error(), "statement is closed") {
						obs.ClosedErrs++
					}
				}
				mu.Unlock()
			}
			if open != nil {
				open.Close()
			}
		}(t)
	}
	wg.Wait()
	// what the driver saw
	for di, d := range dbs {
		prepared := map[int]string{}
		closed := map[int]bool{}
		txConn := map[int]int{}
		connTx := map[int]int{}   // connection -> the transaction open on it
		txEnded := map[int]bool{} // transactions whose commit/rollback the driver has seen
		for _, e := range d.state.Events() {
			var txid int
			if n, _ := fmt.Sscanf(e.Ctx, "txB-%d", &txid); n == 1 && e.Kind == "begin" {
				txConn[txid] = e.Conn
				connTx[e.Conn] = txid
			}
			if e.Kind == "commit" || e.Kind == "rollback" {
				if id, ok := connTx[e.Conn]; ok {
					txEnded[id] = true
					delete(connTx, e.Conn)
				}
			}
			if i := strings.LastIndex(e.Ctx, "-x"); i >= 0 && (e.Kind == "prepare" || e.Kind == "exec" || e.Kind == "query") {
				if n, _ := fmt.Sscanf(e.Ctx[i:], "-x%d", &txid); n == 1 {
					// (on another connection, or - the connection may have been handed out again -
					// after the driver saw the transaction end)
					if c, ok := txConn[txid]; !ok || c != e.Conn || txEnded[txid] {
						obs.TxStray++
					}
				}
			}
			switch e.Kind {
			case "prepare":
				prepared[e.Stmt] = e.SQL
			case "stmtclose":
				closed[e.Stmt] = true
			case "query", "exec":
				var wd, wk int
				fmt.Sscanf(e.Ctx, "d%d-k%d", &wd, &wk)
				obs.Execs = append(obs.Execs, []any{e.Stmt, di + 1, shapeOfSQL(prepared[e.Stmt]), wd, wk, closed[e.Stmt] || e.Closed})
			}
		}
	}
	ids := map[uint64]bool{}
	for _, s := range stmts {
		ids[hookStatementID(s)] = true
	}
	// drop everything and collect
	states := []*fakedrv.State{}
	for _, d := range all {
		states = append(states, d.state)
	}
	for i := range stmts {
		stmts[i] = nil
	}
	for i := range extra {
		extra[i] = nil
	}
	for _, d := range all {
		d.db = nil
	}
	collect(func() string {
		n := 0
		for _, st := range states {
			n += len(st.Events())
		}
		cs := hookGetCacheStats()
		return fmt.Sprint(n, len(cs.Pairs), cs.Statements, cs.DBs)
	})
	cs := hookGetCacheStats()
	for _, p := range cs.Pairs {
		if ids[p[0]] {
			obs.CacheLeft++
		}
	}
	obs.StmtEntriesLeft = cs.Statements
	for _, st := range states {
		obs.OpenStmts += st.OpenStmts()
		obs.DoubleClose += st.DoubleClose
		for _, e := range st.Events() {
			if e.Kind == "prepare" {
				obs.Evictions++
			}
		}
	}
	return obs
}

func runL5(args []string) {
	fs := flag.NewFlagSet("l5", flag.ExitOnError)
	n := fs.Int("n", 150, "number of sequential histories")
	seed := fs.Uint64("seed", 1, "seed")
	tier := fs.String("tier", "quick", "tier")
	drv := fs.String("driver", "/verif/lean/.lake/build/bin/driver", "lean driver")
	out := fs.String("out", "", "report file")
	fs.String("repo", "/repo", "repository")
	replay := fs.String("replay", "", "replay one history (JSON)")
	conc := fs.Int("conc", 40, "number of concurrent runs (invariants only)")
	fs.Parse(args)

	cl, err := lean.Start(*drv)
	if err != nil {
		fatalf("cannot start driver: %v", err)
	}
	defer cl.Close()
	rep := newReport("l5", *seed, *tier)
	rep.Rule = "sequential histories over {newS,newD,run(s,d,shape) (also failing at the driver, also over an undecodable row),mkq/runq (a Query kept and run later, the same Query object twice)," +
		"dropS,dropD,gc} (1-4 Statements x 1-3 DBs x 9 argument shapes, single pooled connection, forced GC to " +
		"quiescence at every gc, a directed eviction opening in a quarter of them) compared exactly with the model's log segments, cache content and prepares per operation; plus concurrent runs " +
		"(256 Statements prepared and some fifty DBs created at once, half of those DBs dropped while the others run again, two DB values over one sql.DB, 2-6 goroutines, 4 pooled connections, statements with outputs / without / a bulk insert with explicit members, " +
		"open iterators, transactions running several shapes and overlapping on one cached statement, Query objects of a transaction run twice and after its end, a transaction's connection lost, contexts ending as Prepare returns, eviction stress, " +
		"GC at random points) checked by invariants; 36 directed cases of two retrievals from one Statement overlapping inside the scan of a single row (each must end with the rows served to its own query); non-trivial = at least one eviction or finalizer-driven close; distinct by hash of the history"
	r := rng.New(*seed)
	dist := map[string]int{}

	process := func(h []l5Op) {
		var obs *l5Obs
		hb, _ := json.Marshal(h)
		if withWatchdog(60*time.Second, func() { obs = runL5Case(h) }) {
			rep.countCase(string(hb), true)
			rep.addCrash(Finding{Case: map[string]any{"history": h, "replay": string(hb)}, Kind: "crash", Detail: "the history did not finish within 60 s (deadlock)"})
			return
		}
		closes, prepares := 0, 0
		for _, sg := range obs.Segs {
			closes += len(sg.Closed)
			for _, c := range sg.Calls {
				if c[0] == "prepare" {
					prepares++
				}
			}
		}
		rep.countCase(string(hb), closes > 0 || prepares > 1)
		dist["histories"]++
		dist["ops"] += len(h)
		dist["driver-prepares"] += prepares
		dist["driver-closes"] += closes
		caseJSON := map[string]any{"history": h, "replay": string(hb)}
		if obs.Panic != "" {
			rep.addCrash(Finding{Case: caseJSON, Kind: "crash", Detail: "panic: " + obs.Panic})
			return
		}
		resp, err := cl.Call(map[string]any{"k": "rt", "sub": "l5", "history": h, "obs": obs})
		if err != nil {
			fatalf("driver: %v (history %s)", err, hb)
		}
		if len(rep.Samples) < 4 && r.Chance(1, 10) {
			rep.Samples = append(rep.Samples, map[string]any{"history": h, "impl": obs})
		}
		holds := map[string]bool{"C09": getBool(resp, "c09"), "C10": getBool(resp, "c10"), "C11": getBool(resp, "c11")}
		for p, ok := range holds {
			if !ok {
				rep.addHolds(p, Finding{Case: caseJSON, Kind: "holds", Detail: "property predicate false on the implementation's observation",
					Holds: holds, Impl: obs, Model: resp["model"]})
			}
		}
		if !getBool(resp, "agree") {
			var aff []string
			if a, ok := resp["affects"].([]any); ok {
				for _, x := range a {
					aff = append(aff, fmt.Sprint(x))
				}
			}
			rep.Mismatches = appendMismatch(rep.Mismatches, Finding{Case: caseJSON, Kind: "mismatch",
				Detail: fmt.Sprint("model and implementation disagree: ", resp["diff"]), Holds: holds, Impl: obs, Model: resp["model"]}, aff)
		}
	}
	if *replay != "" {
		var h []l5Op
		if err := json.Unmarshal([]byte(*replay), &h); err != nil {
			fatalf("bad replay: %v", err)
		}
		process(h)
	} else {
		// directed: two retrievals of one Statement overlapping inside a single row's scan
		for _, oc := range ovCases() {
			var why string
			key := fmt.Sprintf("overlap%+v", oc)
			if withWatchdog(40*time.Second, func() { why = runOverlap(oc) }) {
				rep.countCase(key, true)
				rep.addCrash(Finding{Case: map[string]any{"overlap": oc}, Kind: "crash", Detail: "the overlapping retrievals did not finish within 40 s"})
				continue
			}
			rep.countCase(key, true)
			dist["overlapping-retrievals"]++
			if why != "" {
				rep.addHolds("C16", Finding{Case: map[string]any{"overlap": oc}, Kind: "holds",
					Detail: "a retrieval depends on another retrieval running on the same Statement at the same time: " + why})
			}
		}
		for i := 0; i < *n && hangCount < maxHangs; i++ {
			process(genL5(r.Fork()))
		}
		for i := 0; i < *conc && hangCount < maxHangs; i++ {
			cr := r.Fork()
			threads := 2 + cr.Intn(5)
			per := 5 + cr.Intn(20)
			if i%4 == 3 {
				threads = 0 // eviction stress
			}
			var obs *l5ConcObs
			key := fmt.Sprint("conc", *seed, i)
			if withWatchdog(90*time.Second, func() { obs = runL5Conc(cr, threads, per) }) {
				rep.countCase(key, true)
				rep.addCrash(Finding{Case: map[string]any{"concurrent": map[string]any{"threads": threads, "perThread": per, "index": i}}, Kind: "crash",
					Detail: "the concurrent run did not finish within 90 s (deadlock)"})
				continue
			}
			rep.countCase(key, obs.Evictions > 1)
			dist["concurrent-runs"]++
			dist["concurrent-calls"] += obs.Calls
			dist["concurrent-driver-prepares"] += obs.Evictions
			caseJSON := map[string]any{"concurrent": map[string]any{"threads": threads, "perThread": per, "index": i}}
			if obs.Panic != "" {
				rep.addCrash(Finding{Case: caseJSON, Kind: "crash", Detail: "panic: " + obs.Panic})
			}
			resp, err := cl.Call(map[string]any{"k": "rt", "sub": "l5c", "obs": obs})
			if err != nil {
				fatalf("driver: %v", err)
			}
			holds := map[string]bool{"C09": getBool(resp, "c09"), "C10": getBool(resp, "c10"), "C11": getBool(resp, "c11"), "C12": getBool(resp, "c12"), "C16": getBool(resp, "c16")}
			for p, ok := range holds {
				if !ok {
					obs.Execs = nil
					rep.addHolds(p, Finding{Case: caseJSON, Kind: "holds", Detail: fmt.Sprint("invariant false on the implementation's driver log: ", resp["why"]),
						Holds: holds, Impl: obs})
				}
			}
		}
	}
	rep.Distribution["cases"] = dist
	if *out != "" {
		if err := rep.write(*out); err != nil {
			fatalf("write report: %v", err)
		}
	} else {
		b, _ := json.MarshalIndent(rep, "", " ")
		fmt.Println(string(b))
	}
}
