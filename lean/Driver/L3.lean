/-
  Driver/L3: JSON glue for the scan layer.
-/
import Lean.Data.Json
import SqlairModel.Scan
import SqlairModel.Spec.L3
import Driver.Json
import Driver.L2

open Lean Sqlair

namespace Driver

def formOf : String → DestForm
  | "nilArg" => .nilArg | "nilPtr" => .nilPtr | "nilMap" => .nilMap | "ptrNilMap" => .ptrNilMap
  | "ptrStruct" => .ptrStruct | "mapVal" => .mapVal | "ptrMap" => .ptrMap | "structVal" => .structVal
  | "ptrOther" => .ptrOther | _ => .other

def optStr (j : Json) : Option String := j.getStr?.toOption

def parseDest (j : Json) : Except String Dest := do
  let fields ← (optList j "fields").toList.mapM fun e => do
    match e with
    | .arr #[p, v] =>
      let path := match p with | .arr a => a.toList.filterMap (fun x => x.getNat?.toOption) | _ => []
      pure (path, optStr v)
    | _ => throw "bad dest field"
  let keys ← (optList j "keys").toList.mapM fun e => do
    match e with
    | .arr #[k, v] =>
      match Bytes.ofHex ((optStr k).getD "") with
      | some kb => pure (kb, (optStr v).getD "")
      | none => throw "bad key hex"
    | _ => throw "bad dest key"
  pure { form := formOf ((getStr j "form").toOption.getD "other"), tid := (optNat j "tid").getD 0, fields := fields, keys := keys }

def destJson (d : Dest) : Json :=
  Json.mkObj [("tid", (d.tid : Json)),
    ("fields", Json.arr (d.fields.map fun (p, v) =>
      Json.arr #[Json.arr (p.map fun (n : Nat) => (n : Json)).toArray, match v with | some s => Json.str s | none => Json.null]).toArray),
    ("keys", Json.arr (d.keys.map fun (k, v) => Json.arr #[Json.str k.toHex, Json.str v]).toArray)]

-- `destEq` / `destsEq` / `preScanErr` / `holdsC06obs` are `SqlairModel/Spec/L3.lean`; soundness:
-- `holdsC06obs_model` (`SqlairProofs/Props/L3Sound.lean`).

def outputsOf (j : Json) : Except String (TypeTable × Except String (List Loc)) := do
  let segs ← (← getArr j "segs").toList.mapM parseOSeg
  let tt ← (← getArr j "tt").mapM parseTypeDesc
  let samples := (optList j "samples").toList.map fun s => s.getNat?.toOption
  let C := mkCls (← parseCls j)
  -- the arguments of the statement's inputs, if it has any (value trees as in layer 2)
  let args ← (optList j "args").toList.mapM parseGoVal
  let m := runModel C tt segs samples args
  pure (tt, match m.prep, m.bind with
    | .error e, _ => .error ("prepare:" ++ e)
    | _, .error e => .error ("bind:" ++ e)
    | _, .ok pq => .ok pq.outputs)

def handleL3Prep (j : Json) : Except String Json := do
  let (tt, outs) ← outputsOf j
  match outs with
  | .error e => pure (Json.mkObj [("ok", Json.bool false), ("err", Json.str e)])
  | .ok ls =>
    pure (Json.mkObj [("ok", Json.bool true), ("outputs", Json.arr (ls.map fun l =>
      match l with
      | .field tid _ f =>
        let fty := fieldTypeOf tt tid f.index true
        let (cat, elem) : String × Nat := match fieldCat tt fty with
          | .proxy => ("proxy", fty) | .directPtr e => ("ptr", e) | .directScanner => ("scanner", fty)
        Json.mkObj [("k", "field"), ("tid", (tid : Json)), ("fty", (fty : Json)), ("cat", Json.str cat), ("elem", (elem : Json))]
      | .mapKey tid _ key => Json.mkObj [("k", "key"), ("tid", (tid : Json)), ("key", Json.str key.toHex), ("elem", ((tt.get tid).elem : Json))]
      | .slice tid _ => Json.mkObj [("k", "slice"), ("tid", (tid : Json))]).toArray)])

def handleL3 (j : Json) : Except String Json := do
  let (tt, outs) ← outputsOf j
  match outs with
  | .error e => pure (Json.mkObj [("agree", Json.bool false), ("diff", Json.str ("model cannot prepare: " ++ e))])
  | .ok outputs =>
    let cols ← (optList j "cols").toList.mapM fun c => do
      match Bytes.ofHex ((optStr c).getD "") with
      | some b => pure b
      | none => throw "bad col hex"
    let row : List DV := (optList j "row").toList.map optStr
    let dests ← (optList j "dests").toList.mapM parseDest
    let conv : List (DV × Nat × Option String) := (optList j "conv").toList.filterMap fun e =>
      match e with
      | .arr #[v, t, r] => some (optStr v, (t.getNat?.toOption).getD 0, optStr r)
      | _ => none
    let zero : List (Nat × String) := (optList j "zero").toList.filterMap fun e =>
      match e with
      | .arr #[t, z] => some ((t.getNat?.toOption).getD 0, (optStr z).getD "")
      | _ => none
    let E : ScanEnv :=
      { conv := fun v t => match conv.find? (fun (v', t', _) => v' == v && t' == t) with
          | some (_, _, r) => r
          | none => none
        zeroText := fun t => ((zero.find? (·.1 == t)).map (·.2)).getD "?" }
    let (mdests, merr) := scanGet E tt outputs cols row dests
    let oj ← j.getObjVal? "obs"
    let oerr := (getBool oj "err").toOption.getD false
    let odests ← (optList oj "dests").toList.mapM parseDest
    let errAgree := merr.isSome == oerr
    let destsAgree := destsEq mdests odests
    -- C06 on the observation (Spec/L3): agreement, and an error raised before the scan
    -- (missing column, unused destination, invalid argument) leaves every destination untouched
    let c06 := holdsC06obs dests (mdests, merr) oerr odests
    pure (Json.mkObj
      [("agree", Json.bool (errAgree && destsAgree)),
       ("affects", Json.arr #[Json.str "C06"]),
       ("diff", Json.str (if !errAgree then s!"error: model {merr} impl {oerr}" else if !destsAgree then "destinations differ" else "")),
       ("c06", Json.bool c06),
       ("model", Json.mkObj [("err", match merr with | some e => Json.str e | none => Json.null),
          ("dests", Json.arr (mdests.map destJson).toArray)])])

end Driver
