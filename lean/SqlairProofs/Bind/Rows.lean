/-
  Bind/Rows: the tuples and parameters emitted by `addInsert`, as functions of the bound
  columns; the numbering lemmas (bounds, placeholder/parameter correspondence, no
  duplicates) of an INSERT expansion.
-/
import SqlairProofs.Bind.Insert
namespace Sqlair

/-- the tuples emitted by `addInsert` (specification) -/
def insRows (bcs : List BCol) (numRows : Nat) : List (List Cell) :=
  (List.range numRows).map fun r => (keptCols bcs).map (·.cellAt r)

/-- the parameters emitted by `addInsert`, in driver order (specification) -/
def insParams (bcs : List BCol) (numRows : Nat) : List (Nat × String) :=
  (List.range numRows).flatMap fun r => (keptCols bcs).filterMap (·.paramAt r)

def insNames (bcs : List BCol) : List Bytes := (keptCols bcs).map (·.column)

theorem addInsert_spec {qb qb' : QB} {bcs : List BCol} {numRows : Nat}
    (h : addInsert qb bcs numRows = .ok qb') :
    qb' = { qb with params := qb.params ++ insParams bcs numRows,
                    pieces := qb.pieces ++ [.insert (insNames bcs) (insRows bcs numRows)] } := by
  unfold addInsert at h
  split at h
  · cases h
  · rename_i rows ps hr
    obtain ⟨rfl, rfl⟩ := insertRows_spec _ _ _ hr
    cases h
    rfl

theorem mem_keptCols {bcs : List BCol} {bc : BCol} : bc ∈ keptCols bcs ↔ bc ∈ bcs ∧ bc.om = false := by
  simp [keptCols]

theorem Cell.mem_phs {c : Cell} {n : Nat} : n ∈ c.phs ↔ c = .ph n := by
  cases c <;> simp [Cell.phs, eq_comm]

theorem mem_phs_insRows {bcs : List BCol} {numRows n : Nat} {names : List Bytes} :
    n ∈ (Piece.insert names (insRows bcs numRows)).phs ↔
      ∃ r, r < numRows ∧ ∃ bc ∈ bcs, bc.om = false ∧ bc.cellAt r = .ph n := by
  simp only [Piece.phs, insRows, List.mem_flatMap, List.mem_map, List.mem_range, Cell.mem_phs]
  constructor
  · rintro ⟨_, ⟨r, hr, rfl⟩, _, hc, rfl⟩
    rw [List.mem_map] at hc
    obtain ⟨bc, hbc, hcell⟩ := hc
    rw [mem_keptCols] at hbc
    exact ⟨r, hr, bc, hbc.1, hbc.2, hcell⟩
  · rintro ⟨r, hr, bc, hbc, hom, hc⟩
    exact ⟨_, ⟨r, hr, rfl⟩, _, List.mem_map.2 ⟨bc, mem_keptCols.2 ⟨hbc, hom⟩, hc⟩, rfl⟩

theorem mem_insParams {bcs : List BCol} {numRows : Nat} {p : Nat × String} :
    p ∈ insParams bcs numRows ↔
      ∃ r, r < numRows ∧ ∃ bc ∈ bcs, bc.om = false ∧ bc.paramAt r = some p := by
  simp only [insParams, List.mem_flatMap, List.mem_filterMap, List.mem_range, mem_keptCols]
  constructor
  · rintro ⟨r, hr, bc, ⟨hbc, hom⟩, hp⟩; exact ⟨r, hr, bc, hbc, hom, hp⟩
  · rintro ⟨r, hr, bc, hbc, hom, hp⟩; exact ⟨r, hr, bc, ⟨hbc, hom⟩, hp⟩

/-! per-column facts -/

theorem BCol.cellAt_ph {bc : BCol} {r n : Nat} (h : bc.cellAt r = .ph n) :
    (bc.vals.length = 1 ∧ n = bc.first) ∨ (2 ≤ bc.vals.length ∧ n = bc.first + r) := by
  unfold BCol.cellAt at h
  split at h
  · cases h
  · rename_i hv; cases h; simp [hv]
  · rename_i h1 h2
    cases h
    right
    match hv : bc.vals with
    | [] => exact absurd hv h1
    | [v] => exact absurd hv (h2 v)
    | _ :: _ :: _ => simp

theorem BCol.paramAt_some {bc : BCol} {r n : Nat} {v : String} (h : bc.paramAt r = some (n, v)) :
    (bc.vals.length = 1 ∧ r = 0 ∧ n = bc.first ∧ bc.vals[0]? = some v) ∨
    (2 ≤ bc.vals.length ∧ r < bc.vals.length ∧ n = bc.first + r ∧ bc.vals[r]? = some v) := by
  unfold BCol.paramAt at h
  split at h
  · cases h
  · rename_i hv
    split at h
    · rename_i hr; cases h; simp at hr; simp [hv, hr]
    · cases h
  · rename_i h1 h2
    right
    match hv : bc.vals with
    | [] => exact absurd hv h1
    | [v] => exact absurd hv (h2 v)
    | a :: b :: rest =>
      obtain ⟨w, hw, heq⟩ := Option.map_eq_some_iff.1 h
      cases heq
      have hlt : r < bc.vals.length := by
        rcases Nat.lt_or_ge r bc.vals.length with h | h
        · exact h
        · rw [List.getElem?_eq_none h] at hw; cases hw
      rw [← hv]
      refine ⟨by simp [hv], hlt, rfl, hw⟩

theorem BCol.cellAt_single {bc : BCol} {r : Nat} (h : bc.vals.length = 1) : bc.cellAt r = .ph bc.first := by
  unfold BCol.cellAt
  match hv : bc.vals with
  | [] => simp [hv] at h
  | [v] => rfl
  | _ :: _ :: _ => simp [hv] at h

theorem BCol.paramAt_single {bc : BCol} (h : bc.vals.length = 1) :
    ∃ v, bc.vals = [v] ∧ bc.paramAt 0 = some (bc.first, v) := by
  unfold BCol.paramAt
  match hv : bc.vals with
  | [] => simp [hv] at h
  | [v] => exact ⟨v, rfl, rfl⟩
  | _ :: _ :: _ => simp [hv] at h

theorem BCol.paramAt_single_ne {bc : BCol} {r : Nat} (h : bc.vals.length = 1) (hr : r ≠ 0) :
    bc.paramAt r = none := by
  unfold BCol.paramAt
  match hv : bc.vals with
  | [] => simp [hv] at h
  | [v] => simp [hr]
  | _ :: _ :: _ => simp [hv] at h

theorem BCol.cellAt_multi {bc : BCol} {r : Nat} (h : 2 ≤ bc.vals.length) : bc.cellAt r = .ph (bc.first + r) := by
  unfold BCol.cellAt
  match hv : bc.vals with
  | [] => simp [hv] at h
  | [v] => simp [hv] at h
  | _ :: _ :: _ => rfl

theorem BCol.paramAt_multi {bc : BCol} {r : Nat} (h : 2 ≤ bc.vals.length) (hr : r < bc.vals.length) :
    ∃ v, bc.vals[r]? = some v ∧ bc.paramAt r = some (bc.first + r, v) := by
  refine ⟨bc.vals[r], List.getElem?_eq_getElem hr, ?_⟩
  unfold BCol.paramAt
  split
  · rename_i hv; simp [hv] at h
  · rename_i hv; simp [hv] at h
  · simp [List.getElem?_eq_getElem hr]

theorem BCol.cellAt_lit {bc : BCol} {r : Nat} (h : bc.vals = []) : bc.cellAt r = .lit bc.literal ∧ bc.paramAt r = none := by
  simp [BCol.cellAt, BCol.paramAt, h]



theorem bcsEnd_cons (c : Nat) (bc : BCol) (rest : List BCol) :
    bcsEnd c (bc :: rest) = bcsEnd (c + bc.width) rest := by
  simp [bcsEnd]; omega

theorem le_bcsEnd (c : Nat) (bcs : List BCol) : c ≤ bcsEnd c bcs := by simp [bcsEnd]

/-- every column that reserves numbers owns a range inside `[c0, bcsEnd c0 bcs)` -/
theorem BChain.ranges : ∀ {bcs : List BCol} {c0 : Nat}, BChain c0 bcs →
    ∀ bc ∈ bcs, bc.width ≠ 0 → c0 ≤ bc.first ∧ bc.first + bc.width ≤ bcsEnd c0 bcs := by
  intro bcs
  induction bcs with
  | nil => intro c0 _ bc hbc; cases hbc
  | cons b rest ih =>
    intro c0 h bc hbc hw
    obtain ⟨h1, h2⟩ := h
    rw [bcsEnd_cons]
    rcases List.mem_cons.1 hbc with rfl | hbc
    · rw [h1 hw]; exact ⟨Nat.le_refl _, le_bcsEnd _ _⟩
    · have := ih h2 bc hbc hw; omega

/-- the ranges are disjoint and increasing in column order -/
theorem BChain.pairwise : ∀ {bcs : List BCol} {c0 : Nat}, BChain c0 bcs →
    bcs.Pairwise (fun a b => a.width ≠ 0 → b.width ≠ 0 → a.first + a.width ≤ b.first) := by
  intro bcs
  induction bcs with
  | nil => intro _ _; exact List.Pairwise.nil
  | cons b rest ih =>
    intro c0 h
    obtain ⟨h1, h2⟩ := h
    refine List.Pairwise.cons ?_ (ih h2)
    intro b' hb' hw hw'
    have := (BChain.ranges h2 b' hb' hw').1
    rw [h1 hw]; exact this

theorem pairwise_mem_cases {α : Type} {R : α → α → Prop} {l : List α} (h : l.Pairwise R)
    {a b : α} (ha : a ∈ l) (hb : b ∈ l) : a = b ∨ R a b ∨ R b a := by
  induction h with
  | nil => cases ha
  | cons hhd _ ih =>
    rcases List.mem_cons.1 ha with ha' | ha' <;> rcases List.mem_cons.1 hb with hb' | hb'
    · exact Or.inl (ha'.trans hb'.symm)
    · exact Or.inr (Or.inl (ha' ▸ hhd _ hb'))
    · exact Or.inr (Or.inr (hb' ▸ hhd _ ha'))
    · exact ih ha' hb'

/-- the shape of the bound columns of a successful `bindCols` -/
structure BColsOK (c0 : Nat) (bcs : List BCol) (numRows : Nat) : Prop where
  chain : BChain c0 bcs
  shape : ∀ bc ∈ bcs, bc.om = false → bc.vals.length ≤ 1 ∨ bc.vals.length = numRows

theorem BCol.width_of_not_om {bc : BCol} (h : bc.om = false) : bc.width = bc.vals.length := by
  simp [BCol.width, h]

/-- a placeholder of the insert lies in the range reserved by `bindCols` -/
theorem insert_phs_bounds {c0 numRows : Nat} {bcs : List BCol} (ok : BColsOK c0 bcs numRows)
    {names : List Bytes} {n : Nat} (hn : n ∈ (Piece.insert names (insRows bcs numRows)).phs) :
    c0 ≤ n ∧ n < bcsEnd c0 bcs := by
  obtain ⟨r, hr, bc, hbc, hom, hc⟩ := mem_phs_insRows.1 hn
  have hw := BCol.width_of_not_om hom
  rcases BCol.cellAt_ph hc with ⟨h1, rfl⟩ | ⟨h2, rfl⟩
  · have := ok.chain.ranges bc hbc (by omega); omega
  · have := ok.chain.ranges bc hbc (by omega)
    rcases ok.shape bc hbc hom with h | h <;> omega

/-- placeholders and parameters of an insert carry the same numbers -/
theorem insert_phs_iff_params {c0 numRows : Nat} {bcs : List BCol} (ok : BColsOK c0 bcs numRows)
    {names : List Bytes} (n : Nat) :
    n ∈ (Piece.insert names (insRows bcs numRows)).phs ↔ n ∈ (insParams bcs numRows).map (·.1) := by
  rw [mem_phs_insRows, List.mem_map]
  constructor
  · rintro ⟨r, hr, bc, hbc, hom, hc⟩
    rcases BCol.cellAt_ph hc with ⟨h1, rfl⟩ | ⟨h2, rfl⟩
    · obtain ⟨v, _, hp⟩ := BCol.paramAt_single h1
      exact ⟨_, mem_insParams.2 ⟨0, by omega, bc, hbc, hom, hp⟩, rfl⟩
    · have hlen : bc.vals.length = numRows := by
        rcases ok.shape bc hbc hom with h | h <;> omega
      obtain ⟨v, _, hp⟩ := BCol.paramAt_multi h2 (by omega : r < bc.vals.length)
      exact ⟨_, mem_insParams.2 ⟨r, hr, bc, hbc, hom, hp⟩, rfl⟩
  · rintro ⟨⟨n', v⟩, hp, rfl⟩
    obtain ⟨r, hr, bc, hbc, hom, hp⟩ := mem_insParams.1 hp
    rcases BCol.paramAt_some hp with ⟨h1, rfl, rfl, _⟩ | ⟨h2, _, rfl, _⟩
    · exact ⟨0, hr, bc, hbc, hom, BCol.cellAt_single h1⟩
    · exact ⟨r, hr, bc, hbc, hom, BCol.cellAt_multi h2⟩

/-- a parameter number of row `r` from column `bc` lies in the column's range -/
theorem BCol.paramAt_range {bc : BCol} {r n : Nat} {v : String} (hom : bc.om = false)
    (h : bc.paramAt r = some (n, v)) : bc.width ≠ 0 ∧ bc.first ≤ n ∧ n < bc.first + bc.width := by
  rw [BCol.width_of_not_om hom]
  rcases BCol.paramAt_some h with ⟨h1, _, rfl, _⟩ | ⟨h2, h3, rfl, _⟩ <;> omega

/-- no duplicate argument names within one insert -/
theorem insParams_nodup {c0 numRows : Nat} {bcs : List BCol} (ok : BColsOK c0 bcs numRows) :
    ((insParams bcs numRows).map (·.1)).Nodup := by
  have hpw := ok.chain.pairwise
  unfold insParams
  rw [List.map_flatMap]
  unfold List.Nodup
  rw [List.pairwise_flatMap]
  constructor
  · intro r _
    rw [List.map_filterMap, List.pairwise_filterMap]
    have hk : (keptCols bcs).Pairwise (fun a b => a.width ≠ 0 → b.width ≠ 0 → a.first + a.width ≤ b.first) :=
      hpw.filter _
    refine List.Pairwise.imp_of_mem ?_ hk
    intro a b ha hb hab x hx y hy
    simp only [Option.map_eq_some_iff] at hx hy
    obtain ⟨⟨n1, v1⟩, hx, rfl⟩ := hx
    obtain ⟨⟨n2, v2⟩, hy, rfl⟩ := hy
    have h1 := BCol.paramAt_range (mem_keptCols.1 ha).2 hx
    have h2 := BCol.paramAt_range (mem_keptCols.1 hb).2 hy
    have := hab h1.1 h2.1
    simp only; omega
  · refine List.Pairwise.imp ?_ List.pairwise_lt_range
    intro r r' hrr x hx y hy
    simp only [List.mem_map, List.mem_filterMap] at hx hy
    obtain ⟨⟨n1, v1⟩, ⟨a, ha, hx⟩, rfl⟩ := hx
    obtain ⟨⟨n2, v2⟩, ⟨b, hb, hy⟩, rfl⟩ := hy
    rw [mem_keptCols] at ha hb
    have h1 := BCol.paramAt_range ha.2 hx
    have h2 := BCol.paramAt_range hb.2 hy
    simp only
    rcases pairwise_mem_cases hpw ha.1 hb.1 with rfl | h | h
    · rcases BCol.paramAt_some hx with ⟨e1, rfl, rfl, _⟩ | ⟨e1, _, rfl, _⟩ <;>
        rcases BCol.paramAt_some hy with ⟨e2, rfl, rfl, _⟩ | ⟨e2, _, rfl, _⟩ <;> omega
    · have := h h1.1 h2.1; omega
    · have := h h2.1 h1.1; omega


/-- every number of the reserved range belongs to the range of a column -/
theorem BChain.cover : ∀ {bcs : List BCol} {c0 : Nat}, BChain c0 bcs → ∀ n, c0 ≤ n → n < bcsEnd c0 bcs →
    ∃ bc ∈ bcs, bc.width ≠ 0 ∧ bc.first ≤ n ∧ n < bc.first + bc.width := by
  intro bcs
  induction bcs with
  | nil => intro c0 _ n h1 h2; simp [bcsEnd] at h2; omega
  | cons b rest ih =>
    intro c0 h n h1 h2
    obtain ⟨hb, hrest⟩ := h
    rw [bcsEnd_cons] at h2
    rcases Nat.lt_or_ge n (c0 + b.width) with hlt | hge
    · have hw : b.width ≠ 0 := by omega
      exact ⟨b, List.mem_cons_self, hw, by rw [hb hw]; exact h1, by rw [hb hw]; exact hlt⟩
    · obtain ⟨bc, hbc, h⟩ := ih hrest n hge h2
      exact ⟨bc, List.mem_cons_of_mem _ hbc, h⟩

/-- every reserved number occurs as a placeholder of the insert -/
theorem insert_phs_cover {c0 numRows : Nat} {bcs : List BCol} (ok : BColsOK c0 bcs numRows)
    (hpos : 1 ≤ numRows) {names : List Bytes} {n : Nat} (h1 : c0 ≤ n) (h2 : n < bcsEnd c0 bcs) :
    n ∈ (Piece.insert names (insRows bcs numRows)).phs := by
  obtain ⟨bc, hbc, hw, hlo, hhi⟩ := ok.chain.cover n h1 h2
  have hom : bc.om = false := by
    cases h : bc.om
    · rfl
    · simp [BCol.width, h] at hw
  rw [BCol.width_of_not_om hom] at hw hhi
  rw [mem_phs_insRows]
  rcases Nat.lt_or_ge bc.vals.length 2 with hl | hl
  · have hl1 : bc.vals.length = 1 := by omega
    refine ⟨0, by omega, bc, hbc, hom, ?_⟩
    rw [BCol.cellAt_single hl1]
    congr 1; omega
  · have hlen : bc.vals.length = numRows := by
      rcases ok.shape bc hbc hom with h | h <;> omega
    refine ⟨n - bc.first, by omega, bc, hbc, hom, ?_⟩
    rw [BCol.cellAt_multi hl]
    congr 1; omega


end Sqlair
