import Lean.Data.Json
open Lean
namespace Driver
def handleRt (_ : Json) : Except String Json := throw "rt not built"
end Driver
