/-
  Characterisation of `scanRow` (model of `sql.Rows.Scan`) and of `scanGet` on success:
  the final store is the fold of the direct writes followed by the deferred (proxy) writes.
-/
import SqlairProofs.Scan.Args

namespace Sqlair

/-- the text a target receives for a driver value (`none` = conversion failure) -/
def Target.text (E : ScanEnv) : Target → DV → Option String
  | .skip, _ => some ""
  | .key _ _ elem, v => E.conv v elem
  | .field _ _ fty .proxy, none => some (E.zeroText fty)
  | .field _ _ fty .proxy, some x => E.conv (some x) fty
  | .field _ _ _ (.directPtr _), none => some E.nilText
  | .field _ _ _ (.directPtr elem), some x => E.conv (some x) elem
  | .field _ _ fty .directScanner, v => E.conv v fty

/-- direct targets are written during `Rows.Scan`, the others through a proxy afterwards -/
def Target.isDirect : Target → Bool
  | .field _ _ _ .proxy => false
  | .field .. => true
  | _ => false

def Target.write : Target → String → Option Pending
  | .skip, _ => none
  | .field di idx _ _, s => some (.field di idx s)
  | .key di k _, s => some (.key di k s)

/-- the write caused by a (target, value) pair, whatever its kind -/
def awrite (E : ScanEnv) (tv : Target × DV) : Option Pending := (tv.1.text E tv.2).bind tv.1.write
/-- … if it is a direct write -/
def dwrite (E : ScanEnv) (tv : Target × DV) : Option Pending := if tv.1.isDirect then awrite E tv else none
/-- … if it is a deferred write -/
def pwrite (E : ScanEnv) (tv : Target × DV) : Option Pending := if tv.1.isDirect then none else awrite E tv

theorem Target.write_loc {t : Target} {s : String} {w : Pending} (h : t.write s = some w) :
    t.loc = some w.loc ∧ w.val = s := by
  cases t <;> simp only [Target.write, Option.some.injEq, reduceCtorEq] at h <;> subst h <;> exact ⟨rfl, rfl⟩

theorem awrite_loc {E : ScanEnv} {tv : Target × DV} {w : Pending} (h : awrite E tv = some w) :
    tv.1.loc = some w.loc ∧ tv.1.text E tv.2 = some w.val := by
  unfold awrite at h
  cases ht : tv.1.text E tv.2 with
  | none => rw [ht] at h; cases h
  | some s =>
    rw [ht] at h
    obtain ⟨h1, h2⟩ := Target.write_loc h
    exact ⟨h1, by rw [h2]⟩

theorem dwrite_some {E : ScanEnv} {tv : Target × DV} {w : Pending} (h : dwrite E tv = some w) :
    tv.1.isDirect = true ∧ awrite E tv = some w := by
  unfold dwrite at h
  split at h
  · exact ⟨by assumption, h⟩
  · cases h

theorem pwrite_some {E : ScanEnv} {tv : Target × DV} {w : Pending} (h : pwrite E tv = some w) :
    tv.1.isDirect = false ∧ awrite E tv = some w := by
  unfold pwrite at h
  split at h
  · cases h
  · rename_i hn; exact ⟨Bool.eq_false_iff.mpr hn, h⟩

/-- a direct write is a field write -/
theorem dwrite_isField {E : ScanEnv} {tv : Target × DV} {w : Pending} (h : dwrite E tv = some w) :
    w.isField = true := by
  obtain ⟨hd, ha⟩ := dwrite_some h
  obtain ⟨t, v⟩ := tv
  unfold awrite at ha
  cases t with
  | skip => cases hd
  | key => cases hd
  | field di idx fty cat =>
    cases htx : (Target.field di idx fty cat).text E v with
    | none => simp only [htx, Option.bind_none, reduceCtorEq] at ha
    | some s =>
      simp only [htx, Option.bind_some, Target.write, Option.some.injEq] at ha
      subst ha; rfl

/-! ### one step of scanRow -/

theorem scanRow_step_ok (E : ScanEnv) (t : Target) (ts : List Target) (v : DV) (vs : List DV) (ds : List Dest)
    (ps : List Pending) {s : String} (h : t.text E v = some s) :
    scanRow E (t :: ts) (v :: vs) ds ps =
      scanRow E ts vs (applyWrites ds (dwrite E (t, v)).toList) (ps ++ (pwrite E (t, v)).toList) := by
  cases t with
  | skip => simp [scanRow, dwrite, pwrite, awrite, Target.isDirect, Target.text, Target.write]
  | key di k elem =>
    simp only [Target.text] at h
    simp [scanRow, dwrite, pwrite, awrite, Target.isDirect, Target.text, Target.write, h]
  | field di idx fty cat =>
    cases cat with
    | proxy =>
      cases v with
      | none =>
        simp [scanRow, dwrite, pwrite, awrite, Target.isDirect, Target.text, Target.write]
      | some x =>
        simp only [Target.text] at h
        simp [scanRow, dwrite, pwrite, awrite, Target.isDirect, Target.text, Target.write, h]
    | directPtr elem =>
      cases v with
      | none =>
        simp [scanRow, dwrite, pwrite, awrite, Target.isDirect, Target.text, Target.write, applyWrites,
          Pending.apply]
      | some x =>
        simp only [Target.text] at h
        simp [scanRow, dwrite, pwrite, awrite, Target.isDirect, Target.text, Target.write, h, applyWrites,
          Pending.apply]
    | directScanner =>
      simp only [Target.text] at h
      simp [scanRow, dwrite, pwrite, awrite, Target.isDirect, Target.text, Target.write, h, applyWrites,
        Pending.apply]

theorem scanRow_step_err (E : ScanEnv) (t : Target) (ts : List Target) (v : DV) (vs : List DV) (ds : List Dest)
    (ps : List Pending) (h : t.text E v = none) :
    (scanRow E (t :: ts) (v :: vs) ds ps).2 = .error "conversion" := by
  cases t with
  | skip => simp [Target.text] at h
  | key di k elem =>
    simp only [Target.text] at h
    simp [scanRow, h]
  | field di idx fty cat =>
    cases cat with
    | proxy =>
      cases v with
      | none => simp [Target.text] at h
      | some x =>
        simp only [Target.text] at h
        simp [scanRow, h]
    | directPtr elem =>
      cases v with
      | none => simp [Target.text] at h
      | some x =>
        simp only [Target.text] at h
        simp [scanRow, h]
    | directScanner =>
      simp only [Target.text] at h
      simp [scanRow, h]

/-! ### scanRow -/

theorem scanRow_ok_iff (E : ScanEnv) (ts : List Target) (vs : List DV) (ds : List Dest) (ps : List Pending)
    (ds' : List Dest) (ps' : List Pending) :
    scanRow E ts vs ds ps = (ds', .ok ps') ↔
      ts.length ≤ vs.length ∧ (∀ tv ∈ ts.zip vs, (tv.1.text E tv.2).isSome = true) ∧
      ds' = applyWrites ds ((ts.zip vs).filterMap (dwrite E)) ∧
      ps' = ps ++ (ts.zip vs).filterMap (pwrite E) := by
  induction ts generalizing vs ds ps with
  | nil =>
    constructor
    · intro h
      simp only [scanRow, Prod.mk.injEq, Except.ok.injEq] at h
      obtain ⟨rfl, rfl⟩ := h
      simp
    · rintro ⟨_, _, h1, h2⟩
      simp only [List.zip_nil_left, List.filterMap_nil, applyWrites_nil, List.append_nil] at h1 h2
      subst h1; subst h2
      simp [scanRow]
  | cons t ts ih =>
    cases vs with
    | nil =>
      constructor
      · intro h
        simp only [scanRow, Prod.mk.injEq, reduceCtorEq, and_false] at h
      · rintro ⟨h, _⟩
        simp only [List.length_cons, List.length_nil] at h
        omega
    | cons v vs =>
      cases htx : t.text E v with
      | none =>
        have := scanRow_step_err E t ts v vs ds ps htx
        constructor
        · intro h; rw [h] at this; cases this
        · rintro ⟨_, hall, _⟩
          have := hall (t, v) (by simp)
          simp [htx] at this
      | some s =>
        rw [scanRow_step_ok E t ts v vs ds ps htx, ih]
        simp only [List.length_cons, Nat.add_le_add_iff_right, List.zip_cons_cons, List.mem_cons,
          forall_eq_or_imp, htx, Option.isSome_some, true_and, List.filterMap_cons]
        cases hd : dwrite E (t, v) <;> cases hp : pwrite E (t, v) <;>
          simp [applyWrites, List.append_assoc]

/-! ### scanGet -/

theorem scanGet_ok_iff (E : ScanEnv) (tt : TypeTable) (outputs : List Loc) (cols : List Bytes) (row : List DV)
    (dests dests' : List Dest) :
    scanGet E tt outputs cols row dests = (dests', none) ↔
      ∃ ts, scanArgs tt outputs cols dests = .ok ts ∧ ts.length ≤ row.length ∧
        (∀ tv ∈ ts.zip row, (tv.1.text E tv.2).isSome = true) ∧
        dests' = applyWrites dests ((ts.zip row).filterMap (dwrite E) ++ (ts.zip row).filterMap (pwrite E)) := by
  unfold scanGet
  cases hsa : scanArgs tt outputs cols dests with
  | error e => simp
  | ok ts =>
    simp only [Except.ok.injEq, exists_eq_left']
    cases hsr : scanRow E ts row dests [] with
    | mk d1 r =>
      cases r with
      | error e =>
        simp only [Prod.mk.injEq, reduceCtorEq, and_false, false_iff]
        rintro ⟨h1, h2, _⟩
        have := (scanRow_ok_iff E ts row dests [] _ _).mpr ⟨h1, h2, rfl, rfl⟩
        rw [hsr] at this
        cases this
      | ok ps =>
        obtain ⟨h1, h2, h3, h4⟩ := (scanRow_ok_iff E ts row dests [] _ _).mp hsr
        simp only [List.nil_append] at h4
        subst h3; subst h4
        simp only [Prod.mk.injEq, and_true, applyWrites_append]
        constructor
        · intro e; exact ⟨h1, h2, e.symm⟩
        · rintro ⟨_, _, e⟩; exact e.symm

/-- the only errors of `Rows.Scan` -/
theorem scanRow_error_mem (E : ScanEnv) (ts : List Target) (vs : List DV) (ds : List Dest) (ps : List Pending)
    {e : String} (h : (scanRow E ts vs ds ps).2 = .error e) : e = "row-too-short" ∨ e = "conversion" := by
  induction ts generalizing vs ds ps with
  | nil => simp [scanRow] at h
  | cons t ts ih =>
    cases vs with
    | nil =>
      simp only [scanRow, Except.error.injEq] at h
      exact Or.inl h.symm
    | cons v vs =>
      cases htx : t.text E v with
      | none =>
        rw [scanRow_step_err E t ts v vs ds ps htx] at h
        simp only [Except.error.injEq] at h
        exact Or.inr h.symm
      | some s =>
        rw [scanRow_step_ok E t ts v vs ds ps htx] at h
        exact ih _ _ _ h

/-- `Get` returns an error either from `ScanArgs` (destinations untouched) or from `Rows.Scan` -/
theorem scanGet_error_cases (E : ScanEnv) (tt : TypeTable) (outputs : List Loc) (cols : List Bytes) (row : List DV)
    (dests dests' : List Dest) (e : String) (h : scanGet E tt outputs cols row dests = (dests', some e)) :
    (scanArgs tt outputs cols dests = .error e ∧ dests' = dests) ∨
    ((∃ ts, scanArgs tt outputs cols dests = .ok ts) ∧ (e = "row-too-short" ∨ e = "conversion")) := by
  unfold scanGet at h
  cases hsa : scanArgs tt outputs cols dests with
  | error e' =>
    rw [hsa] at h
    simp only [Prod.mk.injEq, Option.some.injEq] at h
    left; exact ⟨by rw [h.2], h.1.symm⟩
  | ok ts =>
    rw [hsa] at h
    simp only at h
    right
    refine ⟨⟨ts, rfl⟩, ?_⟩
    cases hsr : scanRow E ts row dests [] with
    | mk d1 r =>
      rw [hsr] at h
      cases r with
      | error e' =>
        simp only [Prod.mk.injEq, Option.some.injEq] at h
        apply scanRow_error_mem E ts row dests []
        rw [hsr, h.2]
      | ok ps => simp at h

end Sqlair
