/-
  Runtime proofs: `Query.GetAll` — the row loop never runs out of fuel and computes a
  simple recursive function of the fetch list; closed form of `queryGetAll`'s result.
-/
import SqlairProofs.Runtime.Protocol

namespace Sqlair.Rt

/-! ### more equations -/

theorem Rows.next_nil {r : Rows} (ho : r.closed = false) (hf : r.fetch = []) (w : World) :
    (r.next w).2.2 = false ∧ (r.next w).1.closed = true ∧
      (r.next w).1.lasterr = r.lasterr.or r.closeErr ∧ (r.next w).1.closeErr = r.closeErr := by
  simp [Rows.next, ho, hf, Rows.close_of_open]

theorem Rows.next_error {r : Rows} {e : Err} {rest : List (Except Err Row)}
    (ho : r.closed = false) (hf : r.fetch = .error e :: rest) (w : World) :
    (r.next w).2.2 = false ∧ (r.next w).1.closed = true ∧ (r.next w).1.lasterr = some e := by
  simp [Rows.next, ho, hf, Rows.close_of_open]

theorem Rows.next_ok {r : Rows} {row : Row} {rest : List (Except Err Row)}
    (ho : r.closed = false) (hf : r.fetch = .ok row :: rest) (w : World) :
    r.next w = ({ r with fetch := rest, cur := some row }, w.emit .next, true) := by
  simp [Rows.next, ho, hf]

/-- what `Close` returns for an iterator without stored error holding closed rows -/
theorem Iter.close_result_closed {it : Iter} {r : Rows} (he : it.err = none) (hr : it.rows = some r)
    (hc : r.closed = true) (w : World) : (it.close w).2.2 = r.lasterr := by
  simp [Iter.close_of_rows hr, he, Rows.close_of_closed hc]

theorem Iter.close_result_open {it : Iter} {r : Rows} (he : it.err = none) (hr : it.rows = some r)
    (ho : r.closed = false) (w : World) : (it.close w).2.2 = r.lasterr.or r.closeErr := by
  cases hl : r.lasterr <;> simp [Iter.close_of_rows hr, he, Rows.close_of_open ho, hl]

theorem Iter.get_valid_cur {it : Iter} {r : Rows} {row : Row} (he : it.err = none) (hs : it.started = true)
    (hr : it.rows = some r) (hl : r.lasterr = none) (ho : r.closed = false) (hc : r.cur = some row) :
    it.get .valid = if row.scanOK then .row row.id else .err (.wrapped .scan) := by
  cases hk : row.scanOK <;> simp [Iter.get, he, hs, hr, Rows.scan, hl, ho, hc, hk]

theorem Iter.get_invalid_started {it : Iter} {r : Rows} (he : it.err = none) (hs : it.started = true)
    (hr : it.rows = some r) : it.get .invalid = .err (.wrapped (.sqlair "scan-args")) := by
  simp [Iter.get, he, hs, hr]

/-- only an `Outcome` argument yields an outcome -/
theorem Iter.get_outcome_inv {it : Iter} {a : GetArgs} {x : Option Nat} (h : it.get a = .outcome x) :
    a = .outcome := by
  cases a
  case outcome => rfl
  all_goals (exfalso; revert h; unfold Iter.get; repeat' split) <;> simp_all

/-! ### unfolding the loop -/

theorem getAllLoop_done {it : Iter} {w : World} (h : (it.next w).2.2 = false) (f : Nat) (acc : List Nat) (dv : Bool) :
    getAllLoop (f + 1) it w acc dv = ((it.next w).1, (it.next w).2.1, acc, none) := by
  simp [getAllLoop, h]

theorem getAllLoop_row {it : Iter} {w : World} {dv : Bool} {id : Nat} (h : (it.next w).2.2 = true)
    (hg : (it.next w).1.get (if dv then .valid else .invalid) = .row id) (f : Nat) (acc : List Nat) :
    getAllLoop (f + 1) it w acc dv = getAllLoop f (it.next w).1 (it.next w).2.1 (acc ++ [id]) dv := by
  simp [getAllLoop, h, hg]

theorem getAllLoop_err {it : Iter} {w : World} {dv : Bool} {e : Err} (h : (it.next w).2.2 = true)
    (hg : (it.next w).1.get (if dv then .valid else .invalid) = .err e) (f : Nat) (acc : List Nat) :
    getAllLoop (f + 1) it w acc dv =
      (((it.next w).1.close (it.next w).2.1).1, ((it.next w).1.close (it.next w).2.1).2.1, acc, some e) := by
  simp [getAllLoop, h, hg]

/-- the loop on an iterator whose iteration is over -/
theorem getAllLoop_ended {it : Iter} (h : it.ended = true) (w : World) (f : Nat) (acc : List Nat) (dv : Bool) :
    getAllLoop (f + 1) it w acc dv = ({ it with started := true }, w, acc, none) := by
  rw [getAllLoop_done (by rw [Iter.next_of_ended h]), Iter.next_of_ended h]

/-! ### the loop as a function of the fetch list -/

/-- rows appended and error reported (by the loop, or else by the `Close` after it) by
    `GetAll` on rows with the given remaining fetch results -/
def loopRes (ce : Option Err) (dv : Bool) : List (Except Err Row) → List Nat → List Nat × Option Err
  | [], acc => (acc, ce)
  | .error e :: _, acc => (acc, some e)
  | .ok row :: rest, acc =>
    if dv then
      if row.scanOK then loopRes ce dv rest (acc ++ [row.id]) else (acc, some (.wrapped .scan))
    else (acc, some (.wrapped (.sqlair "scan-args")))

/-- With fuel for the remaining fetch results plus the final EOF, the loop computes
    `loopRes`, and ends either without error, or with a wrapped error and the iterator closed;
    in particular it never reports the out-of-fuel error. -/
theorem getAllLoop_spec (l : List (Except Err Row)) :
    ∀ (f : Nat) (it : Iter) (r : Rows) (w : World) (acc : List Nat) (dv : Bool),
      it.err = none → it.rows = some r → r.closed = false → r.lasterr = none → r.fetch = l →
      l.length + 1 ≤ f →
      (getAllLoop f it w acc dv).2.2.1 = (loopRes r.closeErr dv l acc).1 ∧
      (getAllLoop f it w acc dv).2.2.2.or
          ((getAllLoop f it w acc dv).1.close (getAllLoop f it w acc dv).2.1).2.2
        = (loopRes r.closeErr dv l acc).2 ∧
      ((getAllLoop f it w acc dv).2.2.2 = none ∨
        ∃ e, (getAllLoop f it w acc dv).2.2.2 = some (.wrapped e) ∧ (getAllLoop f it w acc dv).1.rows = none) := by
  induction l with
  | nil =>
    intro f it r w acc dv he hr ho hl hf hlen
    obtain ⟨f, rfl⟩ : ∃ f', f = f' + 1 := ⟨f - 1, by omega⟩
    obtain ⟨h1, h2, h3, h4⟩ := Rows.next_nil ho hf w
    have hn := Iter.next_of_rows he hr w
    have hb : (it.next w).2.2 = false := by rw [hn]; exact h1
    rw [getAllLoop_done hb]
    refine ⟨rfl, ?_, .inl rfl⟩
    simp only [Option.none_or, loopRes]
    rw [Iter.close_result_closed (r := (r.next w).1) (by simp [he]) (by rw [hn]) h2, h3, hl]
    simp
  | cons x rest ih =>
    intro f it r w acc dv he hr ho hl hf hlen
    obtain ⟨f, rfl⟩ : ∃ f', f = f' + 1 := ⟨f - 1, by omega⟩
    have hn := Iter.next_of_rows he hr w
    cases x with
    | error e =>
      obtain ⟨h1, h2, h3⟩ := Rows.next_error ho hf w
      have hb : (it.next w).2.2 = false := by rw [hn]; exact h1
      rw [getAllLoop_done hb]
      refine ⟨rfl, ?_, .inl rfl⟩
      simp only [Option.none_or, loopRes]
      rw [Iter.close_result_closed (r := (r.next w).1) (by simp [he]) (by rw [hn]) h2, h3]
    | ok row =>
      have hnx := Rows.next_ok ho hf w
      rw [hnx] at hn
      have hb : (it.next w).2.2 = true := by rw [hn]
      have hrows : (it.next w).1.rows = some { r with fetch := rest, cur := some row } := by rw [hn]
      have herr : (it.next w).1.err = none := by simp [he]
      cases dv with
      | false =>
        have hg : (it.next w).1.get (if false = true then .valid else .invalid)
            = .err (.wrapped (.sqlair "scan-args")) := by
          simpa using Iter.get_invalid_started herr (by simp) hrows
        rw [getAllLoop_err hb hg]
        simp [loopRes]
      | true =>
        have hg0 := Iter.get_valid_cur (it := (it.next w).1) (row := row) herr (by simp) hrows
          (by simpa using hl) (by simpa using ho) rfl
        cases hk : row.scanOK with
        | false =>
          have hg : (it.next w).1.get (if true = true then .valid else .invalid) = .err (.wrapped .scan) := by
            simpa [hk] using hg0
          rw [getAllLoop_err hb hg]
          simp [loopRes, hk]
        | true =>
          have hg : (it.next w).1.get (if true = true then .valid else .invalid) = .row row.id := by
            simpa [hk] using hg0
          rw [getAllLoop_row hb hg]
          have := ih f (it.next w).1 { r with fetch := rest, cur := some row } (it.next w).2.1 (acc ++ [row.id]) true
            herr hrows (by simpa using ho) (by simpa using hl) rfl (by simp at hlen; omega)
          simpa [loopRes, hk] using this

/-! ### `loopRes` -/

/-- the rows the driver delivers successfully -/
def okRows : List (Except Err Row) → List Row
  | [] => []
  | .ok r :: rest => r :: okRows rest
  | .error _ :: rest => okRows rest

theorem loopRes_acc_prefix (ce : Option Err) (dv : Bool) (l : List (Except Err Row)) (acc : List Nat) :
    ∃ t, (loopRes ce dv l acc).1 = acc ++ t := by
  induction l generalizing acc with
  | nil => exact ⟨[], by simp [loopRes]⟩
  | cons x rest ih =>
    cases x with
    | error e => exact ⟨[], by simp [loopRes]⟩
    | ok row =>
      simp only [loopRes]
      split
      · split
        · obtain ⟨t, ht⟩ := ih (acc ++ [row.id]); exact ⟨row.id :: t, by simp [ht]⟩
        · exact ⟨[], by simp⟩
      · exact ⟨[], by simp⟩

/-- no error at all: every fetch succeeded, every row converted, close reported nothing,
    and exactly the delivered rows were collected, in order -/
theorem loopRes_none {ce : Option Err} {dv : Bool} {l : List (Except Err Row)} {acc : List Nat}
    (h : (loopRes ce dv l acc).2 = none) :
    ce = none ∧ (∀ x ∈ l, ∃ row, x = .ok row ∧ row.scanOK = true) ∧ (l ≠ [] → dv = true) ∧
      (loopRes ce dv l acc).1 = acc ++ (okRows l).map (·.id) := by
  induction l generalizing acc with
  | nil => simpa [loopRes, okRows] using h
  | cons x rest ih =>
    cases x with
    | error e => simp [loopRes] at h
    | ok row =>
      cases dv with
      | false => simp [loopRes] at h
      | true =>
        cases hk : row.scanOK with
        | false => simp [loopRes, hk] at h
        | true =>
          simp only [loopRes, hk, if_true] at h ⊢
          obtain ⟨h1, h2, _, h4⟩ := ih h
          refine ⟨h1, ?_, by simp, by simp [h4, okRows]⟩
          intro x hx
          rcases List.mem_cons.1 hx with rfl | hx
          · exact ⟨row, rfl, hk⟩
          · exact h2 x hx

/-- converse: the all-good case succeeds -/
theorem loopRes_all_ok {dv : Bool} {rows : List Row} (acc : List Nat)
    (hs : ∀ r ∈ rows, r.scanOK = true) (hdv : rows ≠ [] → dv = true) :
    loopRes none dv (rows.map .ok) acc = (acc ++ rows.map (·.id), none) := by
  induction rows generalizing acc with
  | nil => simp [loopRes]
  | cons row rest ih =>
    have hdv' : dv = true := hdv (by simp)
    subst hdv'
    simp [loopRes, hs row (by simp), ih (acc ++ [row.id]) (fun r hr => hs r (by simp [hr])) (fun _ => rfl)]

/-- a driver fetch failure reached after rows that all convert is what is reported -/
theorem loopRes_fetch_error {ce : Option Err} {dv : Bool} {oks : List Row} {e : Err}
    {rest : List (Except Err Row)} (acc : List Nat)
    (hs : ∀ r ∈ oks, r.scanOK = true) (hdv : oks ≠ [] → dv = true) :
    (loopRes ce dv (oks.map .ok ++ .error e :: rest) acc).2 = some e := by
  induction oks generalizing acc with
  | nil => simp [loopRes]
  | cons row oks ih =>
    have hdv' : dv = true := hdv (by simp)
    subst hdv'
    simp only [List.map_cons, List.cons_append, loopRes, hs row (by simp), if_true]
    exact ih _ (fun r hr => hs r (by simp [hr])) (fun _ => rfl)

/-- a conversion failure is reported (as a wrapped scan error) -/
theorem loopRes_scan_error {ce : Option Err} {oks : List Row} {bad : Row}
    {rest : List (Except Err Row)} (acc : List Nat)
    (hs : ∀ r ∈ oks, r.scanOK = true) (hb : bad.scanOK = false) :
    (loopRes ce true (oks.map .ok ++ .ok bad :: rest) acc).2 = some (.wrapped .scan) := by
  induction oks generalizing acc with
  | nil => simp [loopRes, hb]
  | cons row oks ih =>
    simp only [List.map_cons, List.cons_append, loopRes, hs row (by simp), if_true]
    exact ih _ (fun r hr => hs r (by simp [hr]))

/-! ### closed form of `queryGetAll`'s result -/

theorem queryGetAll_reject {s : Script} {n : Nat} (h : (!s.hasOutputs && decide (n > 0)) = true)
    (dv : Bool) (w : World) :
    queryGetAll s n dv w = ({ err := some (.sqlair "outputs-not-referenced") }, w) := by
  simp only [queryGetAll, h, if_true]

section
variable (s : Script) (n : Nat) (dv : Bool) (w : World)

/-- the loop `queryGetAll` runs -/
abbrev gaLoop := getAllLoop (s.fetch.length + 2) (iterOpen s w).1 (iterOpen s w).2 [] dv
/-- the `Close` after the loop -/
abbrev gaClose := (gaLoop s dv w).1.close (gaLoop s dv w).2.1

theorem queryGetAll_loopErr {e : Err} (h : (!s.hasOutputs && decide (n > 0)) = false)
    (hl : (gaLoop s dv w).2.2.2 = some e) :
    queryGetAll s n dv w = ({ err := some e }, (gaLoop s dv w).2.1) := by
  simp only [queryGetAll, h]
  simp [hl]

theorem queryGetAll_closeErr {e : Err} (h : (!s.hasOutputs && decide (n > 0)) = false)
    (hl : (gaLoop s dv w).2.2.2 = none) (hc : (gaClose s dv w).2.2 = some e) :
    queryGetAll s n dv w = ({ err := some e }, (gaClose s dv w).2.1) := by
  simp only [queryGetAll, h]
  simp [hl, hc]

theorem queryGetAll_noErr (h : (!s.hasOutputs && decide (n > 0)) = false)
    (hl : (gaLoop s dv w).2.2.2 = none) (hc : (gaClose s dv w).2.2 = none) :
    queryGetAll s n dv w =
      (if ((gaLoop s dv w).2.2.1.isEmpty && s.hasOutputs) = true then { err := some .noRows }
        else { err := none, appended := (gaLoop s dv w).2.2.1 },
       (gaClose s dv w).2.1) := by
  simp only [queryGetAll, h]
  simp [hl, hc]
  split <;> simp_all
end

/-- closed form of `GetAll`'s result: a function of the script alone -/
def getAllSpec (s : Script) (n : Nat) (dv : Bool) : GetAllResult :=
  if !s.hasOutputs && decide (n > 0) then { err := some (.sqlair "outputs-not-referenced") } else
  match s.openErr with
  | some e => { err := some e }
  | none =>
    if s.hasOutputs then
      match (loopRes s.closeErr dv s.fetch []).2 with
      | some e => { err := some e }
      | none =>
        if (loopRes s.closeErr dv s.fetch []).1.isEmpty then { err := some .noRows }
        else { err := none, appended := (loopRes s.closeErr dv s.fetch []).1 }
    else { err := none }

theorem queryGetAll_fst (s : Script) (n : Nat) (dv : Bool) (w : World) :
    (queryGetAll s n dv w).1 = getAllSpec s n dv := by
  unfold getAllSpec
  cases hrej : (!s.hasOutputs && decide (n > 0))
  · simp only [Bool.false_eq_true, if_false]
    cases hoe : s.openErr with
    | some e =>
      -- the statement failed: the loop ends at once, Close reports the error
      have herr : (iterOpen s w).1.err = some e := by rw [iterOpen_err, hoe]
      have hend : (iterOpen s w).1.ended = true := by simp [Iter.ended, herr]
      have hloop : gaLoop s dv w = ({ (iterOpen s w).1 with started := true }, (iterOpen s w).2, [], none) :=
        getAllLoop_ended hend _ _ _ _
      have hc : (gaClose s dv w).2.2 = some e := by
        unfold gaClose; rw [hloop]; exact Iter.close_err_of_err (by simpa using herr) _
      rw [queryGetAll_closeErr s n dv w hrej (by rw [hloop]) hc]
    | none =>
      have herr : (iterOpen s w).1.err = none := by rw [iterOpen_err, hoe]
      cases hout : s.hasOutputs with
      | false =>
        have hrows : (iterOpen s w).1.rows = none := by
          rw [iterOpen_rows]; exact Script.openRows_of_not_opensRows (by simp [Script.opensRows, hout])
        have hend : (iterOpen s w).1.ended = true := by simp [Iter.ended, hrows]
        have hloop : gaLoop s dv w = ({ (iterOpen s w).1 with started := true }, (iterOpen s w).2, [], none) :=
          getAllLoop_ended hend _ _ _ _
        have hc : (gaClose s dv w).2.2 = none := by
          unfold gaClose; rw [hloop]
          rw [Iter.close_of_rows_none (by simpa using hrows)]; simpa using herr
        rw [queryGetAll_noErr s n dv w hrej (by rw [hloop]) hc]
        simp [hloop, hout]
      | true =>
        have hopens : s.opensRows = true := by simp [Script.opensRows, hout, Script.runsOK, hoe]
        have hrows := iterOpen_rows s w
        rw [Script.openRows_of_opensRows hopens] at hrows
        obtain ⟨h1, h2, h3⟩ := getAllLoop_spec s.fetch (s.fetch.length + 2) (iterOpen s w).1 _ (iterOpen s w).2 [] dv
          herr hrows rfl rfl rfl (by omega)
        simp only [if_true]
        cases hl : (gaLoop s dv w).2.2.2 with
        | some e =>
          rw [queryGetAll_loopErr s n dv w hrej hl]
          simp only [gaLoop] at hl
          rw [hl] at h2
          simp at h2
          simp [← h2]
        | none =>
          simp only [gaLoop] at hl
          rw [hl] at h2
          simp only [Option.none_or] at h2
          cases hc : (gaClose s dv w).2.2 with
          | some e =>
            rw [queryGetAll_closeErr s n dv w hrej hl hc]
            simp only [gaClose, gaLoop] at hc
            rw [hc] at h2
            simp [← h2]
          | none =>
            rw [queryGetAll_noErr s n dv w hrej hl hc]
            simp only [gaClose, gaLoop] at hc
            rw [hc] at h2
            simp only [← h2, ← h1, hout, Bool.and_true]
  · rw [queryGetAll_reject hrej]; simp

end Sqlair.Rt
