/-
  L5Sound/Defs: the observation the MODEL itself produces from a sequential cache history,
  in the vocabulary of the checker's predicates (`ExecObs`, `holdsC09`, `holdsC10`,
  `holdsC11`, `holdsC09reuse` of Spec/L5).

  `runHistoryW` is an instrumented copy of `runHistory`: besides the state it returns, for
  every event index of the driver log, the `(wantDb, wantShape)` of the call that emitted
  the event - the `run s d shape` operation itself, or the `mkq q s d shape` that built the
  Query a `runq q` runs.  `modelExecs` forms the `ExecObs` values from the final log and
  this attribution exactly like the Go harness does from the driver's event list: the
  DB/shape of a driver statement are those of the `prepare` event that created it,
  `closedBefore` says that a `close` event of the statement precedes the execution.

  This file only depends on the model (no proof files).
-/
import SqlairModel.Spec.L5

namespace Sqlair.Cache

/-- garbage collection with the fuel `runHistory` / `prepCounts` give it -/
def l5s_gc (st : St) : St := gc (st.ds.length + st.stmtDB.length + st.dbStmt.length + 1) st

/-- the effect of one history operation on the model state and on the counter that numbers
    the `run` operations (their operation ids); literally the branches of `runHistory` -/
def l5s_op (st : St) (t : Nat) : HOp → St × Nat
  | .newS => ((step st .newS).getD st, t)
  | .newD => ((step st .newD).getD st, t)
  | .run s d shape => (run st [.query t s d shape, .lookup t, .prepare t, .insert t, .exec t none], t + 1)
  | .mkq q s d shape => ((step st (.query (1000 + q) s d shape)).getD st, t)
  | .runq q => (run st [.lookup (1000 + q), .prepare (1000 + q), .insert (1000 + q), .exec (1000 + q) none], t)
  | .dropS s => ((step st (.dropS s)).getD st, t)
  | .dropD d => ((step st (.dropD d)).getD st, t)
  | .gc => (l5s_gc st, t)

/-- state and counter after a whole history -/
def l5s_final : List HOp → St → Nat → St × Nat
  | [], st, t => (st, t)
  | op :: rest, st, t => l5s_final rest (l5s_op st t op).1 (l5s_op st t op).2

/-- what the call issued by an operation wants: `(wantDb, wantShape)`; `qs` maps the id of a
    Query that was built to the parameters of the `mkq` that built it -/
def l5s_want (qs : List (Nat × Nat × Nat)) : HOp → Option (Nat × Nat)
  | .run _ d shape => some (d, shape)
  | .runq q => qs.lookup q
  | _ => none

/-- the table of built Queries after an operation: a `mkq` that builds a Query (in the model:
    whose `query` step is enabled - live handles, unused id) records its parameters -/
def l5s_qs (st : St) (qs : List (Nat × Nat × Nat)) : HOp → List (Nat × Nat × Nat)
  | .mkq q s d shape => if (step st (.query (1000 + q) s d shape)).isSome then (q, d, shape) :: qs else qs
  | _ => qs

/-- the wanted pair of an operation, attached to the indices of the events it appended -/
def l5s_wants (st st' : St) (qs : List (Nat × Nat × Nat)) (op : HOp) : List (Nat × Nat × Nat) :=
  match l5s_want qs op with
  | some p => (List.range' st.log.length (st'.log.length - st.log.length)).map fun i => (i, p)
  | none => []

/-- instrumented `runHistory`: the final state and, per event index, the wanted pair -/
def runHistoryW : List HOp → St → Nat → List (Nat × Nat × Nat) → List (Nat × Nat × Nat) →
    St × List (Nat × Nat × Nat)
  | [], st, _, _, w => (st, w)
  | op :: rest, st, t, qs, w =>
    runHistoryW rest (l5s_op st t op).1 (l5s_op st t op).2 (l5s_qs st qs op)
      (w ++ l5s_wants st (l5s_op st t op).1 qs op)

/-- DB and SQL shape of the `prepare` event that created driver statement `ds` -/
def l5s_prepOf (log : List Ev) (ds : Nat) : Option (Nat × Nat) :=
  log.findSome? fun e => match e with
    | .prepare i d q => if i == ds then some (d, q) else none
    | _ => none

/-- the observation of the event at index `i`, if it is an execution.  An execution of a
    statement without `prepare` event counts as DB 0 / shape 0; an execution no call claims
    counts as a mismatch -/
def l5s_obsAt (log : List Ev) (w : List (Nat × Nat × Nat)) (i : Nat) : Option ExecObs :=
  let mk (ds : Nat) (closed : Bool) : ExecObs :=
    let p := (l5s_prepOf log ds).getD (0, 0)
    let wt := (w.lookup i).getD (p.1 + 1, p.2 + 1)
    { ds := ds, db := p.1, shape := p.2, wantDb := wt.1, wantShape := wt.2, closedBefore := closed }
  match log[i]? with
  | some (.exec ds _ _) => some (mk ds ((log.take i).contains (.close ds)))
  | some (.execClosed ds) => some (mk ds true)
  | _ => none

def l5s_execsOf (log : List Ev) (w : List (Nat × Nat × Nat)) : List ExecObs :=
  (List.range log.length).filterMap (l5s_obsAt log w)

/-- what the model observes of its own executions in a history -/
def modelExecs (h : List HOp) : List ExecObs :=
  l5s_execsOf (runHistoryW h {} 1 [] []).1.log (runHistoryW h {} 1 [] []).2

/-- number of executions that hit "statement is closed" (the harness' `closedErrs`) -/
def l5s_closedErrs (log : List Ev) : Nat :=
  (log.filter fun e => match e with | .execClosed _ => true | _ => false).length

/-! ### closing a history out -/

def l5s_numS (h : List HOp) : Nat := (h.filter fun o => match o with | .newS => true | _ => false).length
def l5s_numD (h : List HOp) : Nat := (h.filter fun o => match o with | .newD => true | _ => false).length

/-- ids of the Queries the history builds -/
def l5s_queries (h : List HOp) : List Nat := h.filterMap fun o => match o with | .mkq q _ _ _ => some q | _ => none

/-- drop every Statement and every DB the history created -/
def l5s_dropAll (h : List HOp) : List HOp :=
  (List.range' 1 (l5s_numS h)).map HOp.dropS ++ (List.range' 1 (l5s_numD h)).map HOp.dropD

/-- the history, then every handle dropped, then a collection -/
def closeOut (h : List HOp) : List HOp := h ++ l5s_dropAll h ++ [.gc]

/-- the same, but every Query that was built is run first (what the harness' generator does:
    a Query that is kept keeps its Statement and its DB alive) -/
def closeOutQ (h : List HOp) : List HOp := h ++ (l5s_queries h).map HOp.runq ++ l5s_dropAll h ++ [.gc]

def l5s_isPrepareOf (ds : Nat) : Ev → Bool
  | .prepare i _ _ => i == ds
  | _ => false

/-- number of driver-level closes of `ds` in a log -/
def l5s_closes (log : List Ev) (ds : Nat) : Nat := (log.filter (· == Ev.close ds)).length

/-- was `ds` prepared in this log? -/
def l5s_prepared (log : List Ev) (ds : Nat) : Bool := log.any (l5s_isPrepareOf ds)

/-- the C11 inputs the model yields for its own final state: statements closed twice, open
    statements (prepared, not closed), cached pairs -/
def l5s_doubleClose (st : St) : Nat := (st.ds.filter fun x => 2 ≤ l5s_closes st.log x.id).length
def l5s_openStmts (st : St) : Nat := (st.ds.filter fun x => l5s_closes st.log x.id == 0).length

/-- is some Query built and not run (or, in general, some operation in flight)? -/
def l5s_pending (st : St) : Bool := st.ops.any fun p => p.2.pc != .done

/-! ### the reuse clause: what `prepCounts` should be -/

/-- does the cache hold, for the slot `(s, d)`, a driver statement with SQL shape `shape`? -/
def l5s_hit (st : St) (s d shape : Nat) : Bool :=
  match lookup2 st.stmtDB s d with
  | some id => match st.getDS id with
    | some x => x.sql == shape
    | none => false
  | none => false

/-- prepares made by running the operation with id `t`: none if there is nothing to run
    (no such operation, or it has run already), none on a cache hit, one on a miss -/
def l5s_missCount (st : St) (t : Nat) : Nat :=
  match st.getOp t with
  | some o => if o.pc == .start then (if l5s_hit st o.s o.d o.sql then 0 else 1) else 0
  | none => 0

/-- the specification of `prepCounts`: same recursion, but each entry is read off the cache
    *before* the operation instead of counting `prepare` events after it -/
def l5s_reuseSpec : List HOp → St → Nat → List Nat
  | [], _, _ => []
  | op :: rest, st, t =>
    match op with
    | .run s d shape =>
      l5s_missCount ((step st (.query t s d shape)).getD st) t :: l5s_reuseSpec rest (l5s_op st t op).1 (l5s_op st t op).2
    | .runq q => l5s_missCount st (1000 + q) :: l5s_reuseSpec rest (l5s_op st t op).1 (l5s_op st t op).2
    | _ => l5s_reuseSpec rest (l5s_op st t op).1 (l5s_op st t op).2

/-- number of `run` operations -/
def l5s_runs (h : List HOp) : Nat := (h.filter fun o => match o with | .run .. => true | _ => false).length

/-- the operation ids of `run`s (1, 2, ...) never meet those of Queries (`1000 + q`): every
    Query id the history builds lies beyond the number of `run`s.  Holds for every history
    with fewer than 1000 `run`s, and for every history without `mkq` -/
def l5s_fresh (h : List HOp) : Bool :=
  h.all fun o => match o with | .mkq q _ _ _ => l5s_runs h < 1000 + q | _ => true

end Sqlair.Cache
