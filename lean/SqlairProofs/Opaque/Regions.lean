/-
  Property C02, metamorphic form, byte level (1): the bytes of the blanked input, what the
  blanking keeps (the length, the newlines, hence line/column positions), and the list of
  regions of the reference lexer described along the lexer's path: the regions are exactly
  the literal and comment steps, distinct steps are disjoint, and the interior of a region
  lies inside its own step.
-/
import SqlairProofs.Opaque.Defs
import SqlairProofs.Parser.Lines

namespace Sqlair

/-! ### the bytes of the blanked input -/

/-- offset `i` lies in the interior of one of the regions -/
def opqInside (inp : Bytes) (rs : List Region) (i : Nat) : Prop :=
  ∃ r, r ∈ rs ∧ (r.interior inp).1 ≤ i ∧ i < (r.interior inp).2

/-- the byte the blanking writes at offset `i` -/
def opqByte (inp : Bytes) (rs : List Region) (i : Nat) : UInt8 :=
  if inp.getD i 0 != 10 && rs.any (fun r => let (lo, hi) := r.interior inp; lo ≤ i && i < hi) then 120
  else inp.getD i 0

theorem opq_blank_eq (inp : Bytes) (rs : List Region) :
    blankRegions inp rs = ((List.range inp.size).map (opqByte inp rs)).toArray := by
  unfold blankRegions
  have hf : (fun (acc : Array UInt8) i =>
      if inp.getD i 0 != 10 && rs.any (fun r => let (lo, hi) := r.interior inp; lo ≤ i && i < hi) then acc.push 120
      else acc.push (inp.getD i 0)) = fun acc i => acc.push (opqByte inp rs i) := by
    funext acc i
    unfold opqByte
    split <;> rfl
  rw [hf, List.foldl_push_eq_append]
  simp

theorem opq_blank_size (inp : Bytes) (rs : List Region) : (blankRegions inp rs).size = inp.size := by
  rw [opq_blank_eq]; simp

theorem opq_blank_getD (inp : Bytes) (rs : List Region) (i : Nat) (hi : i < inp.size) :
    (blankRegions inp rs).getD i 0 = opqByte inp rs i := by
  rw [opq_blank_eq, Array.getD_eq_getD_getElem?]
  simp [hi]

theorem opq_any_iff (inp : Bytes) (rs : List Region) (i : Nat) :
    rs.any (fun r => let (lo, hi) := r.interior inp; lo ≤ i && i < hi) = true ↔ opqInside inp rs i := by
  unfold opqInside
  rw [List.any_eq_true]
  constructor
  · rintro ⟨r, hr, h⟩
    refine ⟨r, hr, ?_⟩
    simpa using h
  · rintro ⟨r, hr, h⟩
    refine ⟨r, hr, ?_⟩
    simpa using h

theorem opq_bAt_ge (a : Bytes) (i : Nat) (h : a.size ≤ i) : bAt a i = 0 := by
  unfold bAt
  rw [Array.getD_eq_getD_getElem?, Array.getElem?_eq_none h]
  rfl

instance opqInsideDec (inp : Bytes) (rs : List Region) (i : Nat) : Decidable (opqInside inp rs i) :=
  decidable_of_iff _ (opq_any_iff inp rs i)

theorem opq_bAt_blank (inp : Bytes) (rs : List Region) (i : Nat) (hi : i < inp.size) :
    bAt (blankRegions inp rs) i = if bAt inp i ≠ 10 ∧ opqInside inp rs i then 120 else bAt inp i := by
  unfold bAt
  rw [opq_blank_getD inp rs i hi]
  unfold opqByte
  by_cases h10 : bAt inp i = 10
  · have h1 : (inp.getD i 0 != 10) = false := by
      rw [bne_eq_false_iff_eq]; exact UInt8.toNat_inj.mp h10
    rw [h1, Bool.false_and]
    have : ¬ ((inp.getD i 0).toNat ≠ 10 ∧ opqInside inp rs i) := fun hc => hc.1 h10
    rw [if_neg this]
    simp
  · have h1 : (inp.getD i 0 != 10) = true := by
      rw [bne_iff_ne]; intro hc; apply h10; unfold bAt; rw [hc]; rfl
    rw [h1, Bool.true_and]
    by_cases hin : opqInside inp rs i
    · rw [if_pos ((opq_any_iff inp rs i).mpr hin), if_pos ⟨h10, hin⟩]; rfl
    · have : ¬ ((inp.getD i 0).toNat ≠ 10 ∧ opqInside inp rs i) := fun hc => hin hc.2
      rw [if_neg (fun hc => hin ((opq_any_iff inp rs i).mp hc)), if_neg this]

theorem opq_bAt_out (inp : Bytes) (rs : List Region) (i : Nat) (h : ¬ opqInside inp rs i) :
    bAt (blankRegions inp rs) i = bAt inp i := by
  by_cases hi : i < inp.size
  · rw [opq_bAt_blank inp rs i hi, if_neg (fun hc => h hc.2)]
  · rw [opq_bAt_ge _ i (by rw [opq_blank_size]; omega), opq_bAt_ge _ i (by omega)]

theorem opq_bAt_in (inp : Bytes) (rs : List Region) (i : Nat) (hi : i < inp.size)
    (h : opqInside inp rs i) (h10 : bAt inp i ≠ 10) : bAt (blankRegions inp rs) i = 120 := by
  rw [opq_bAt_blank inp rs i hi, if_pos ⟨h10, h⟩]

/-- a byte of the blanked input is the byte of the input or a fresh `x` -/
theorem opq_bAt_cases (inp : Bytes) (rs : List Region) (i : Nat) :
    bAt (blankRegions inp rs) i = bAt inp i ∨
    (bAt (blankRegions inp rs) i = 120 ∧ bAt inp i ≠ 10 ∧ opqInside inp rs i ∧ i < inp.size) := by
  by_cases hi : i < inp.size
  · rw [opq_bAt_blank inp rs i hi]
    by_cases hc : bAt inp i ≠ 10 ∧ opqInside inp rs i
    · rw [if_pos hc]; exact Or.inr ⟨rfl, hc.1, hc.2, hi⟩
    · rw [if_neg hc]; exact Or.inl rfl
  · rw [opq_bAt_ge _ i (by rw [opq_blank_size]; omega), opq_bAt_ge _ i (by omega)]
    exact Or.inl rfl

theorem opq_bAt_nl_iff (inp : Bytes) (rs : List Region) (i : Nat) :
    bAt (blankRegions inp rs) i = 10 ↔ bAt inp i = 10 := by
  rcases opq_bAt_cases inp rs i with h | ⟨h, h10, _, _⟩
  · rw [h]
  · rw [h]; constructor
    · intro hc; cases hc
    · intro hc; exact absurd hc h10

/-- inside an interior the blanked input has `x` or a newline -/
theorem opq_bAt_in' (inp : Bytes) (rs : List Region) (i : Nat) (hi : i < inp.size)
    (h : opqInside inp rs i) : bAt (blankRegions inp rs) i = 120 ∨ bAt (blankRegions inp rs) i = 10 := by
  by_cases h10 : bAt inp i = 10
  · exact Or.inr ((opq_bAt_nl_iff inp rs i).mpr h10)
  · exact Or.inl (opq_bAt_in inp rs i hi h h10)

/-! ### what depends on the newlines only -/

section
variable {a b : Bytes}

theorem opq_nlCount_ge (a : Bytes) (off : Nat) (h : a.size ≤ off) : nlCount a off = nlCount a a.size := by
  unfold nlCount
  rw [Array.extract_eq_self_of_le h, Array.extract_eq_self_of_le (Nat.le_refl _)]

theorem opq_nlCount_eq (hs : b.size = a.size) (h : ∀ i, bAt b i = 10 ↔ bAt a i = 10) (off : Nat) :
    nlCount b off = nlCount a off := by
  have hlt : ∀ off, off ≤ a.size → nlCount b off = nlCount a off := by
    intro off
    induction off with
    | zero => intro _; rw [nlCount_zero, nlCount_zero]
    | succ n ih =>
      intro hn
      rw [nlCount_succ b n (by omega), nlCount_succ a n (by omega), ih (by omega)]
      by_cases hb : bAt a n = 10
      · rw [if_pos hb, if_pos ((h n).mpr hb)]
      · rw [if_neg hb, if_neg (fun hc => hb ((h n).mp hc))]
  by_cases ho : off ≤ a.size
  · exact hlt off ho
  · rw [opq_nlCount_ge a off (by omega), opq_nlCount_ge b off (by omega), hs]
    exact hlt _ (Nat.le_refl _)

theorem opq_lastNl_eq (h : ∀ i, bAt b i = 10 ↔ bAt a i = 10) (i : Nat) : lastNl b i = lastNl a i := by
  induction i with
  | zero => rfl
  | succ n ih =>
    by_cases hb : bAt a n = 10
    · rw [lastNl_succ_nl a n hb, lastNl_succ_nl b n ((h n).mpr hb)]
    · rw [lastNl_succ_not_nl a n hb, lastNl_succ_not_nl b n (fun hc => hb ((h n).mp hc)), ih]

theorem opq_lineColOf_eq (hs : b.size = a.size) (h : ∀ i, bAt b i = 10 ↔ bAt a i = 10) (off : Nat) :
    lineColOf b off = lineColOf a off := by
  rw [lineColOf_eq, lineColOf_eq, opq_nlCount_eq hs h, opq_lastNl_eq h, hs]

theorem opq_hasNewline_iff (a : Bytes) : hasNewline a = true ↔ ∃ i, i < a.size ∧ bAt a i = 10 := by
  unfold hasNewline
  rw [Array.any_eq_true]
  constructor
  · rintro ⟨i, hi, hx⟩
    refine ⟨i, hi, ?_⟩
    rw [← getD_eq_10_iff, Array.getD_eq_getD_getElem?, Array.getElem?_eq_getElem hi]
    exact hx
  · rintro ⟨i, hi, hx⟩
    refine ⟨i, hi, ?_⟩
    rw [← getD_eq_10_iff, Array.getD_eq_getD_getElem?, Array.getElem?_eq_getElem hi] at hx
    exact hx

theorem opq_hasNewline_eq (hs : b.size = a.size) (h : ∀ i, bAt b i = 10 ↔ bAt a i = 10) :
    hasNewline b = hasNewline a := by
  rw [Bool.eq_iff_iff, opq_hasNewline_iff, opq_hasNewline_iff]
  constructor
  · rintro ⟨i, hi, hx⟩; exact ⟨i, by omega, (h i).mp hx⟩
  · rintro ⟨i, hi, hx⟩; exact ⟨i, by omega, (h i).mpr hx⟩

end

/-! ### the interior of a region -/

theorem opq_getD_beq (inp : Bytes) (i : Nat) (x : UInt8) :
    (inp.getD i 0 == x) = true ↔ bAt inp i = x.toNat := by
  unfold bAt
  rw [beq_iff_eq]
  constructor
  · intro h; rw [h]
  · intro h; exact UInt8.toNat_inj.mp h

theorem opq_interior_lit (inp : Bytes) {r : Region} (hk : r.kind = .lit) :
    r.interior inp = (r.a + 1, r.b - 1) := by
  unfold Region.interior; rw [hk]

theorem opq_interior_line (inp : Bytes) {r : Region} (hk : r.kind = .comment) (h45 : bAt inp r.a = 45) :
    r.interior inp = (r.a + 2, r.b) := by
  unfold Region.interior; rw [hk]
  simp only []
  rw [if_pos ((opq_getD_beq inp r.a 45).mpr h45)]

theorem opq_interior_block_closed (inp : Bytes) {r : Region} (hk : r.kind = .comment)
    (h45 : bAt inp r.a ≠ 45) (h4 : r.a + 4 ≤ r.b) (h1 : bAt inp (r.b - 2) = 42)
    (h2 : bAt inp (r.b - 1) = 47) : r.interior inp = (r.a + 2, r.b - 2) := by
  unfold Region.interior; rw [hk]
  simp only []
  rw [if_neg (fun hc => h45 ((opq_getD_beq inp r.a 45).mp hc))]
  rw [if_pos]
  rw [Bool.and_eq_true, Bool.and_eq_true, decide_eq_true_iff]
  exact ⟨⟨h4, (opq_getD_beq inp _ 42).mpr h1⟩, (opq_getD_beq inp _ 47).mpr h2⟩

theorem opq_interior_block_open (inp : Bytes) {r : Region} (hk : r.kind = .comment)
    (h45 : bAt inp r.a ≠ 45)
    (hn : ¬ (r.a + 4 ≤ r.b ∧ bAt inp (r.b - 2) = 42 ∧ bAt inp (r.b - 1) = 47)) :
    r.interior inp = (r.a + 2, r.b) := by
  unfold Region.interior; rw [hk]
  simp only []
  rw [if_neg (fun hc => h45 ((opq_getD_beq inp r.a 45).mp hc))]
  rw [if_neg]
  rw [Bool.and_eq_true, Bool.and_eq_true, decide_eq_true_iff]
  rintro ⟨⟨h4, h1⟩, h2⟩
  exact hn ⟨h4, (opq_getD_beq inp _ 42).mp h1, (opq_getD_beq inp _ 47).mp h2⟩

/-- the interior of a region starts after its first byte and ends inside it -/
theorem opq_interior_bounds (inp : Bytes) (r : Region) :
    r.a + 1 ≤ (r.interior inp).1 ∧ (r.interior inp).2 ≤ r.b := by
  unfold Region.interior
  cases r.kind with
  | lit => simp only []; omega
  | comment =>
    simp only []
    split
    · simp only []; omega
    · split <;> (simp only []; omega)

/-! ### the regions along the path of the lexer -/

section
variable {E : Env}

/-- the kind of a region matches the rune that opens it -/
def OpqKind (E : Env) (r : Region) : Prop :=
  (r.kind = .lit ∧ (rn E r.a = 34 ∨ rn E r.a = 39)) ∨
  (r.kind = .comment ∧ ¬ (rn E r.a = 34 ∨ rn E r.a = 39) ∧ (LineOpen E r.a ∨ BlockOpen E r.a))

theorem opq_kind_unique {r r' : Region} (ha : r.a = r'.a) (hk : OpqKind E r) (hk' : OpqKind E r') :
    r.kind = r'.kind := by
  rcases hk with ⟨h1, h2⟩ | ⟨h1, h2, _⟩ <;> rcases hk' with ⟨h1', h2'⟩ | ⟨h1', h2', _⟩
  · rw [h1, h1']
  · rw [ha] at h2; exact absurd h2 h2'
  · rw [ha] at h2; exact absurd h2' h2
  · rw [h1, h1']

theorem opq_mem_cons_iff (r0 : Region) (acc : List Region) (hk : OpqKind E r0) (r : Region) :
    r ∈ r0 :: acc ↔ r ∈ acc ∨ (r.a = r0.a ∧ r.b = r0.b ∧ OpqKind E r) := by
  rw [List.mem_cons]
  constructor
  · rintro (rfl | hm)
    · exact Or.inr ⟨rfl, rfl, hk⟩
    · exact Or.inl hm
  · rintro (hm | ⟨ha, hb, hk'⟩)
    · exact Or.inr hm
    · left
      have := opq_kind_unique ha hk' hk
      cases r; cases r0
      simp only [] at ha hb this
      subst ha hb this
      rfl

/-- one step of `lexLoop`, with the accumulator described exactly -/
theorem opq_lexLoop_step (h : DecOK E) (f p : Nat) (acc : List Region) (hp : p < E.len) (e : Nat)
    (he : lexNext E p = some e) :
    ∃ acc', lexLoop E (f+1) p acc = lexLoop E f e acc' ∧
      ∀ r, r ∈ acc' ↔ r ∈ acc ∨ (r.a = p ∧ r.b = e ∧ OpqKind E r) := by
  rw [lexLoop_succ, if_neg (Nat.not_le.mpr hp)]
  unfold lexNext at he
  simp only [] at he
  rw [max_sz h hp] at he ⊢
  by_cases hq : rn E p = 34 ∨ rn E p = 39
  · rw [if_pos hq] at he ⊢
    rw [he]
    exact ⟨_, rfl, opq_mem_cons_iff ⟨.lit, p, e⟩ acc (Or.inl ⟨rfl, hq⟩)⟩
  · rw [if_neg hq] at he ⊢
    by_cases hl : rn E p = 45 ∧ p + sz E p < E.len ∧ rn E (p + sz E p) = 45
    · rw [if_pos hl] at he ⊢
      cases he
      exact ⟨_, rfl, opq_mem_cons_iff ⟨.comment, p, _⟩ acc (Or.inr ⟨rfl, hq, Or.inl hl⟩)⟩
    · rw [if_neg hl] at he ⊢
      by_cases hb : rn E p = 47 ∧ p + sz E p < E.len ∧ rn E (p + sz E p) = 42
      · rw [if_pos hb] at he ⊢
        cases he
        exact ⟨_, rfl, opq_mem_cons_iff ⟨.comment, p, _⟩ acc (Or.inr ⟨rfl, hq, Or.inr hb⟩)⟩
      · rw [if_neg hb] at he ⊢
        cases he
        refine ⟨acc, rfl, fun r => ⟨Or.inl, ?_⟩⟩
        rintro (hm | ⟨ha, _, hk⟩)
        · exact hm
        · rcases hk with ⟨_, h2⟩ | ⟨_, _, h2 | h2⟩
          · rw [ha] at h2; exact absurd h2 hq
          · rw [ha] at h2; exact absurd h2 hl
          · rw [ha] at h2; exact absurd h2 hb

/-- the regions found from `p` on are exactly the literal and comment steps of the lexer -/
theorem opq_lexLoop_mem (h : DecOK E) : ∀ (f p : Nat) (acc regions : List Region),
    lexLoop E f p acc = .ok regions → E.len - p < f → ∀ r, r ∈ regions ↔
      r ∈ acc ∨ (Reach E p r.a ∧ r.a < E.len ∧ lexNext E r.a = some r.b ∧ OpqKind E r) := by
  intro f
  induction f with
  | zero => intros; omega
  | succ f ih =>
    intro p acc regions he hf r
    by_cases hp : p < E.len
    · cases hn : lexNext E p with
      | none => rw [(lexLoop_step f p acc hp).1 hn] at he; cases he
      | some e =>
        obtain ⟨acc', hl, hacc⟩ := opq_lexLoop_step h f p acc hp e hn
        have hb := lexNext_bounds h hp hn
        rw [hl] at he
        rw [ih e acc' regions he (by omega) r, hacc r]
        constructor
        · rintro ((hm | ⟨ha, hb', hk⟩) | ⟨hr, hlt, hnx, hk⟩)
          · exact Or.inl hm
          · refine Or.inr ⟨ha ▸ Reach.refl _, by omega, ?_, hk⟩
            rw [ha, hb']; exact hn
          · exact Or.inr ⟨Reach.step hp hn hr, hlt, hnx, hk⟩
        · rintro (hm | ⟨hr, hlt, hnx, hk⟩)
          · exact Or.inl (Or.inl hm)
          · cases hr with
            | refl =>
              rw [hn] at hnx
              exact Or.inl (Or.inr ⟨rfl, (Option.some.inj hnx).symm, hk⟩)
            | step _ hn' hr' =>
              rw [hn] at hn'; cases hn'
              exact Or.inr ⟨hr', hlt, hnx, hk⟩
    · unfold lexLoop at he
      rw [if_pos (by omega)] at he
      cases he
      rw [List.mem_reverse]
      constructor
      · exact Or.inl
      · rintro (hm | ⟨hr, hlt, _⟩)
        · exact hm
        · have := hr.le h; omega

/-- the lexer does not fail at any code offset -/
theorem opq_lexLoop_total (h : DecOK E) : ∀ (f p : Nat) (acc regions : List Region),
    lexLoop E f p acc = .ok regions → E.len - p < f →
    ∀ x, Reach E p x → x < E.len → ∃ e, lexNext E x = some e := by
  intro f
  induction f with
  | zero => intros; omega
  | succ f ih =>
    intro p acc regions he hf x hr hx
    by_cases hp : p < E.len
    · cases hn : lexNext E p with
      | none => rw [(lexLoop_step f p acc hp).1 hn] at he; cases he
      | some e =>
        obtain ⟨acc', hl, _⟩ := opq_lexLoop_step h f p acc hp e hn
        have hb := lexNext_bounds h hp hn
        rw [hl] at he
        cases hr with
        | refl => exact ⟨e, hn⟩
        | step _ hn' hr' =>
          rw [hn] at hn'; cases hn'
          exact ih e acc' regions he (by omega) x hr' hx
    · have := hr.le h; omega

/-- a code offset does not lie strictly inside a step of the lexer -/
theorem opq_reach_not_in_step (h : DecOK E) {q p e x : Nat} (hq : Reach E q p) (hp : p < E.len)
    (he : lexNext E p = some e) (hx : Reach E q x) : ¬ (p < x ∧ x < e) := by
  induction hq with
  | refl p =>
    cases hx with
    | refl => omega
    | step _ hn' hr' =>
      rw [he] at hn'; cases hn'
      have := hr'.le h; omega
  | step hq0 hn0 hr0 ih =>
    have hb := lexNext_bounds h hq0 hn0
    cases hx with
    | refl => have := hr0.le h; omega
    | step _ hn' hr' =>
      rw [hn0] at hn'; cases hn'
      exact ih hp he hr'

end

/-! ### summary: what the byte-level proof uses of `lexRegions E = .ok regions` -/

/-- the regions are exactly the literal and comment steps of the lexer, which never fails -/
structure OpqRegs (E : Env) (regions : List Region) : Prop where
  dec : DecOK E
  mem : ∀ r, r ∈ regions ↔ LexCode E r.a ∧ r.a < E.len ∧ lexNext E r.a = some r.b ∧ OpqKind E r
  total : ∀ x, LexCode E x → x < E.len → ∃ e, lexNext E x = some e

section
variable {E : Env} {regions : List Region}

theorem opq_regs (h : DecOK E) (hr : lexRegions E = .ok regions) : OpqRegs E regions where
  dec := h
  mem := by
    intro r
    rw [opq_lexLoop_mem h _ _ _ _ hr (by omega) r]
    constructor
    · rintro (hm | hm)
      · cases hm
      · exact hm
    · exact Or.inr
  total := opq_lexLoop_total h _ _ _ _ hr (by omega)

/-- a code offset does not lie strictly inside a step of the lexer -/
theorem OpqRegs.not_in_step (R : OpqRegs E regions) {p e x : Nat} (hp : LexCode E p) (hlt : p < E.len)
    (he : lexNext E p = some e) (hx : LexCode E x) : ¬ (p < x ∧ x < e) :=
  opq_reach_not_in_step R.dec hp hlt he hx

/-- an offset of the step `[p, e)` can only be in the interior of the region that is this step -/
theorem OpqRegs.inside_step (R : OpqRegs E regions) {p e i : Nat} (hp : LexCode E p) (hlt : p < E.len)
    (he : lexNext E p = some e) (hi : p ≤ i) (hie : i < e) {r : Region} (hr : r ∈ regions)
    (hlo : (r.interior E.inp).1 ≤ i) (hhi : i < (r.interior E.inp).2) :
    r.a = p ∧ r.b = e ∧ OpqKind E r := by
  obtain ⟨hca, hla, hna, hka⟩ := (R.mem r).mp hr
  have hb := opq_interior_bounds E.inp r
  have h1 := R.not_in_step hp hlt he hca
  have h2 := R.not_in_step hca hla hna hp
  have ha : r.a = p := by omega
  refine ⟨ha, ?_, hka⟩
  rw [ha, he] at hna
  exact (Option.some.inj hna).symm

/-- a code offset is in no interior -/
theorem OpqRegs.code_outside (R : OpqRegs E regions) {x : Nat} (hx : LexCode E x) :
    ¬ opqInside E.inp regions x := by
  rintro ⟨r, hr, hlo, hhi⟩
  obtain ⟨hca, hla, hna, _⟩ := (R.mem r).mp hr
  have hb := opq_interior_bounds E.inp r
  have := R.not_in_step hca hla hna hx
  omega

/-- the offsets of a plain step are in no interior -/
theorem OpqRegs.plain_outside (R : OpqRegs E regions) {p i : Nat} (hp : LexCode E p) (hlt : p < E.len)
    (hpl : PlainAt E p) (hi : p ≤ i) (hie : i < p + sz E p) : ¬ opqInside E.inp regions i := by
  rintro ⟨r, hr, hlo, hhi⟩
  have he := lexNext_plain R.dec hlt hpl.dquote hpl.squote hpl.line hpl.block
  obtain ⟨ha, _, hk⟩ := R.inside_step hp hlt he hi hie hr hlo hhi
  rw [← ha] at hpl
  rcases hk with ⟨_, h2 | h2⟩ | ⟨_, _, h2 | h2⟩
  · exact hpl.dquote h2
  · exact hpl.squote h2
  · exact hpl.line h2
  · exact hpl.block h2

end

/-! ### the decoder assumptions, unpacked -/

section
variable {E : Env}

theorem OpqDec.decOK (hd : OpqDec E) : DecOK E := hd.ok E.inp

theorem OpqDec.asciiDec (hd : OpqDec E) : AsciiDec E := hd.ascii E.inp

/-- the assumptions are about the decoder, not about the input -/
theorem OpqDec.env (hd : OpqDec E) (inp' : Bytes) : OpqDec (opqEnv E inp') :=
  ⟨hd.ok, hd.ascii, hd.small, hd.window⟩

/-- a rune below 128 is one byte, the rune itself -/
theorem OpqDec.small' (hd : OpqDec E) {p : Nat} (hp : p < E.len) (hr : rn E p < 128) :
    sz E p = 1 ∧ bAt E.inp p = rn E p := by
  have h := hd.small E.inp p hp hr
  have h1 : rn E p = bAt E.inp p := congrArg Prod.fst h
  have h2 : sz E p = 1 := congrArg Prod.snd h
  exact ⟨h2, h1.symm⟩

/-- an ASCII byte is a rune of size one, the byte itself -/
theorem OpqDec.ascii' (hd : OpqDec E) {p : Nat} (hp : p < E.len) (hb : bAt E.inp p < 128) :
    rn E p = bAt E.inp p ∧ sz E p = 1 := by
  have h := hd.asciiDec.ascii p hp hb
  exact ⟨congrArg Prod.fst h, congrArg Prod.snd h⟩

end

end Sqlair
