/-
  L4Sound, C14: assembling the `iter` case, and the final theorem.
-/
import SqlairProofs.L4Sound.C14Fetch

namespace Sqlair.Rt

theorem l4s_holdsC14_iter_of {c : Case} {o : Obs} (hop : c.op = "iter")
    (h1 : (closeResults c o).all (fun r => some r == (closeResults c o).head?) = true)
    (h2 : ((l4s_nexts (c.calls.zip o.returns)).dropWhile (· == "true")).all (· == "false") = true)
    (h3 : holdsC14.chk (c.calls.zip o.returns) 0 = true)
    (h4 : holdsC14.ended (c.calls.zip o.returns) false = true)
    (h5 : c.cancelAt.isSome = true ∨ c.fewCols = true ∨ holdsC14.live c (c.calls.zip o.returns) 0 false = true)
    (h6 : (match (c.calls.zip o.returns).head? with
      | some ("get", r) => !r.startsWith "row:"
      | some ("getinvalid", r) => r != ""
      | _ => true) = true)
    (h7 : ∀ k, c.fetchErrAt = some k →
      (o.events.filter (· == "next")).length ≤ k ∨ (closeResults c o).all (· != "") = true) :
    holdsC14 c o = true := by
  have hg : (c.op == "get" || c.op == "getall") = false := by rw [hop]; decide
  have hi : (c.op != "iter") = false := by rw [hop]; decide
  have h5' : (c.cancelAt.isSome || c.fewCols || holdsC14.live c (c.calls.zip o.returns) 0 false) = true := by
    rcases h5 with h | h | h <;> simp [h]
  have h7' : (match c.fetchErrAt with
      | some k => decide ((o.events.filter (· == "next")).length ≤ k) || (closeResults c o).all (· != "")
      | none => true) = true := by
    cases hf : c.fetchErrAt with
    | none => rfl
    | some k =>
      rcases h7 k hf with h | h
      · simp [h]
      · simp only [h, Bool.or_true]
  unfold holdsC14
  simp only [hg, hi, Bool.false_eq_true, if_false]
  have h2' : ((List.filterMap (fun x => match x with | (call, r) => if (call == "next") = true then some r else none)
      (c.calls.zip o.returns)).dropWhile (· == "true")).all (· == "false") = true := h2
  simp only [h1, h2', h3, h4, h5', Bool.true_and, Bool.and_eq_true]
  exact ⟨h6, h7'⟩

/-! ### the model's iteration of an `iter` case -/

theorem l4s_w1_nexts (c : Case) : (l4s_w1 c).l4s_nexts = 0 := by
  have hw0 : (l4s_w0 c).log.count .next = 0 := by
    unfold l4s_w0; split <;> simp
  have hfin : ∀ fs : List String, (runFinishers fs {} (l4s_w0 c)).2.1.log.count .next = 0 := by
    intro fs
    cases fs with
    | nil => exact hw0
    | cons f rest =>
      rw [l4s_runFinishers_cons]
      simp only [List.count_append, hw0]
      cases (f == "commit") <;> simp [finEv]
  unfold l4s_w1 l4s_pre World.l4s_nexts
  dsimp only
  split
  · split
    · exact hfin _
    · exact hw0
  · split
    · exact hfin _
    · exact hw0

theorem l4s_openEvents_nexts (s : Script) : s.openEvents.count .next = 0 := by
  rw [List.count_eq_zero]
  intro h
  have := List.all_eq_true.1 (l4s_openEvents_isOpen s) _ h
  simp [Ev.l4s_isOpen] at this

theorem l4s_callMap_false : l4s_callMap false = id := by
  funext x; simp [l4s_callMap]

theorem l4s_errIter_WF (ho : Bool) (e : Err) : ({ hasOutputs := ho, err := some e } : Iter).WF :=
  ⟨fun _ => rfl, fun r h => by simp at h, fun r h => by simp at h⟩

/-- what `holdsC14` needs to know of the iteration the model performs -/
theorem l4s_iter_data {c : Case} (hop : c.op = "iter") :
    ∃ (f : String → String) (cs : List String) (it0 : Iter) (w0 : World),
      l4s_fmap f ∧ (l4s_argsOf (f "get") = .valid ∨ l4s_argsOf (f "get") = .invalid) ∧
      l4s_argsOf (f "getinvalid") = .invalid ∧ (c.fewCols = false → f = id) ∧
      (l4s_m c).1.returns = (runCalls cs c.cancelAt 0 it0 w0 (c.calls.map f)).2.2 ∧
      (l4s_m c).2.l4s_nexts = (runCalls cs c.cancelAt 0 it0 w0 (c.calls.map f)).2.1.l4s_nexts ∧
      it0.WF ∧ it0.started = false ∧ l4s_Seq c.badRow 0 it0.remaining ∧ it0.curId = none ∧
      (∀ k, c.fetchErrAt = some k → l4s_I7 k it0 w0) := by
  have h1 : c.op ≠ "run" := by rw [hop]; decide
  have h2 : c.op ≠ "get" := by rw [hop]; decide
  have h3 : c.op ≠ "getall" := by rw [hop]; decide
  cases hq : l4s_queryErr c with
  | some e =>
    refine ⟨id, c.calls, { hasOutputs := c.hasOutputs, err := some e }, l4s_w1 c, l4s_fmap_id, .inl rfl, rfl,
      fun _ => rfl, ?_, ?_, l4s_errIter_WF _ _, rfl, ?_, rfl, ?_⟩
    · unfold l4s_m; rw [l4s_mid_of_err hq, l4s_midErr_iter hop, List.map_id]
    · unfold l4s_m; rw [l4s_mid_of_err hq, l4s_midErr_iter hop, List.map_id]
    · rw [Iter.remaining_of_rows_none rfl]; trivial
    · intro k _
      right; left
      exact ⟨by simp [Iter.ended], by rw [l4s_w1_nexts]; omega⟩
  | none =>
    refine ⟨l4s_callMap c.fewCols, l4s_calls c, (iterOpen (c.script c.l4s_td) (l4s_w1 c)).1,
      (iterOpen (c.script c.l4s_td) (l4s_w1 c)).2, l4s_fmap_callMap _, ?_, ?_, ?_, ?_, ?_, iterOpen_WF _ _,
      iterOpen_started _ _, ?_, ?_, ?_⟩
    · rw [l4s_argsOf_callMap]; split
      · exact .inr rfl
      · exact .inl rfl
    · rw [l4s_argsOf_callMap]; simp; rfl
    · intro h; rw [h, l4s_callMap_false]
    · unfold l4s_m; rw [l4s_mid_iter hq h1 h2 h3, ← l4s_calls_eq]; rfl
    · unfold l4s_m; rw [l4s_mid_iter hq h1 h2 h3, ← l4s_calls_eq]
      show (l4s_midIter c _ _).2.l4s_nexts = (l4s_iterRun c _ _).2.1.l4s_nexts
      unfold l4s_midIter
      dsimp only
      split
      · split
        · exact l4s_Rows_close_nexts _ _
        · rfl
      · rfl
    · rw [iterOpen_remaining]; split
      · exact l4s_Seq_fetch c
      · trivial
    · rw [iterOpen_eq]
      simp only [Iter.curId, Script.openRows]
      split <;> rfl
    · intro k hk
      have hw0 : (iterOpen (c.script c.l4s_td) (l4s_w1 c)).2.l4s_nexts = 0 := by
        have := l4s_w1_nexts c
        unfold World.l4s_nexts at this ⊢
        rw [l4s_iterOpen_log, List.count_append, this, l4s_openEvents_nexts]
      cases hops : (c.script c.l4s_td).opensRows
      · right; left
        exact ⟨l4s_ended_of_rows_none (l4s_iterOpen_rows_none hops _), by rw [hw0]; omega⟩
      · right; right
        have herr : (iterOpen (c.script c.l4s_td) (l4s_w1 c)).1.err = none := by
          rw [iterOpen_err]
          have h := hops
          simp only [Script.opensRows, Script.runsOK, Bool.and_eq_true, Option.isNone_iff_eq_none] at h
          exact h.2
        have hrows := iterOpen_rows (c.script c.l4s_td) (l4s_w1 c)
        rw [Script.openRows_of_opensRows hops] at hrows
        refine ⟨herr, _, (l4s_rows c).take k, .inj 3, hrows, rfl, rfl, ?_, ?_⟩
        · show c.fetch = _
          rw [l4s_fetch_eq, hk]
        · rw [hw0, List.length_take]; omega

/-- the driver Next calls the observation shows are those of the operation -/
theorem l4s_obs_next_count {win : String} (hwin : isFinisher win = true) {c : Case} (hwf : CaseWF c)
    (hp : c.op ≠ "pair") :
    ((predObsW win c (l4s_predictSingle c)).events.filter (· == "next")).length ≤ (l4s_m c).2.l4s_nexts := by
  obtain ⟨evsOp, hlog, hshape⟩ := l4s_obs_shape hwin hwf hp
  have hge : evsOp.count .next ≤ (l4s_m c).2.l4s_nexts := by
    unfold World.l4s_nexts; rw [hlog, List.count_append]; omega
  rcases hshape with ⟨_, _, _, hev, _⟩ | ⟨_, _, _, hnil, fev, hf, hev, _, _⟩ | ⟨_, _, _, _, fev, hf, hev, _, _⟩
  · rw [hev, l4s_count_next]; exact hge
  · rw [hev, l4s_count_next]
    cases fev <;> simp [Ev.isFin] at hf <;> simp
  · rw [hev, l4s_count_next]
    have : (Ev.begin :: evsOp ++ [fev]).count .next = evsOp.count .next := by
      cases fev <;> simp [Ev.isFin] at hf <;> simp [List.count_append]
    rw [this]; exact hge

theorem l4s_holdsC14_iter {win : String} (hwin : isFinisher win = true) {c : Case} (hwf : CaseWF c)
    (hop : c.op = "iter") : holdsC14 c (predObsW win c (l4s_predictSingle c)) = true := by
  have hp : c.op ≠ "pair" := by rw [hop]; decide
  obtain ⟨f, cs, it0, w0, hf, hfg, hfi, hfid, hret, hnx, hwf0, hst, hseq, hcur, hi7⟩ := l4s_iter_data hop
  have hret' : (predObsW win c (l4s_predictSingle c)).returns =
      (runCalls cs c.cancelAt 0 it0 w0 (c.calls.map f)).2.2 := hret
  apply l4s_holdsC14_iter_of hop
  · rw [l4s_closeResults_eq, hret']; exact l4s_cr_agree hf _ _ _ _ _ _
  · rw [hret']; exact l4s_nexts_sticky hf _ _ _ _ _ _
  · rw [hret']; exact l4s_chk_runCalls c.badRow hf _ _ _ _ _ hwf0 hseq hcur
  · rw [hret']; exact l4s_ended_runCalls hf _ _ _ _ _ _
  · cases hca : c.cancelAt with
    | some k => exact .inl rfl
    | none =>
      cases hfc : c.fewCols with
      | true => exact .inr (.inl rfl)
      | false =>
        right; right
        rw [hret', hfid hfc, hca, List.map_id]
        exact l4s_live_runCalls c _ _ _ _ hwf0 hseq
  · rw [hret']; exact l4s_head_ok hf hfg hfi _ _ _ _ _ hst
  · intro k hk
    rcases l4s_fetchErr_reported k hf c.cancelAt cs c.calls 0 it0 w0 hwf0 (hi7 k hk) with h | h
    · left
      have := l4s_obs_next_count hwin hwf hp
      rw [hnx] at this
      omega
    · right
      apply l4s_closeResults_all
      intro p hp' hc
      rw [hret'] at hp'
      simpa using h p hp' hc

/-! ### C14, all cases -/

theorem l4s_holdsC14_all {win : String} (hwin : isFinisher win = true) {c : Case} (hwf : CaseWF c) :
    holdsC14 c (predObsW win c (predict c)) = true := by
  by_cases h1 : c.op = "get"
  · rw [l4s_predict_single (by rw [h1]; decide)]; exact l4s_holdsC14_get win h1
  · by_cases h2 : c.op = "getall"
    · rw [l4s_predict_single (by rw [h2]; decide)]; exact l4s_holdsC14_getall win h2
    · by_cases h3 : c.op = "iter"
      · rw [l4s_predict_single (by rw [h3]; decide)]; exact l4s_holdsC14_iter hwin hwf h3
      · exact l4s_holdsC14_other _ h1 h2 h3

end Sqlair.Rt
