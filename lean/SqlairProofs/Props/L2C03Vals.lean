/-
  Props/L2C03Vals: `holdsC03vals` (C03, value level, `SqlairModel/Spec/L2.lean`: for statements whose
  only expressions are member inputs `$T.member`, the k-th argument the driver receives is named
  `sqlair_k` and is the value of the member the k-th expression names, the member found BY TAG with
  `valueByTag C tt 8`) against the model, which reaches the members through the INDEX PATHS
  `getStructFields` computes.

  RESULT.  The predicate is NOT true of the model's own observation unconditionally.  Three
  kernel-checked counterexamples, each on the observation `modelBindObs pq` of a statement the
  model prepares and binds:
  * `holdsC03vals_needs_embPtrOK`: `type T2 struct { *M; A string "a" }`, `type M map[string]string`.
    `valueByTag` follows the embedded `*M` into the map and takes the KEY `a`; the library (and the
    model) skips an embedded pointer that does not point to a struct and sends the field `A`.
    Legal Go, well-formed value: a DEFECT of `valueByTag` (the one of `holdsC04rows_needs_embPtrOK`).
  * `holdsC03vals_needs_fuel`: a member 16 embeddings deep (anything deeper than 8, or 7 below a
    pointer argument): `valueByTag … 8` runs out of fuel and answers `none`, the predicate says
    false, the model sends the member.  Table `embPtrOK`, value well formed.  (Unlike
    `holdsC04rows`, nothing in `holdsC03vals` makes it vacuous when the fuel is short.)
  * `holdsC03vals_needs_valWF`: a value tree no `reflect.Value` has (the embedded field of type `E`
    holds a struct carrying the type id of `T`): tags and paths differ.  Side condition, not a defect.

  Under the decidable guard `c03valsGuards C tt segs args` (`L2Sound/C03Vals.lean`: every argument
  whose type name an expression names is a map, or `embPtrOK tt`, `valWF tt 64 v` and
  `tagsOfVal C tt 8 v` succeeds) the predicate IS true of the model's own observation, for ALL
  classifiers, type tables, statements, samples and argument lists (struct arguments `T`, `*T` and
  map arguments `M`, `*M`; any number of expressions and arguments):
  `holdsC03vals_model`, `holdsC03vals_runModel`.
-/
import SqlairProofs.L2Sound.C03Vals
import SqlairProofs.Props.L2RowsModel
import SqlairProofs.Props.L2Sound

namespace Sqlair

/-! ## soundness against the model -/

/-- C03, value level, SOUNDNESS AGAINST THE MODEL.  For ALL classifiers, type tables, statements
    `segs`, samples and argument lists: under `c03valsGuards`, if the model prepares the statement
    and binds the arguments to `pq`, then `holdsC03vals` is true of the model's own observation
    `modelBindObs pq`.  The non-trivial case: every expression is a member input `$T.m`; then the
    model sends one argument per expression, the k-th named `sqlair_k`, and its value is the text
    of the member `valueByTag C tt 8` finds in the only argument of type name `T` (a struct `T`,
    `*T`: `c04rows_row_by_tag`; a map `M`, `*M`: the key). -/
theorem holdsC03vals_model {C : Cls} {tt : TypeTable} {segs : List OSeg} {samples : List (Option Nat)}
    {tes : List TExpr} {args : List GoVal} {pq : Primed}
    (hguard : c03valsGuards C tt segs args = true)
    (hp : bindTypes C tt segs samples = .ok tes) (hb : bindInputs tt tes args = .ok pq) :
    holdsC03vals C tt segs args (modelBindObs pq) = true := by
  rw [holdsC03vals_eq, l2s_guard pq]
  simp only [Bool.false_eq_true, if_false]
  split
  · rfl
  rename_i hall
  have hall : (segs.filter (·.kind != .bypass)).all (·.kind == .member) = true := by
    cases hc : (segs.filter (·.kind != .bypass)).all (·.kind == .member) with
    | true => rfl
    | false => rw [hc] at hall; exact absurd rfl hall
  obtain ⟨infos, st, hg, hs, _, rfl⟩ := bindTypes_ok_unfold hp
  obtain ⟨new, h1, hms⟩ := bindSegs_memSegs _ _ _ hall hs
  simp only [List.nil_append] at h1
  obtain ⟨m, qb, hm, hq, _, rfl⟩ := bindInputs_ok_unfold hb
  rw [h1] at hq
  have hgd : ∀ s ∈ segs, s.kind = .member → ∀ a, s.types = [a] → ∀ v ∈ args, v.typeName tt = a.ty →
      c03valsArgOK C tt v = true := by
    intro s hs hk a hty v hv hname
    unfold c03valsGuards at hguard
    rw [List.all_eq_true] at hguard
    have := hguard s (List.mem_filter.2 ⟨hs, by simp [hk]⟩)
    simp only [hty, List.all_eq_true] at this
    have := this v hv
    simpa [hname] using this
  obtain ⟨ps, h2, h3, h4⟩ := c03vals_fold (C := C) hg hm segs new hms hgd {} qb hq
  simp only [List.nil_append] at h2
  rw [modelBindObs_params]
  simp only [h2]
  rw [Bool.and_eq_true]
  refine ⟨by simpa using h3, ?_⟩
  rw [List.range_eq_range']
  exact h4

/-- the same, stated on `runModel` (the function the driver uses) -/
theorem holdsC03vals_runModel {C : Cls} {tt : TypeTable} {segs : List OSeg} {samples : List (Option Nat)}
    {args : List GoVal} {pq : Primed}
    (hguard : c03valsGuards C tt segs args = true)
    (hb : (runModel C tt segs samples args).bind = .ok pq) :
    holdsC03vals C tt segs args (modelBindObs pq) = true := by
  unfold runModel at hb
  split at hb
  · cases hb
  · rename_i tes hp
    exact holdsC03vals_model hguard hp hb

/-! ## the guards are needed: `holdsC03vals` is false of the model's own observation -/

namespace L2RowsEx

/-- `SELECT 1 WHERE a=$T2.a` -/
def segsT2a : List OSeg := [
  { kind := .bypass, raw := bs "SELECT 1 WHERE a=" },
  { kind := .member, raw := bs "$T2.a", types := [{ ty := bs "T2", member := bs "a" }] } ]

def pqT2a : Primed :=
  { pieces := [.text (bs "SELECT 1 WHERE a="), .inputs 0 1], params := [(0, "from the field")], outputs := [] }

/-- a `T` whose embedded field of type `E` holds a struct that carries the type id of `T` (no
    `reflect.Value` is like that) -/
def argIllT : GoVal :=
  .struct { t := 0, zero := false, r := "{T}" }
    [lf "a1",
     .struct { t := 0, zero := false, r := "{T}" } [lf "ua", .struct { t := 3, zero := false, r := "{E}" } [lf "ux"], lf "ub"],
     lf "b1"]

/-- `type M map[string]string` through a pointer -/
def argPM : GoVal :=
  .ptr { t := 5, zero := false, r := "&M" } (some (.map { t := 4, zero := false, r := "map" } (some [(bs "k", lf "kv"), (bs "x", lf "mx")])))

/-- `SELECT 1 WHERE x=$T.x AND k=$M.k` -/
def segsTM : List OSeg := [
  { kind := .bypass, raw := bs "SELECT 1 WHERE x=" },
  { kind := .member, raw := bs "$T.x", types := [{ ty := bs "T", member := bs "x" }] },
  { kind := .bypass, raw := bs " AND k=" },
  { kind := .member, raw := bs "$M.k", types := [{ ty := bs "M", member := bs "k" }] } ]

def obsNamed (ps : List (String × String)) : BindObs :=
  { prepOk := true, bindOk := true, mode := "exec", events := 2, params := ps }

end L2RowsEx

open L2RowsEx in
/-- FINDING, defect of `valueByTag` (side condition `embPtrOK`, as for `holdsC04rows`):
    `type T2 struct { *M; A string "a" }`, `type M map[string]string`, statement `… $T2.a`.  The library
    skips the embedded `*M` (not a struct) and sends the field `A`; `valueByTag` follows the pointer
    into the map and answers the value of the KEY `a`.  The model's own observation is rejected;
    the value is well formed and `tagsOfVal` succeeds, only `embPtrOK` fails. -/
theorem holdsC03vals_needs_embPtrOK :
    (∃ tes, bindTypes C tt segsT2a [some 6] = .ok tes ∧ bindInputs tt tes [argT2] = .ok pqT2a) ∧
    holdsC03vals C tt segsT2a [argT2] (modelBindObs pqT2a) = false ∧
    embPtrOK tt = false ∧ valWF tt 64 argT2 = true ∧ (tagsOfVal C tt 8 argT2).isSome = true ∧
    c03valsGuards C tt segsT2a [argT2] = false := by
  refine ⟨⟨_, by rfl, by rfl⟩, by decide +kernel, by decide +kernel, by decide +kernel, by decide +kernel,
    by decide +kernel⟩

open L2RowsEx in
/-- side condition `valWF` (not a defect): in `argIllT` the embedded field `E` of a `T` holds a struct
    with the type id of `T`; for `$T.x` the model follows the index path `[1, 0]` (and sends `ua`),
    the search by tag finds the member tagged `x` of the inner value (`ux`).  `embPtrOK` holds and
    `tagsOfVal` succeeds, only `valWF` fails. -/
theorem holdsC03vals_needs_valWF :
    (L2RowsEx.modelObs ttOK segsMem [some 0] [argIllT]).map (·.params) =
      some [("sqlair_0", "a1"), ("sqlair_1", "ua")] ∧
    (L2RowsEx.modelObs ttOK segsMem [some 0] [argIllT]).map (holdsC03vals C ttOK segsMem [argIllT]) = some false ∧
    embPtrOK ttOK = true ∧ valWF ttOK 64 argIllT = false ∧ (tagsOfVal C ttOK 8 argIllT).isSome = true ∧
    c03valsGuards C ttOK segsMem [argIllT] = false := by
  decide +kernel

/-- FINDING, the fuel of `valueByTag … 8` (the predicate, not the model): `l2sDeepTT` is `T0` embedding
    `T1` … embedding `T15 { A string "a" }`.  For `$T.a` and a `T0` value the model sends the member
    (`deep`); the search by tag gives up 8 levels down and the predicate is false of the model's own
    observation.  The table is `embPtrOK`, the value well formed; only `tagsOfVal … 8` fails (it
    runs out of fuel at the same depth), which is what the guard tests. -/
theorem holdsC03vals_needs_fuel :
    bindTypes PrepExample.C l2sDeepTT l2sDeepSegs [some 0] = .ok l2sDeepTes ∧
    bindInputs l2sDeepTT l2sDeepTes [l2sDeepVal 16] = .ok l2sDeepPq ∧
    holdsC03vals PrepExample.C l2sDeepTT l2sDeepSegs [l2sDeepVal 16] (modelBindObs l2sDeepPq) = false ∧
    embPtrOK l2sDeepTT = true ∧ valWF l2sDeepTT 64 (l2sDeepVal 16) = true ∧
    tagsOfVal PrepExample.C l2sDeepTT 8 (l2sDeepVal 16) = none ∧
    c03valsGuards PrepExample.C l2sDeepTT l2sDeepSegs [l2sDeepVal 16] = false :=
  ⟨by rfl, by rfl, by decide +kernel, by decide +kernel, by decide +kernel, by decide +kernel, by decide +kernel⟩

/-- the boundary of the fuel: the member 8 structs deep (a `T8` value, `l2sDeepVal 8`) is found and
    the guard holds; 9 structs deep (a `T7` value) the guard fails, and so does the predicate on the
    model's own observation -/
theorem holdsC03vals_fuel_boundary :
    c03valsGuards PrepExample.C l2sDeepTT l2sDeepSegs [l2sDeepVal 8] = true ∧
    (L2RowsEx.modelObs l2sDeepTT l2sDeepSegs [some 8] [l2sDeepVal 8]).map
      (holdsC03vals PrepExample.C l2sDeepTT l2sDeepSegs [l2sDeepVal 8]) = some true ∧
    c03valsGuards PrepExample.C l2sDeepTT l2sDeepSegs [l2sDeepVal 9] = false ∧
    (L2RowsEx.modelObs l2sDeepTT l2sDeepSegs [some 7] [l2sDeepVal 9]).map
      (holdsC03vals PrepExample.C l2sDeepTT l2sDeepSegs [l2sDeepVal 9]) = some false := by
  decide +kernel

/-! ## non-vacuity -/

namespace L2RowsEx

/-- `SELECT 1 WHERE x=$T.x AND k=$M.k` with a struct `T{A: a1, E{X: x1}, B: b1}` and a `*M` pointing to
    `{k: kv, x: mx}`: the guards hold, the model binds and sends two arguments `sqlair_0 = x1` (the
    embedded member, path `[1, 0]`) and `sqlair_1 = kv`; the theorem applies to the model's observation -/
example : c03valsGuards C ttOK segsTM [row "a1" "x1" "b1", argPM] = true ∧
    ∃ pq, (runModel C ttOK segsTM [some 0, some 4] [row "a1" "x1" "b1", argPM]).bind = .ok pq ∧
      (modelBindObs pq).params = [("sqlair_0", "x1"), ("sqlair_1", "kv")] ∧
      holdsC03vals C ttOK segsTM [row "a1" "x1" "b1", argPM] (modelBindObs pq) = true := by
  have hgd : c03valsGuards C ttOK segsTM [row "a1" "x1" "b1", argPM] = true := by decide +kernel
  have h : ∃ pq, (runModel C ttOK segsTM [some 0, some 4] [row "a1" "x1" "b1", argPM]).bind = .ok pq ∧
      (modelBindObs pq).params = [("sqlair_0", "x1"), ("sqlair_1", "kv")] := ⟨_, rfl, by decide +kernel⟩
  obtain ⟨pq, h1, h2⟩ := h
  exact ⟨hgd, pq, h1, h2, holdsC03vals_runModel hgd h1⟩

/-- the predicate is not trivially true on this case: the two values swapped, the value of another
    member (`a1`, `mx`), a wrong name, an argument lost are all rejected; the model's are accepted -/
example :
    holdsC03vals C ttOK segsTM [row "a1" "x1" "b1", argPM] (obsNamed [("sqlair_0", "kv"), ("sqlair_1", "x1")]) = false ∧
    holdsC03vals C ttOK segsTM [row "a1" "x1" "b1", argPM] (obsNamed [("sqlair_0", "a1"), ("sqlair_1", "kv")]) = false ∧
    holdsC03vals C ttOK segsTM [row "a1" "x1" "b1", argPM] (obsNamed [("sqlair_0", "x1"), ("sqlair_1", "mx")]) = false ∧
    holdsC03vals C ttOK segsTM [row "a1" "x1" "b1", argPM] (obsNamed [("sqlair_1", "x1"), ("sqlair_0", "kv")]) = false ∧
    holdsC03vals C ttOK segsTM [row "a1" "x1" "b1", argPM] (obsNamed [("sqlair_0", "x1")]) = false ∧
    holdsC03vals C ttOK segsTM [row "a1" "x1" "b1", argPM] (obsNamed [("sqlair_0", "x1"), ("sqlair_1", "kv")]) = true := by
  decide +kernel

/-- the theorem on the statement of `Props/L2RowsModel.lean` (`$T.a`, `$T.x`, one struct argument) -/
example : ∃ pq, (runModel C ttOK segsMem [some 0] [row "a1" "x1" "b1"]).bind = .ok pq ∧
    holdsC03vals C ttOK segsMem [row "a1" "x1" "b1"] (modelBindObs pq) = true :=
  ⟨_, rfl, holdsC03vals_runModel (samples := [some 0]) (by decide +kernel) rfl⟩

end L2RowsEx

/-! ## what the guard leaves out

  `c03valsGuards` is sufficient, not the weakest condition: `tagsOfVal … 8` also fails on a value with
  a NIL embedded pointer, where `valueByTag` simply skips the pointer and the predicate is true of
  the model whenever the model binds (`c03valsGuards_not_weakest`).  The weaker guard
  `embPtrOK tt && valWF tt 64 v && (valueByTag C tt 8 v a.member).isSome` should do (a member found by
  tag within the fuel is a field of `getStructFields` with that tag, the tags being pairwise
  different); that needs an induction like `fieldsLoop_rowSpec` without `tagsOfVal`: NOT proved. -/

namespace L2RowsEx

/-- `type T3 struct { *E; A string "a" }`, `string`, `type E struct { X string "x" }`, `*E` -/
def ttNilEmb : TypeTable := #[
  { kind := .struct, kindStr := "struct", name := bs "T3", fields := [
      { name := bs "E", tag := #[], exported := true, anon := true, ty := 3 },
      { name := bs "A", tag := bs "a", exported := true, anon := false, ty := 1 }] },
  { kind := .string, kindStr := "string", name := #[] },
  { kind := .struct, kindStr := "struct", name := bs "E", fields := [
      { name := bs "X", tag := bs "x", exported := true, anon := false, ty := 1 }] },
  { kind := .ptr, kindStr := "ptr", name := #[], elem := 2 } ]

/-- `T3{E: nil, A: a1}` -/
def argNilEmb : GoVal :=
  .struct { t := 0, zero := false, r := "{T3}" }
    [.ptr { t := 3, zero := true, r := "nil" } none, .leaf { t := 1, zero := false, r := "a1" }]

def segsT3a : List OSeg := [{ kind := .member, raw := bs "$T3.a", types := [{ ty := bs "T3", member := bs "a" }] }]

end L2RowsEx

open L2RowsEx in
/-- the guard is not the weakest: a nil embedded `*E`; the model binds `$T3.a`, the predicate is true
    of its observation, the guard is false (only `tagsOfVal` fails) -/
theorem c03valsGuards_not_weakest :
    (L2RowsEx.modelObs ttNilEmb segsT3a [some 0] [argNilEmb]).map (·.params) = some [("sqlair_0", "a1")] ∧
    (L2RowsEx.modelObs ttNilEmb segsT3a [some 0] [argNilEmb]).map (holdsC03vals C ttNilEmb segsT3a [argNilEmb]) = some true ∧
    c03valsGuards C ttNilEmb segsT3a [argNilEmb] = false ∧
    embPtrOK ttNilEmb = true ∧ valWF ttNilEmb 64 argNilEmb = true ∧ tagsOfVal C ttNilEmb 8 argNilEmb = none := by
  decide +kernel

end Sqlair
