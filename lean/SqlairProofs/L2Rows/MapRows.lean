/-
  L2Rows/MapRows: the rows that are maps: `(cols) VALUES ($M.*)` over a map sample `M`, run with
  an `M`, `*M`, `[]M` or `[]*M`: the typed columns are map-key locators, one per written
  column, and the values sent are, row by row, the values of the keys.
-/
import SqlairProofs.L2Rows.Shape
import SqlairProofs.Typed.Locate

namespace Sqlair

/-- one typed column per written column: the key of the map, explicit -/
def mapColsE (tid : Nat) (n : Bytes) (keys : List Bytes) : List TCol :=
  keys.map fun k => TCol.insert (.mapKey tid n k) k true

theorem colInsertCols_map {ty : Bytes} {tid : Nat} {n : Bytes} : ∀ (cs : List Col) (st st' : TEB) (acc cols : List TCol),
    (∃ k, st.argInfos.find? (fun p => p.1 == ty) = some (k, .map tid n)) →
    colInsertCols [] (some ty) st cs acc = .ok (cols, st') →
    cols = acc ++ mapColsE tid n (cs.map (·.str)) ∧ st'.exprs = st.exprs := by
  intro cs
  induction cs with
  | nil =>
    intro st st' acc cols _ h
    simp only [colInsertCols] at h
    cases h
    exact ⟨by simp [mapColsE], rfl⟩
  | cons c rest ih =>
    intro st st' acc cols hfind h
    unfold colInsertCols at h
    simp only [List.find?_nil] at h
    unfold inputMember at h
    cases hg : getArg st ty with
    | error x => simp [hg] at h
    | ok r =>
      obtain ⟨ai, st1⟩ := r
      obtain ⟨⟨k1, hf1⟩, hinf1, hex1⟩ := getArg_find' hg
      obtain ⟨k, hfind'⟩ := hfind
      rw [hfind'] at hf1
      cases hf1
      simp only [hg, ArgInfo.getMember] at h
      obtain ⟨h1, h2⟩ := ih _ _ _ _ ⟨_, by rw [hinf1]; exact hfind'⟩ h
      exact ⟨by rw [h1]; simp [mapColsE], by rw [h2, hex1]⟩

/-- the typed expression of `(cols) VALUES ($M.*)` over a map sample -/
theorem bindSeg_colInsert_map {st st' : TEB} {s : OSeg} {a : Acc} {k : Bytes} {tid : Nat} {n : Bytes}
    (h : bindSeg st s = .ok st') (hk : s.kind = .colInsert) (ht : s.types = [a]) (hm : a.member = star)
    (hfind : st.argInfos.find? (fun p => p.1 == a.ty) = some (k, .map tid n)) :
    st'.exprs = st.exprs ++ [.insert (mapColsE tid n (s.cols.map (·.str)))] := by
  unfold bindSeg at h
  rw [hk, ht] at h
  simp only [colInsertProviders, hm, beq_self_eq_true, if_true] at h
  cases hg : getArg st a.ty with
  | error x => simp [hg] at h
  | ok r =>
    obtain ⟨ai, st1⟩ := r
    obtain ⟨⟨k1, hf1⟩, hinf1, hex1⟩ := getArg_find' hg
    rw [hfind] at hf1
    cases hf1
    simp only [hg, Option.isSome_none, Bool.false_eq_true, if_false] at h
    split at h
    · cases h
    · rename_i cols st3 hc
      cases h
      obtain ⟨h1, h2⟩ := colInsertCols_map _ _ _ _ _ ⟨k, by rw [hinf1]; exact hfind⟩ hc
      show st3.exprs ++ _ = _
      rw [h2, hex1, h1]
      simp

/-- the values the model locates for a key -/
def kVals (tt : TypeTable) (m : TypeToValue) (tid : Nat) (n : Bytes) (k : Bytes) : List String :=
  match locateParams tt m (.mapKey tid n k) with
  | .ok p => p.vals
  | .error _ => []

theorem locateParams_mapKey_om {tt : TypeTable} {m : TypeToValue} {tid : Nat} {n k : Bytes} {p : Params}
    (h : locateParams tt m (.mapKey tid n k) = .ok p) : p.om = false := by
  cases locateParams_ok_iff.1 h <;> rfl

theorem colsBound_mapColsE {tt : TypeTable} {m : TypeToValue} {tid : Nat} {n : Bytes} :
    ∀ {keys : List Bytes} {bcs : List BCol}, ColsBound tt m (mapColsE tid n keys) bcs →
    (keptCols bcs).map (·.vals) = keys.map (kVals tt m tid n) ∧
    (∀ k ∈ keys, ∃ p, locateParams tt m (.mapKey tid n k) = .ok p) ∧
    (∀ bc ∈ bcs, ∃ k ∈ keys, ∃ p, locateParams tt m (.mapKey tid n k) = .ok p ∧ bc.vals = p.vals ∧
      bc.bulk = p.bulk) ∧
    (keys ≠ [] → bcs ≠ []) := by
  intro keys
  induction keys with
  | nil =>
    intro bcs h
    cases bcs with
    | nil => exact ⟨rfl, by simp, by simp, by simp⟩
    | cons _ _ => exact absurd h (by simp [mapColsE, ColsBound])
  | cons k rest ih =>
    intro bcs h
    cases bcs with
    | nil => exact absurd h (by simp [mapColsE, ColsBound])
    | cons bc bcs =>
      obtain ⟨h1, h2⟩ : ColBound tt m (TCol.insert (.mapKey tid n k) k true) bc ∧
          ColsBound tt m (mapColsE tid n rest) bcs := h
      obtain ⟨p, hp, hv, hom, hb, _, _, _⟩ := h1
      obtain ⟨i1, i3, i4, _⟩ := ih h2
      have hbo : bc.om = false := hom.trans (locateParams_mapKey_om hp)
      have hkv : kVals tt m tid n k = p.vals := by simp [kVals, hp]
      refine ⟨?_, ?_, ?_, by simp⟩
      · simp only [keptCols, List.filter_cons, hbo, Bool.not_false, if_true, List.map_cons, hkv, hv]
        exact congrArg _ i1
      · intro k' hk'
        rcases List.mem_cons.1 hk' with rfl | hk'
        · exact ⟨p, hp⟩
        · exact i3 k' hk'
      · intro b hb'
        rcases List.mem_cons.1 hb' with rfl | hb'
        · exact ⟨k, List.mem_cons_self, p, hp, hv, hb⟩
        · obtain ⟨k', hk', x⟩ := i4 b hb'
          exact ⟨k', List.mem_cons_of_mem _ hk', x⟩

/-- the search by tag of `holdsC04rows` in a row that is a map or a pointer to a map is the
    look-up of the key -/
theorem valueByTag_of_mapElemVal {C : Cls} {tt : TypeTable} {k : Bytes} {e v : GoVal}
    (h : mapElemVal k e = some v) : valueByTag C tt 8 e k = some v := by
  unfold mapElemVal at h
  cases e with
  | map hd kv => simpa [bulkElem, valueByTag] using h
  | ptr hd p =>
    cases p with
    | none => simp [bulkElem] at h
    | some p =>
      cases p with
      | map hd' kv => simpa [bulkElem, valueByTag] using h
      | _ => simp [bulkElem] at h
  | _ => simp [bulkElem] at h

/-- THE MISSING STEP for map rows: either the argument is a pointer to a slice (the predicate
    does not look into it) or the values added to the parameters are, row by row, the values of
    the keys `keys` in the rows of the argument, each found by `valueByTag` -/
theorem insert_vals_rect_map {tt : TypeTable} {m : TypeToValue} {qb qb' : QB} {tid : Nat} {n : Bytes}
    {keys : List Bytes} {arg : GoVal} (hm : validateInputs tt [arg] [] = .ok m)
    (hs : addToQuery tt m qb (.insert (mapColsE tid n keys)) = .ok qb') (hne : keys ≠ []) :
    (∃ hd hd' els, arg = .ptr hd (some (.slice hd' els))) ∨
    (∃ news, qb'.params = qb.params ++ news ∧
        news.map (·.2) = ((rowsOfArg arg).map fun row => keys.map fun k => mapElemR k row).flatten ∧
        ∀ row ∈ rowsOfArg arg, ∀ k ∈ keys, ∃ fv, mapElemVal k row = some fv ∧ fv.h.r = mapElemR k row) := by
  obtain ⟨bcs, numRows, st⟩ := addToQuery_insert_spec hs
  obtain ⟨hkept, hloc, hbcs, hbne⟩ := colsBound_mapColsE st.cols
  obtain ⟨rfl, hvv⟩ := validateInputs_single hm
  have fin : numRows = (rowsOfArg arg).length →
      (∀ k ∈ keys, ∀ r row, (rowsOfArg arg)[r]? = some row →
        colValAt (kVals tt [((indirect arg).tid, indirect arg)] tid n k) r = some (mapElemR k row) ∧
        ∃ fv, mapElemVal k row = some fv) →
      (∃ news, qb'.params = qb.params ++ news ∧
        news.map (·.2) = ((rowsOfArg arg).map fun row => keys.map fun k => mapElemR k row).flatten ∧
        ∀ row ∈ rowsOfArg arg, ∀ k ∈ keys, ∃ fv, mapElemVal k row = some fv ∧ fv.h.r = mapElemR k row) := by
    intro hnum hF
    refine ⟨_, st.params, ?_, ?_⟩
    · rw [insParams_vals, hkept, hnum, ← List.flatMap_def]
      conv => rhs; rw [flatMap_eq_range]
      apply flatMap_range_congr
      intro r hr
      rw [List.getElem?_eq_getElem hr]
      simp only
      rw [List.filterMap_map]
      apply filterMap_eq_map_of_some
      intro k hk
      exact (hF k hk r _ (List.getElem?_eq_getElem hr)).1
    · intro row hrow k hk
      obtain ⟨r, hr, hre⟩ := List.mem_iff_getElem.1 hrow
      obtain ⟨fv, hfv⟩ := (hF k hk r row (by rw [List.getElem?_eq_getElem hr, hre])).2
      exact ⟨fv, hfv, by simp [mapElemR, hfv]⟩
  obtain ⟨k0, rest0, rfl⟩ := List.exists_cons_of_ne_nil hne
  cases hget : ttvGet [((indirect arg).tid, indirect arg)] tid with
  | some v =>
    right
    have hget' := hget
    rw [ttvGet_single] at hget
    have htid : (indirect arg).tid = tid := by
      by_cases h : ((indirect arg).tid == tid) = true
      · simpa using h
      · simp [h] at hget
    have hv : v = indirect arg := by simp [htid] at hget; exact hget.symm
    subst hv
    have hall : ∀ k ∈ k0 :: rest0, ∃ p hd kv v', indirect arg = .map hd kv ∧ mapIndex kv k = some v' ∧
        locateParams tt [((indirect arg).tid, indirect arg)] (.mapKey tid n k) = .ok p ∧
        p.bulk = false ∧ p.vals = [v'.h.r] := by
      intro k hk
      obtain ⟨p, hp⟩ := hloc k hk
      cases locateParams_ok_iff.1 hp with
      | @mapKey _ _ _ hd kv v' hg hk' =>
        rw [hget'] at hg
        exact ⟨_, hd, kv, v', Option.some.inj hg, hk', hp, rfl, rfl⟩
      | mapKeyBulk hg _ _ _ => rw [hget'] at hg; cases hg
    obtain ⟨_, hd0, kv0, _, hind0, _⟩ := hall k0 List.mem_cons_self
    have hrows1 : rowsOfArg arg = [arg] ∧ bulkElem arg = .ok (.map hd0 kv0) := by
      cases arg with
      | ptr hd p =>
        cases p with
        | none => simp [validateValue] at hvv
        | some p => simp only [indirect] at hind0; subst hind0; exact ⟨rfl, rfl⟩
      | slice hd els => simp [indirect] at hind0
      | map hd kv => simp only [indirect] at hind0; cases hind0; exact ⟨rfl, rfl⟩
      | _ => simp [indirect] at hind0
    have hnum : numRows = 1 := by
      apply st.no_bulk
      intro bc hbc
      obtain ⟨k, hk, p, hp, _, hb⟩ := hbcs bc hbc
      obtain ⟨p', _, _, _, _, _, hp', hb', _⟩ := hall k hk
      rw [hp] at hp'; cases hp'
      exact hb.trans hb'
    refine fin (by rw [hrows1.1]; exact hnum) ?_
    intro k hk r row hr
    rw [hrows1.1] at hr
    cases r with
    | succ r => simp at hr
    | zero =>
      simp at hr; subst hr
      obtain ⟨p, hd, kv, v', hind, hmi, hp, _, hpv⟩ := hall k hk
      rw [hind0] at hind
      cases hind
      have hme : mapElemVal k arg = some v' := by simp [mapElemVal, hrows1.2, hmi]
      exact ⟨by simp [kVals, hp, hpv, colValAt, mapElemR, hme], v', hme⟩
  | none =>
    obtain ⟨p0, hp0⟩ := hloc k0 List.mem_cons_self
    cases locateParams_ok_iff.1 hp0 with
    | mapKey hg _ => rw [hget] at hg; cases hg
    | @mapKeyBulk _ _ _ hd' els _ hbulk _ _ =>
    obtain ⟨hind, _⟩ := locateBulk_single hbulk
    by_cases hptr : ∃ hd p, arg = .ptr hd (some p)
    · obtain ⟨hd, p, rfl⟩ := hptr
      left
      exact ⟨hd, hd', els, by simp only [indirect] at hind; rw [hind]⟩
    right
    have harg : arg = .slice hd' els := by
      cases arg with
      | ptr hd p =>
        cases p with
        | none => simp [validateValue] at hvv
        | some p => exact absurd ⟨hd, p, rfl⟩ hptr
      | _ => simpa [indirect] using hind.symm
    subst harg
    have hrowsE : rowsOfArg (.slice hd' els) = els := rfl
    simp only [indirect, GoVal.tid, GoVal.h] at hbulk hget hloc hbcs hkept fin ⊢
    have hall : ∀ k ∈ k0 :: rest0, ∃ p, locateParams tt [(hd'.t, GoVal.slice hd' els)] (.mapKey tid n k) = .ok p ∧
        p.bulk = true ∧ p.vals = els.map (mapElemR k) ∧ ∀ e ∈ els, (mapElemVal k e).isSome = true := by
      intro k hk
      obtain ⟨p, hp⟩ := hloc k hk
      cases locateParams_ok_iff.1 hp with
      | mapKey hg _ => rw [hget] at hg; cases hg
      | mapKeyBulk _ hb2 _ hall2 =>
        rw [hbulk] at hb2
        cases hb2
        exact ⟨_, hp, rfl, rfl, hall2⟩
    have hnum : numRows = els.length := by
      obtain ⟨bc, bcs', hbcs'⟩ := List.exists_cons_of_ne_nil (hbne (by simp))
      have hbc : bc ∈ bcs := by rw [hbcs']; exact List.mem_cons_self
      obtain ⟨k, hk, p, hp, hv, hb⟩ := hbcs bc hbc
      obtain ⟨p', hp', hb', hl', _⟩ := hall k hk
      rw [hp] at hp'; cases hp'
      rw [← st.bulk_len bc hbc (hb.trans hb'), hv, hl']
      simp
    refine fin (by rw [hrowsE]; exact hnum) ?_
    intro k hk r row hr
    rw [hrowsE] at hr
    obtain ⟨p, hp, _, hl, hsome⟩ := hall k hk
    have hrl : r < els.length := (List.getElem?_eq_some_iff.1 hr).1
    refine ⟨?_, Option.isSome_iff_exists.1 (hsome row (List.mem_of_getElem? hr))⟩
    simp only [kVals, hp, hl]
    rw [colValAt_of_lt (by simpa using hrl)]
    simp [hr]

end Sqlair
