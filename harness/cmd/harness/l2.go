package main

import (
	"encoding/hex"
	"context"
	"encoding/json"
	"flag"
	"fmt"
	"reflect"
	"sort"
	"strings"
	"sync"
	"sync/atomic"
	"time"

	"github.com/canonical/sqlair"

	"verifharness/internal/desc"
	"verifharness/internal/fakedrv"
	"verifharness/internal/lean"
	"verifharness/internal/qgen"
	"verifharness/internal/rng"
	"verifharness/internal/zoo"
)

// hotNames: types with unusual tags or member kinds, picked more often.
var hotNames = map[string]bool{"Tags": true, "Kinds": true, "OmitKinds": true, "Graded": true}

func zooSchema() *qgen.Schema {
	s := &qgen.Schema{}
	for _, e := range zoo.Entries {
		td := qgen.TypeDesc{Name: e.Name, Kind: e.Kind, Tags: e.Tags, Rare: e.Bad,
			Hot: !e.Bad && (embedDepth(e.Type, 0) >= 3 || hotNames[e.Name])}
		if e.Kind == "slice" {
			et := e.Type.Elem()
			if et.Kind() == reflect.Pointer {
				et = et.Elem()
			}
			if ee, ok := zoo.ByName(et.Name()); ok && ee.Type == et {
				td.Elem = ee.Name
			}
		}
		s.Types = append(s.Types, td)
	}
	return s
}

// embedDepth is the number of struct levels below t reached through embedded fields.
func embedDepth(t reflect.Type, guard int) int {
	for t.Kind() == reflect.Pointer {
		t = t.Elem()
	}
	if t.Kind() != reflect.Struct || guard > 8 {
		return 0
	}
	d := 0
	for i := 0; i < t.NumField(); i++ {
		f := t.Field(i)
		if f.Anonymous && f.Tag.Get("db") == "" {
			if x := 1 + embedDepth(f.Type, guard+1); x > d {
				d = x
			}
		}
	}
	return d
}

// l2Case is one (query, samples, args) case; values are real Go values.
type l2Case struct {
	Q       string
	Samples []any
	Args    []any
	Note    []string
	// Clean: the arguments before any perturbation (what a correct caller would pass)
	Clean []any
	// PreSamples: the sample list before any perturbation; when set, the text is prepared with
	// it first (a correct caller's Prepare), then with the perturbed list
	PreSamples []any
}

// l2Directed: bulk sources of different lengths where the odd one contributes no column at
// all (every member omitempty and zero), in both source orders and in the explicit form;
// the same with equal lengths (accepted); a zero single value next to a bulk source.
// OmitEmb reaches an omitempty member through a struct embedded by pointer (C04n: the
// member behind a nil embedded pointer of a later bulk element counted as "empty").
type OmitInner struct {
	Note string `db:"note,omitempty"`
}

type OmitEmb struct {
	ID int `db:"id"`
	*OmitInner
}

var l2Directed = []l2Case{
	{Q: "INSERT INTO t (*) VALUES ($OmitEmb.*)", Samples: []any{OmitEmb{}},
		Args: []any{[]OmitEmb{{1, &OmitInner{"a"}}, {2, &OmitInner{"b"}}, {3, nil}}}},
	{Q: "INSERT INTO t (*) VALUES ($OmitEmb.*)", Samples: []any{OmitEmb{}},
		Args: []any{[]OmitEmb{{1, nil}, {2, &OmitInner{"b"}}}}},
	{Q: "INSERT INTO t (*) VALUES ($OmitEmb.*)", Samples: []any{OmitEmb{}},
		Args: []any{[]*OmitEmb{{1, &OmitInner{"a"}}, {2, nil}, {3, nil}}}},
	{Q: "INSERT INTO t (*) VALUES ($OmitEmb.*)", Samples: []any{OmitEmb{}},
		Args: []any{[]OmitEmb{{1, &OmitInner{"a"}}, {2, &OmitInner{""}}}}},
	{Q: "INSERT INTO t (*) VALUES ($OmitEmb.*)", Samples: []any{OmitEmb{}},
		Args: []any{OmitEmb{1, nil}}},
	{Q: "INSERT INTO t (id, note) VALUES ($OmitEmb.*)", Samples: []any{OmitEmb{}},
		Args: []any{[]OmitEmb{{1, &OmitInner{"a"}}, {2, nil}}}},
	{Q: "INSERT INTO t (*) VALUES ($Person.*, $OmitAll.*)", Samples: []any{zoo.Person{}, zoo.OmitAll{}},
		Args: []any{[]zoo.Person{{ID: 1, Name: "a"}, {ID: 2, Name: "b"}, {ID: 3, Name: "c"}}, []zoo.OmitAll{{}, {}}}},
	{Q: "INSERT INTO t (*) VALUES ($OmitAll.*, $Person.*)", Samples: []any{zoo.Person{}, zoo.OmitAll{}},
		Args: []any{[]zoo.Person{{ID: 1, Name: "a"}, {ID: 2, Name: "b"}, {ID: 3, Name: "c"}}, []zoo.OmitAll{{}, {}}}},
	{Q: "INSERT INTO t (*) VALUES ($Person.*, $OmitAll.*)", Samples: []any{zoo.Person{}, zoo.OmitAll{}},
		Args: []any{[]zoo.Person{{ID: 1, Name: "a"}, {ID: 2, Name: "b"}}, []*zoo.OmitAll{{}, {}, {}, {}}}},
	{Q: "INSERT INTO t (*) VALUES ($Person.*, $OmitAll.*)", Samples: []any{zoo.Person{}, zoo.OmitAll{}},
		Args: []any{[]zoo.Person{{ID: 1, Name: "a"}, {ID: 2, Name: "b"}}, []zoo.OmitAll{{}, {}}}},
	{Q: "INSERT INTO t (*) VALUES ($Person.*, $OmitAll.*)", Samples: []any{zoo.Person{}, zoo.OmitAll{}},
		Args: []any{[]zoo.Person{{ID: 1, Name: "a"}, {ID: 2, Name: "b"}}, zoo.OmitAll{}}},
	{Q: "INSERT INTO t (*) VALUES ($Person.*, $OmitAll.*)", Samples: []any{zoo.Person{}, zoo.OmitAll{}},
		Args: []any{[]zoo.Person{{ID: 1, Name: "a"}, {ID: 2, Name: "b"}, {ID: 3, Name: "c"}}, []zoo.OmitAll{{Auto: 1}, {Auto: 2}}}},
}

// typeUse collects how the query uses each type name.
type typeUse struct {
	standalone bool // used in a member/slice input outside an insert
	inInsert   bool
	output     bool
	members    []string
}

func usesOf(q string) (map[string]*typeUse, []string, any, bool) {
	obs := parsedNodes(q)
	if ok, _ := obs["ok"].(bool); !ok {
		return nil, nil, obs, false
	}
	uses := map[string]*typeUse{}
	var order []string
	get := func(n string) *typeUse {
		if uses[n] == nil {
			uses[n] = &typeUse{}
			order = append(order, n)
		}
		return uses[n]
	}
	for _, s := range obs["segs"].([]any) {
		m := s.(map[string]any)
		kind := m["k"].(string)
		for _, t := range m["types"].([]any) {
			tm := t.(map[string]any)
			u := get(unhx(tm["t"].(string)))
			u.members = append(u.members, unhx(tm["m"].(string)))
			switch kind {
			case "output":
				u.output = true
			case "member", "slice":
				u.standalone = true
			default:
				u.inInsert = true
			}
		}
		for _, v := range m["vals"].([]any) {
			vm := v.(map[string]any)
			if _, lit := vm["lit"]; lit {
				continue
			}
			u := get(unhx(vm["t"].(string)))
			u.members = append(u.members, unhx(vm["m"].(string)))
			u.inInsert = true
		}
		if kind == "colinsert" {
			// spare columns come from the asterisk map: make them available as keys
			for _, c := range m["cols"].([]any) {
				cm := c.(map[string]any)
				for _, t := range m["types"].([]any) {
					tm := t.(map[string]any)
					u := get(unhx(tm["t"].(string)))
					col := unhx(cm["c"].(string))
					if tb := unhx(cm["t"].(string)); tb != "" {
						col = tb + "." + col
					}
					u.members = append(u.members, col)
				}
			}
		}
	}
	return uses, order, obs, true
}

type anon struct {
	A int `db:"a"`
}

// genL2 builds a case around a generated query.
func genL2(r *rng.R, g *qgen.G, seeds []string) (*l2Case, bool) {
	var q string
	focusBulk := false
	switch {
	case r.Chance(1, 8):
		// insert-focused stream: types with omitempty members, mostly bulk arguments
		t := r.Pick([]string{"Omit", "Omit", "OmitKinds", "OmitKinds", "Loc", "EmbPtr", "Deep", "Person", "MS"})
		focusBulk = true
		switch r.Intn(4) {
		case 0:
			e, _ := zoo.ByName(t)
			cols := append([]string{}, e.Tags...)
			for i := range cols {
				j := r.Intn(i + 1)
				cols[i], cols[j] = cols[j], cols[i]
			}
			if len(cols) > 0 {
				cols = cols[:1+r.Intn(len(cols))]
			}
			if e.Kind == "map" {
				q = "INSERT INTO t (" + strings.Join(cols, ", ") + ") VALUES ($" + t + ".*)"
			} else {
				q = "INSERT INTO t (" + strings.Join(cols, ", ") + ") VALUES ($" + t + ".*)"
			}
		case 1:
			q = "INSERT INTO t (*) VALUES ($" + t + ".*, $M.k)"
		default:
			q = "INSERT INTO t (*) VALUES ($" + t + ".*)"
		}
		if t == "MS" && !strings.Contains(q, "(*)") == false {
			q = "INSERT INTO t (k, id) VALUES ($MS.*)"
		}
		// standalone inputs textually before and after the insert form (numbering is shared)
		switch r.Intn(6) {
		case 0:
			q = "WITH n(x) AS (SELECT $Person.name) " + q
		case 1:
			q = "WITH n(x, y) AS (SELECT $Address.id, $Address.street) " + q + " RETURNING $Address.district"
		case 2:
			q = q + " ON CONFLICT (id) DO UPDATE SET name = $Person.name"
		}
	case r.Chance(3, 4):
		q = g.Skeleton()
	default:
		q = g.Query(seeds)
	}
	uses, order, _, ok := usesOf(q)
	if !ok {
		return &l2Case{Q: q}, false
	}
	c := &l2Case{Q: q}
	// samples
	for _, n := range order {
		if e, ok := zoo.ByName(n); ok {
			c.Samples = append(c.Samples, reflect.Zero(e.Type).Interface())
		}
	}
	cleanSamples := append([]any{}, c.Samples...)
	if r.Chance(1, 6) {
		switch r.Intn(10) {
		case 9:
			// one sample given twice instead of another: same length, same set of names minus one
			if len(c.Samples) > 1 {
				i := r.Intn(len(c.Samples))
				j := (i + 1 + r.Intn(len(c.Samples)-1)) % len(c.Samples)
				c.Samples[i] = c.Samples[j]
				c.Note = append(c.Note, "sample-replaced-by-duplicate")
			}
		case 0:
			if len(c.Samples) > 0 {
				i := r.Intn(len(c.Samples))
				c.Samples = append(c.Samples[:i:i], c.Samples[i+1:]...)
				c.Note = append(c.Note, "sample-dropped")
			}
		case 1:
			e := zoo.Entries[r.Intn(len(zoo.Entries))]
			c.Samples = append(c.Samples, reflect.Zero(e.Type).Interface())
			c.Note = append(c.Note, "sample-extra")
		case 2:
			if len(c.Samples) > 0 {
				c.Samples = append(c.Samples, c.Samples[r.Intn(len(c.Samples))])
				c.Note = append(c.Note, "sample-duplicate")
			}
		case 3:
			for n, t := range zoo.Shadows {
				if uses[n] != nil {
					c.Samples = append(c.Samples, reflect.Zero(t).Interface())
					c.Note = append(c.Note, "sample-shadow-added")
					break
				}
			}
		case 4:
			if len(c.Samples) > 0 {
				i := r.Intn(len(c.Samples))
				p := reflect.New(reflect.TypeOf(c.Samples[i]))
				c.Samples[i] = p.Interface()
				c.Note = append(c.Note, "sample-pointer")
			}
		case 5:
			c.Samples = append(c.Samples, nil)
			c.Note = append(c.Note, "sample-nil")
		case 6:
			c.Samples = append(c.Samples, anon{})
			c.Samples = append(c.Samples, struct{ X int }{})
			c.Note = append(c.Note, "sample-anonymous")
		case 7:
			c.Samples = append(c.Samples, 42)
			c.Note = append(c.Note, "sample-int")
		default:
			for i, s := range c.Samples {
				if t, ok := zoo.Shadows[reflect.TypeOf(s).Name()]; ok {
					c.Samples[i] = reflect.Zero(t).Interface()
					c.Note = append(c.Note, "sample-shadow-replaced")
					break
				}
			}
		}
	}
	if len(c.Note) > 0 && r.Chance(1, 2) {
		c.PreSamples = cleanSamples
	}
	if r.Chance(1, 3) {
		for i := range c.Samples {
			j := r.Intn(i + 1)
			c.Samples[i], c.Samples[j] = c.Samples[j], c.Samples[i]
		}
	}
	// arguments
	bulkN := 1 + r.Intn(3)
	for _, n := range order {
		u := uses[n]
		if !u.standalone && !u.inInsert {
			continue
		}
		e, ok := zoo.ByName(n)
		if !ok {
			continue
		}
		f := &desc.Filler{R: r.Fork(), Keys: u.members}
		f.N = r.Intn(1000) * 100
		var arg any
		canBulk := u.inInsert && !u.standalone && e.Kind != "slice"
		switch {
		case canBulk && (r.Chance(1, 3) || (focusBulk && r.Chance(2, 3))):
			ln := bulkN
			if focusBulk {
				ln = 2 + r.Intn(3)
			}
			if r.Chance(1, 8) {
				ln = r.Intn(4)
			}
			if r.Chance(1, 2) {
				st := reflect.SliceOf(e.Type)
				s := reflect.MakeSlice(st, ln, ln)
				for i := 0; i < ln; i++ {
					s.Index(i).Set(f.Fill(e.Type, 0))
				}
				f.HarmoniseOmitEmpty(s)
				arg = s.Interface()
				if r.Chance(1, 6) {
					p := reflect.New(st)
					p.Elem().Set(s)
					arg = p.Interface()
				}
				c.Note = append(c.Note, "arg-[]T")
			} else {
				st := reflect.SliceOf(reflect.PointerTo(e.Type))
				s := reflect.MakeSlice(st, ln, ln)
				for i := 0; i < ln; i++ {
					if r.Chance(1, 15) {
						continue // nil pointer element
					}
					p := reflect.New(e.Type)
					p.Elem().Set(f.Fill(e.Type, 0))
					s.Index(i).Set(p)
				}
				f.HarmoniseOmitEmpty(s)
				arg = s.Interface()
				c.Note = append(c.Note, "arg-[]*T")
			}
		case r.Chance(1, 3):
			p := reflect.New(e.Type)
			p.Elem().Set(f.Fill(e.Type, 0))
			arg = p.Interface()
			c.Note = append(c.Note, "arg-*T")
		default:
			arg = f.Fill(e.Type, 0).Interface()
			c.Note = append(c.Note, "arg-T")
		}
		c.Args = append(c.Args, arg)
	}
	c.Clean = append([]any{}, c.Args...)
	if r.Chance(1, 8) || (focusBulk && r.Chance(1, 4)) {
		// one of several bulk arguments cut to a single element (a slice of maps first): slices
		// of different lengths are rejected, a slice of one element is still a slice
		var bulk []int
		for i, a := range c.Args {
			if a == nil {
				continue
			}
			if v := reflect.ValueOf(a); v.Kind() == reflect.Slice && v.Type().Name() == "" && v.Len() >= 2 {
				bulk = append(bulk, i)
			}
		}
		if len(bulk) >= 2 {
			pick := bulk[r.Intn(len(bulk))]
			for _, i := range bulk {
				et := reflect.TypeOf(c.Args[i]).Elem()
				if et.Kind() == reflect.Map || (et.Kind() == reflect.Pointer && et.Elem().Kind() == reflect.Map) {
					pick = i
				}
			}
			c.Args[pick] = reflect.ValueOf(c.Args[pick]).Slice(0, 1).Interface()
			c.Note = append(c.Note, "bulk-cut-to-one")
		}
		// ... or an argument all of whose elements are zero (every omitempty member omitted),
		// one element shorter than the others: still a slice of another length
		if len(bulk) >= 2 && r.Chance(1, 2) {
			for _, i := range bulk {
				v := reflect.ValueOf(c.Args[i])
				if et := v.Type().Elem(); et.Kind() == reflect.Struct && strings.Contains(et.Name(), "Omit") && v.Len() >= 2 {
					z := reflect.MakeSlice(v.Type(), v.Len()-1, v.Len()-1)
					c.Args[i] = z.Interface()
					c.Note = append(c.Note, "bulk-zero-and-shorter")
					break
				}
			}
		}
	}
	if r.Chance(1, 12) || (focusBulk && r.Chance(1, 4)) {
		// both slice forms of one type, []T and []*T, filled with different values: the
		// statement must use []T for every column and reject the unused []*T
		for _, a := range c.Args {
			v := reflect.ValueOf(a)
			t := v.Type()
			if t.Kind() != reflect.Slice || t.Name() != "" || v.Len() == 0 {
				continue
			}
			et := t.Elem()
			var other reflect.Value
			if et.Kind() == reflect.Pointer {
				if k := et.Elem().Kind(); k != reflect.Struct && k != reflect.Map {
					continue
				}
				other = reflect.MakeSlice(reflect.SliceOf(et.Elem()), v.Len(), v.Len())
				f := &desc.Filler{R: r.Fork(), Keys: []string{"k"}}
				for i := 0; i < v.Len(); i++ {
					other.Index(i).Set(f.Fill(et.Elem(), 0))
				}
			} else if et.Kind() == reflect.Struct || et.Kind() == reflect.Map {
				other = reflect.MakeSlice(reflect.SliceOf(reflect.PointerTo(et)), v.Len(), v.Len())
				f := &desc.Filler{R: r.Fork(), Keys: []string{"k"}}
				for i := 0; i < v.Len(); i++ {
					p := reflect.New(et)
					p.Elem().Set(f.Fill(et, 0))
					other.Index(i).Set(p)
				}
			} else {
				continue
			}
			if r.Chance(1, 2) {
				c.Args = append(c.Args, other.Interface())
			} else {
				c.Args = append([]any{other.Interface()}, c.Args...)
			}
			c.Note = append(c.Note, "arg-both-slice-forms")
			break
		}
	}
	if r.Chance(1, 5) {
		switch r.Intn(14) {
		case 12, 13:
			// a foreign type with the same name IN ADDITION to the needed argument
			for _, a := range c.Args {
				t := reflect.TypeOf(a)
				form := 0
				for t.Kind() == reflect.Pointer || (t.Kind() == reflect.Slice && t.Name() == "") {
					if t.Kind() == reflect.Slice {
						form = 1
						if t.Elem().Kind() == reflect.Pointer {
							form = 2
						}
					}
					t = t.Elem()
				}
				if st, ok := zoo.Shadows[t.Name()]; ok && t != st {
					var extra any
					switch form {
					case 1:
						extra = reflect.MakeSlice(reflect.SliceOf(st), 1, 1).Interface()
					case 2:
						sl := reflect.MakeSlice(reflect.SliceOf(reflect.PointerTo(st)), 1, 1)
						sl.Index(0).Set(reflect.New(st))
						extra = sl.Interface()
					default:
						v := reflect.New(st).Elem()
						if st.Kind() == reflect.Map {
							v.Set(reflect.MakeMap(st))
						}
						extra = v.Interface()
					}
					if r.Chance(1, 2) {
						c.Args = append(c.Args, extra)
					} else {
						c.Args = append([]any{extra}, c.Args...)
					}
					c.Note = append(c.Note, "arg-shadow-added")
					break
				}
			}
		case 0:
			if len(c.Args) > 0 {
				i := r.Intn(len(c.Args))
				c.Args = append(c.Args[:i:i], c.Args[i+1:]...)
				c.Note = append(c.Note, "arg-dropped")
			}
		case 1:
			e := zoo.Entries[r.Intn(len(zoo.Entries))]
			f := &desc.Filler{R: r.Fork(), Keys: []string{"k"}}
			c.Args = append(c.Args, f.Fill(e.Type, 0).Interface())
			c.Note = append(c.Note, "arg-extra")
		case 2:
			if len(c.Args) > 0 {
				a := c.Args[r.Intn(len(c.Args))]
				if a != nil && r.Chance(1, 2) {
					// the second occurrence in pointer form, holding other values: still the
					// same type twice (whichever value won, one would be lost)
					t := reflect.TypeOf(a)
					if t.Kind() == reflect.Pointer {
						t = t.Elem()
					}
					f := &desc.Filler{R: r.Fork(), Keys: []string{"k", "id", "name"}}
					f.N = r.Intn(1000) * 100
					p := reflect.New(t)
					p.Elem().Set(f.Fill(t, 0))
					c.Args = append(c.Args, p.Interface())
					c.Note = append(c.Note, "arg-duplicate-pointer")
				} else {
					c.Args = append(c.Args, a)
					c.Note = append(c.Note, "arg-duplicate")
				}
			}
		case 3:
			if len(c.Args) > 0 {
				a := c.Args[r.Intn(len(c.Args))]
				t := reflect.TypeOf(a)
				if t.Kind() == reflect.Pointer {
					t = t.Elem()
				}
				if t.Kind() == reflect.Struct || t.Kind() == reflect.Map {
					var st reflect.Type
					if r.Chance(1, 2) {
						st = reflect.SliceOf(t)
					} else {
						st = reflect.SliceOf(reflect.PointerTo(t))
					}
					s := reflect.MakeSlice(st, 1, 1)
					if r.Chance(1, 2) {
						c.Args = append(c.Args, s.Interface())
					} else {
						c.Args = append([]any{s.Interface()}, c.Args...)
					}
					c.Note = append(c.Note, "arg-type-and-slice")
				}
			}
		case 4:
			if len(c.Args) > 0 {
				i := r.Intn(len(c.Args))
				t := reflect.TypeOf(c.Args[i])
				if t.Kind() != reflect.Pointer {
					t = reflect.PointerTo(t)
				}
				c.Args[i] = reflect.Zero(t).Interface()
				c.Note = append(c.Note, "arg-nil-pointer")
			}
		case 5:
			for i, a := range c.Args {
				if reflect.TypeOf(a).Kind() == reflect.Map {
					c.Args[i] = reflect.Zero(reflect.TypeOf(a)).Interface()
					c.Note = append(c.Note, "arg-nil-map")
					break
				}
			}
		case 6:
			for i, a := range c.Args {
				if t, ok := zoo.Shadows[reflect.TypeOf(a).Name()]; ok {
					c.Args[i] = reflect.Zero(t).Interface()
					if t.Kind() == reflect.Map {
						c.Args[i] = reflect.MakeMap(t).Interface()
					}
					c.Note = append(c.Note, "arg-shadow")
					break
				}
			}
		case 7:
			if len(c.Args) > 0 {
				i := r.Intn(len(c.Args))
				v := reflect.ValueOf(c.Args[i])
				if v.Kind() == reflect.Pointer {
					pp := reflect.New(v.Type())
					pp.Elem().Set(v)
					c.Args[i] = pp.Interface()
					c.Note = append(c.Note, "arg-**T")
				}
			}
		case 8:
			c.Args = append(c.Args, anon{A: 1})
			c.Note = append(c.Note, "arg-anonymous")
		case 9:
			c.Args = append(c.Args, []int{1, 2})
			c.Note = append(c.Note, "arg-anonymous-slice")
		case 10:
			c.Args = append(c.Args, 7)
			c.Note = append(c.Note, "arg-int")
		default:
			c.Args = append(c.Args, nil)
			c.Note = append(c.Note, "arg-nil")
		}
	}
	if r.Chance(1, 14) {
		// a slice form ([]T, []*T, *[]T) of one or two elements in place of a T / *T
		// argument: acceptable only if T is used inside insert expressions only
		for i, a := range c.Args {
			v := reflect.ValueOf(a)
			if !v.IsValid() {
				continue
			}
			if v.Kind() == reflect.Pointer && !v.IsNil() {
				v = v.Elem()
			}
			t := v.Type()
			if (t.Kind() != reflect.Struct && t.Kind() != reflect.Map) || t.Name() == "" {
				continue
			}
			n := 1 + r.Intn(2)
			var sl reflect.Value
			if r.Chance(1, 2) {
				sl = reflect.MakeSlice(reflect.SliceOf(t), n, n)
				for k := 0; k < n; k++ {
					sl.Index(k).Set(v)
				}
			} else {
				sl = reflect.MakeSlice(reflect.SliceOf(reflect.PointerTo(t)), n, n)
				for k := 0; k < n; k++ {
					p := reflect.New(t)
					p.Elem().Set(v)
					sl.Index(k).Set(p)
				}
			}
			c.Args[i] = sl.Interface()
			if r.Chance(1, 5) {
				p := reflect.New(sl.Type())
				p.Elem().Set(sl)
				c.Args[i] = p.Interface()
			}
			c.Note = append(c.Note, "arg-slice-in-place-of-T")
			break
		}
	}
	if r.Chance(1, 3) {
		for i := range c.Args {
			j := r.Intn(i + 1)
			c.Args[i], c.Args[j] = c.Args[j], c.Args[i]
		}
	}
	return c, true
}

// l2Env is the database the cases run against.
type l2Env struct {
	db    *sqlair.DB
	state *fakedrv.State
}

func newL2Env() *l2Env {
	sqldb, st := fakedrv.Open()
	sqldb.SetMaxOpenConns(4)
	st.SetScript(fakedrv.Script{Columns: []string{"c"}})
	return &l2Env{db: sqlair.NewDB(sqldb), state: st}
}

type l2Run struct {
	prepOk  bool
	prepErr string
	bindOk  bool
	bindErr string
	runErr  string
	sql     string
	params  [][2]string
	mode    string
	events  int
	panic   string
}

func (r *l2Run) obs() map[string]any {
	ps := []any{}
	for _, p := range r.params {
		ps = append(ps, []any{p[0], p[1]})
	}
	return map[string]any{"prepOk": r.prepOk, "prepErr": hx(r.prepErr), "bindOk": r.bindOk, "bindErr": hx(r.bindErr),
		"sql": hx(r.sql), "params": ps, "mode": r.mode, "events": r.events, "runErr": r.runErr}
}

func (r *l2Run) key() string {
	return fmt.Sprint(r.prepOk, r.bindOk, r.sql, r.params, r.mode)
}

var l2mu sync.Mutex

// runL2Case prepares and runs on a private database (so the log is this case's only).
func runL2Case(c *l2Case, samples, args []any) (res *l2Run) {
	res = &l2Run{mode: "none"}
	defer func() {
		if p := recover(); p != nil {
			res.panic = fmt.Sprint(p)
		}
	}()
	env := newL2Env()
	defer env.db.PlainDB().Close()
	if c.PreSamples != nil {
		sqlair.Prepare(c.Q, c.PreSamples...) // (its outcome is another case's subject)
	}
	stmt, err := sqlair.Prepare(c.Q, samples...)
	if err != nil {
		res.prepErr = err.Error()
		return res
	}
	res.prepOk = true
	err = env.db.Query(context.Background(), stmt, args...).Run()
	evs := env.state.Events()
	for _, e := range evs {
		switch e.Kind {
		case "prepare":
			res.sql = e.SQL
			res.events++
		case "exec", "query":
			res.mode = e.Kind
			res.events++
			for i, n := range e.Names {
				res.params = append(res.params, [2]string{n, e.Args[i]})
			}
		}
	}
	if err != nil {
		msg := err.Error()
		if strings.HasPrefix(msg, "invalid input parameter: ") {
			res.bindErr = msg
			return res
		}
		res.runErr = msg
	}
	res.bindOk = true
	return res
}

// altArgs builds other values of the same types (same map keys, same slice lengths).
func altArgs(r *rng.R, args []any) []any {
	out := make([]any, len(args))
	for i, a := range args {
		if a == nil {
			continue
		}
		v := reflect.ValueOf(a)
		nv := reflect.New(v.Type()).Elem()
		copyShape(r, v, nv, 0)
		out[i] = nv.Interface()
	}
	return out
}

// copyShape fills dst with values different from src but of the same shape.
func copyShape(r *rng.R, src, dst reflect.Value, depth int) {
	if !dst.CanSet() || depth > 8 {
		return
	}
	switch src.Kind() {
	case reflect.Pointer:
		if src.IsNil() {
			return
		}
		p := reflect.New(src.Type().Elem())
		copyShape(r, src.Elem(), p.Elem(), depth+1)
		dst.Set(p)
	case reflect.Interface:
		if src.IsNil() {
			return
		}
		nv := reflect.New(src.Elem().Type()).Elem()
		copyShape(r, src.Elem(), nv, depth+1)
		dst.Set(nv)
	case reflect.Struct:
		for i := 0; i < src.NumField(); i++ {
			copyShape(r, src.Field(i), dst.Field(i), depth+1)
		}
	case reflect.Map:
		if src.IsNil() {
			return
		}
		m := reflect.MakeMap(src.Type())
		it := src.MapRange()
		for it.Next() {
			ev := reflect.New(src.Type().Elem()).Elem()
			copyShape(r, it.Value(), ev, depth+1)
			m.SetMapIndex(it.Key(), ev)
		}
		dst.Set(m)
	case reflect.Slice:
		if src.IsNil() {
			return
		}
		sl := reflect.MakeSlice(src.Type(), src.Len(), src.Len())
		for i := 0; i < src.Len(); i++ {
			copyShape(r, src.Index(i), sl.Index(i), depth+1)
		}
		dst.Set(sl)
	case reflect.Int, reflect.Int8, reflect.Int16, reflect.Int32, reflect.Int64:
		if !src.IsZero() {
			dst.SetInt(int64(r.Intn(100) + 1))
		}
	case reflect.Uint, reflect.Uint8, reflect.Uint16, reflect.Uint32, reflect.Uint64:
		if !src.IsZero() {
			dst.SetUint(uint64(r.Intn(100) + 1))
		}
	case reflect.String:
		if !src.IsZero() {
			dst.SetString(fmt.Sprintf("alt%d", r.Intn(1000)))
		}
	case reflect.Float32, reflect.Float64:
		if !src.IsZero() {
			dst.SetFloat(float64(r.Intn(1000)) + 0.125)
		}
	case reflect.Bool:
		dst.SetBool(src.Bool())
	}
}

// runL2Interleaved builds two Queries on one Statement (the case's arguments, then other
// values of the same shape) before running the first: its SQL and arguments must be what
// it produces when run alone (C16).
func runL2Interleaved(c *l2Case, alt []any) (res *l2Run) {
	res = &l2Run{mode: "none"}
	defer func() {
		if p := recover(); p != nil {
			res.panic = fmt.Sprint(p)
		}
	}()
	env := newL2Env()
	defer env.db.PlainDB().Close()
	stmt, err := sqlair.Prepare(c.Q, c.Samples...)
	if err != nil {
		return res
	}
	res.prepOk = true
	q1 := env.db.Query(context.Background(), stmt, c.Args...)
	q2 := env.db.Query(context.Background(), stmt, alt...)
	_ = q2
	err = q1.Run()
	for _, e := range env.state.Events() {
		switch e.Kind {
		case "prepare":
			res.sql = e.SQL
		case "exec", "query":
			res.mode = e.Kind
			for i, n := range e.Names {
				res.params = append(res.params, [2]string{n, e.Args[i]})
			}
		}
	}
	if err != nil && strings.HasPrefix(err.Error(), "invalid input parameter: ") {
		return res
	}
	res.bindOk = true
	return res
}

// runL2After runs the case's arguments on a Statement that has already been run once with
// `first`: what the second run sends (or its rejection) must be what a fresh Statement
// produces for the same arguments (C16; a rejection that disappears is C08's subject).
func runL2After(c *l2Case, first []any) (res *l2Run) {
	res = &l2Run{mode: "none"}
	defer func() {
		if p := recover(); p != nil {
			res.panic = fmt.Sprint(p)
		}
	}()
	env := newL2Env()
	defer env.db.PlainDB().Close()
	stmt, err := sqlair.Prepare(c.Q, c.Samples...)
	if err != nil {
		res.prepErr = err.Error()
		return res
	}
	res.prepOk = true
	_ = env.db.Query(context.Background(), stmt, first...).Run()
	n0 := len(env.state.Events())
	err = env.db.Query(context.Background(), stmt, c.Args...).Run()
	evs := env.state.Events()
	sqlOf := map[int]string{}
	for _, e := range evs {
		if e.Kind == "prepare" {
			sqlOf[e.Stmt] = e.SQL
		}
	}
	for _, e := range evs[n0:] {
		switch e.Kind {
		case "exec", "query":
			res.mode = e.Kind
			res.sql = sqlOf[e.Stmt]
			for i, n := range e.Names {
				res.params = append(res.params, [2]string{n, e.Args[i]})
			}
		}
	}
	if err != nil && strings.HasPrefix(err.Error(), "invalid input parameter: ") {
		res.bindErr = err.Error()
		return res
	}
	res.bindOk = true
	return res
}

// swapLengths exchanges the lengths of two slice arguments of different lengths: the same
// total number of inputs, split differently over the expressions. nil if there are none.
func swapLengths(r *rng.R, args []any) []any {
	var idx []int
	for i, a := range args {
		if a == nil {
			continue
		}
		if v := reflect.ValueOf(a); v.Kind() == reflect.Slice && v.Type().Elem().Kind() != reflect.Uint8 {
			idx = append(idx, i)
		}
	}
	resize := func(v reflect.Value, n int) any {
		out := reflect.MakeSlice(v.Type(), n, n)
		f := &desc.Filler{R: r.Fork(), Keys: []string{"k", "id", "name"}}
		f.N = r.Intn(1000) * 100
		for k := 0; k < n; k++ {
			if k < v.Len() {
				out.Index(k).Set(v.Index(k))
			} else {
				out.Index(k).Set(f.Fill(v.Type().Elem(), 0))
			}
		}
		return out.Interface()
	}
	for x := 0; x < len(idx); x++ {
		for y := x + 1; y < len(idx); y++ {
			vi, vj := reflect.ValueOf(args[idx[x]]), reflect.ValueOf(args[idx[y]])
			if vi.Len() != vj.Len() {
				out := append([]any{}, args...)
				out[idx[x]] = resize(vi, vj.Len())
				out[idx[y]] = resize(vj, vi.Len())
				return out
			}
		}
	}
	return nil
}

// refill builds fresh values of the arguments' types (other zero patterns, other lengths).
func refill(r *rng.R, args []any) []any {
	out := make([]any, len(args))
	for i, a := range args {
		if a == nil {
			continue
		}
		f := &desc.Filler{R: r.Fork(), Keys: []string{"k", "id", "name"}}
		f.N = r.Intn(1000) * 100
		out[i] = f.Fill(reflect.TypeOf(a), 0).Interface()
	}
	return out
}

func l2Request(c *l2Case, res *l2Run) map[string]any {
	tbl := desc.NewTable()
	samples := []any{}
	for _, s := range c.Samples {
		if s == nil {
			samples = append(samples, nil)
		} else {
			samples = append(samples, tbl.ID(reflect.TypeOf(s)))
		}
	}
	args := []any{}
	for _, a := range c.Args {
		if a == nil {
			args = append(args, nil)
		} else {
			args = append(args, tbl.Val(reflect.ValueOf(a)))
		}
	}
	obs := parsedNodes(c.Q)
	segs := obs["segs"]
	return map[string]any{"k": "l2", "q": hx(c.Q), "segs": segs, "tt": tbl.Descs, "samples": samples, "args": args,
		"cls": tbl.Cls(), "qcls": clsOf(c.Q), "noParserCheck": !hooksAvailable, "obs": res.obs()}
}

func describeL2(c *l2Case) map[string]any {
	var ss, as []string
	for _, s := range c.Samples {
		ss = append(ss, fmt.Sprintf("%T", s))
	}
	for _, a := range c.Args {
		as = append(as, fmt.Sprintf("%#v", a))
	}
	return map[string]any{"q": hx(c.Q), "text": printable(c.Q), "samples": ss, "args": as, "notes": c.Note}
}

var l2Props = []string{"C01", "C02", "C03", "C04", "C05", "C07", "C08"}

// concurrentFirstUse: for zoo structs that take no part in an embedding pair (those are
// firstUseOrder's), eight goroutines prepare and run an asterisk insert over the type at
// the same moment, the very first time the process meets the type; then one more does so
// alone.  All nine must send the same SQL and arguments, and what is sent must be what the
// model sends (C16: concurrent Prepare calls that race on first use of a type).
func concurrentFirstUse(rep *Report, cl *lean.Client, r *rng.R) int {
	inPair := map[reflect.Type]bool{}
	for _, outer := range zoo.Entries {
		if outer.Kind != "struct" {
			continue
		}
		for i := 0; i < outer.Type.NumField(); i++ {
			f := outer.Type.Field(i)
			ft := f.Type
			if ft.Kind() == reflect.Pointer {
				ft = ft.Elem()
			}
			if f.Anonymous && ft.Kind() == reflect.Struct {
				inPair[outer.Type] = true
				inPair[ft] = true
			}
		}
	}
	n := 0
	for _, e := range append(append([]zoo.Entry{}, zoo.Entries...), zoo.WideOnly...) {
		if e.Bad || e.Kind != "struct" || len(e.Tags) < 3 || inPair[e.Type] {
			continue
		}
		fl := &desc.Filler{R: r.Fork(), Keys: []string{"k"}}
		fl.N = r.Intn(1000) * 100
		c := &l2Case{Q: "INSERT INTO t (*) VALUES ($" + e.Name + ".*)", Samples: []any{reflect.Zero(e.Type).Interface()},
			Args: []any{fl.Fill(e.Type, 0).Interface()}}
		outFlavour := n%2 == 1
		if outFlavour {
			// every other type: the type is already known to the process through a single
			// member (prepared alone, beforehand); what the goroutines meet for the first time
			// is its asterisk, here in an output expression
			pre := &l2Case{Q: "SELECT &" + e.Name + "." + e.Tags[0] + " FROM t", Samples: c.Samples}
			runL2Case(pre, pre.Samples, nil)
			c = &l2Case{Q: "SELECT &" + e.Name + ".* FROM t", Samples: c.Samples}
		}
		const g = 16
		res := make([]*l2Run, g)
		start := make(chan struct{})
		var wg sync.WaitGroup
		// (woken by the channel one after the other, the goroutines then wait for each other
		// on a counter: they enter Prepare within a fraction of a microsecond)
		var arrived atomic.Int32
		for i := 0; i < g; i++ {
			wg.Add(1)
			go func(i int) {
				defer wg.Done()
				<-start
				arrived.Add(1)
				for spin := 0; arrived.Load() < g && spin < 2000000; spin++ {
				}
				res[i] = runL2Case(c, c.Samples, c.Args)
			}(i)
		}
		close(start)
		wg.Wait()
		alone := runL2Case(c, c.Samples, c.Args)
		n++
		bad := ""
		for i := 0; i < g; i++ {
			if res[i].panic != "" {
				rep.addCrash(Finding{Case: describeL2(c), Kind: "crash", Detail: "panic during concurrent first use of a type: " + res[i].panic})
			} else if res[i].key() != alone.key() {
				bad = fmt.Sprintf("concurrent Prepare calls that met the type for the first time did not all produce what a later call produces: %v vs %v", res[i].obs(), alone.obs())
			}
		}
		if bad == "" && alone.panic == "" {
			if resp, err := cl.Call(l2Request(c, alone)); err == nil && !getBool(resp, "agree") {
				bad = fmt.Sprintf("after concurrent first use of the type the statement is not the one the model sends: %v vs %v", alone.obs(), resp["model"])
			}
		}
		if bad != "" {
			rep.addHolds("C16", Finding{Case: describeL2(c), Kind: "holds", Detail: bad, Holds: map[string]bool{"C16": false}, Impl: alone.obs()})
			if outFlavour {
				// the columns an output asterisk expands to are C05's
				rep.addHolds("C05", Finding{Case: describeL2(c), Kind: "holds", Detail: bad, Holds: map[string]bool{"C05": false}, Impl: alone.obs()})
			}
		}
	}
	return n
}

// firstUseOrder is run before anything else has touched the process-wide type information
// cache: for every zoo struct that embeds another zoo struct, a statement over the embedded
// type is prepared and run FIRST (or the embedding one first, by coin flip), then the other,
// then the first again, on the old Statement and on a fresh one.  What is sent must not
// depend on which of the two types the process met first (C16).
func firstUseOrder(rep *Report, r *rng.R) int {
	n := 0
	for _, outer := range zoo.Entries {
		if outer.Bad || outer.Kind != "struct" || len(outer.Tags) == 0 {
			continue
		}
		for i := 0; i < outer.Type.NumField(); i++ {
			f := outer.Type.Field(i)
			ft := f.Type
			if ft.Kind() == reflect.Pointer {
				ft = ft.Elem()
			}
			if !f.Anonymous || f.Tag.Get("db") != "" || ft.Kind() != reflect.Struct {
				continue
			}
			inner, ok := zoo.ByName(ft.Name())
			if !ok || inner.Bad || inner.Type != ft || len(inner.Tags) == 0 {
				continue
			}
			mk := func(e zoo.Entry) *l2Case {
				fl := &desc.Filler{R: r.Fork(), Keys: []string{"k"}}
				fl.N = r.Intn(1000) * 100
				q := "INSERT INTO t (*) VALUES ($" + e.Name + ".*)"
				if r.Chance(1, 2) {
					q = "SELECT &" + e.Name + ".* FROM t WHERE a = $" + e.Name + "." + e.Tags[r.Intn(len(e.Tags))]
				}
				v := fl.Fill(e.Type, 0)
				return &l2Case{Q: q, Samples: []any{reflect.Zero(e.Type).Interface()}, Args: []any{v.Interface()}}
			}
			a, b := mk(inner), mk(outer)
			if r.Chance(1, 3) {
				a, b = b, a
			}
			first := runL2Case(a, a.Samples, a.Args)
			runL2Case(b, b.Samples, b.Args)
			again := runL2Case(a, a.Samples, a.Args)
			n++
			if first.panic == "" && again.panic == "" && first.key() != again.key() {
				rep.addHolds("C16", Finding{Case: describeL2(a), Kind: "holds",
					Detail: fmt.Sprintf("the same statement and arguments gave a different result after a statement over %s had been prepared for the first time in the process: first %v, later %v", describeL2(b)["samples"], first.obs(), again.obs()),
					Holds: map[string]bool{"C16": false}, Impl: again.obs()})
			}
		}
	}
	return n
}

func firstN(s string, n int) string {
	if len(s) > n {
		return s[:n]
	}
	return s
}

// siblingStatement derives, from a statement with an output expression of several targets,
// the statement in which the last target names another member of the same type.
func siblingStatement(c *l2Case) (recentStmt, bool) {
	obs := parsedNodes(c.Q)
	segs, _ := obs["segs"].([]any)
	off := 0
	for _, sj := range segs {
		sm, _ := sj.(map[string]any)
		rawHex, _ := sm["raw"].(string)
		raw, _ := hex.DecodeString(rawHex)
		types, _ := sm["types"].([]any)
		if sm["k"] == "output" && len(types) >= 2 {
			// the target right after the first one if it names a member, else the last
			last, _ := types[1].(map[string]any)
			if m1, _ := hex.DecodeString(fmt.Sprint(last["m"])); string(m1) == "*" {
				last, _ = types[len(types)-1].(map[string]any)
			}
			tn, _ := hex.DecodeString(fmt.Sprint(last["t"]))
			mem, _ := hex.DecodeString(fmt.Sprint(last["m"]))
			if e, ok := zoo.ByName(string(tn)); ok && string(mem) != "*" {
				for _, tag := range e.Tags {
					old := "&" + string(tn) + "." + string(mem)
					if tag != string(mem) && strings.Count(string(raw), old) == 1 && !strings.ContainsAny(tag, "\"' ") {
						nraw := strings.Replace(string(raw), old, "&"+string(tn)+"."+tag, 1)
						return recentStmt{c.Q[:off] + nraw + c.Q[off+len(raw):], c.Samples}, true
					}
				}
			}
		}
		off += len(raw)
	}
	return recentStmt{}, false
}

type recentStmt struct {
	q       string
	samples []any
}

// runL2PrepareBetween prepares the case's statement, then prepares the given other
// statements, then runs the case's statement.
func runL2PrepareBetween(c *l2Case, others []recentStmt) (res *l2Run) {
	return runL2PrepareAround(c, nil, others)
}

// wsVariants are texts that differ from the query in white space only (also inside
// literals and comments, where it matters): whatever was prepared earlier in the process,
// a statement sends its own bytes.
func wsVariants(c *l2Case) []recentStmt {
	q := c.Q
	var out []recentStmt
	if strings.Contains(q, " ") {
		out = append(out, recentStmt{strings.ReplaceAll(q, " ", "  "), c.Samples})
	}
	if strings.ContainsAny(q, "\n\t") {
		out = append(out, recentStmt{strings.NewReplacer("\n", " ", "\t", " ").Replace(q), c.Samples})
	}
	out = append(out, recentStmt{" " + q + "\n", c.Samples})
	return out
}

// runL2PrepareAround prepares the statements of before, then the case's statement, then
// those of between, then runs the case's statement.
func runL2PrepareAround(c *l2Case, before, others []recentStmt) (res *l2Run) {
	res = &l2Run{mode: "none"}
	defer func() {
		if p := recover(); p != nil {
			res.panic = fmt.Sprint(p)
		}
	}()
	env := newL2Env()
	defer env.db.PlainDB().Close()
	for _, o := range before {
		sqlair.Prepare(o.q, o.samples...)
	}
	stmt, err := sqlair.Prepare(c.Q, c.Samples...)
	if err != nil {
		res.prepErr = err.Error()
		return res
	}
	res.prepOk = true
	for _, o := range others {
		sqlair.Prepare(o.q, o.samples...)
	}
	err = env.db.Query(context.Background(), stmt, c.Args...).Run()
	for _, e := range env.state.Events() {
		switch e.Kind {
		case "prepare":
			res.sql = e.SQL
		case "exec", "query":
			res.mode = e.Kind
			for i, n := range e.Names {
				res.params = append(res.params, [2]string{n, e.Args[i]})
			}
		}
	}
	if err != nil && strings.HasPrefix(err.Error(), "invalid input parameter: ") {
		res.bindErr = err.Error()
		return res
	}
	res.bindOk = true
	return res
}

type earlyCase struct {
	c   *l2Case
	key string
	obs map[string]any
}

func runL2(args []string) {
	var early []earlyCase
	var recent []recentStmt
	fs := flag.NewFlagSet("l2", flag.ExitOnError)
	n := fs.Int("n", 1500, "number of generated cases")
	seed := fs.Uint64("seed", 1, "seed")
	tier := fs.String("tier", "quick", "tier")
	driver := fs.String("driver", "/verif/lean/.lake/build/bin/driver", "lean driver")
	out := fs.String("out", "", "report file")
	repo := fs.String("repo", "/repo", "repository")
	replay := fs.String("replay", "", "replay: case seed")
	conc := fs.Int("conc", 0, "concurrent re-runs per case (C16)")
	fs.Parse(args)
	_ = replay

	cl, err := lean.Start(*driver)
	if err != nil {
		fatalf("cannot start driver: %v", err)
	}
	defer cl.Close()
	modelClient = cl
	rep := newReport("l2", *seed, *tier)
	if !hooksAvailable {
		rep.Notes = append(rep.Notes, "degraded mode: hooks not available, the bind model is fed the parser model's nodes")
	}
	rep.Rule = "queries from the grammar over the zoo's type names and tags (3/4 conventional statements, 1/4 soup/mutations), " +
		"samples and arguments built by reflection with perturbations (missing/extra/duplicate (also in pointer form with other values)/shadow/pointer/nil/anonymous/one bulk argument cut to one element; forms T,*T,[]T,[]*T,*[]T,**T); " +
		"every statement also run: with permuted samples and arguments, interleaved with another Query of the same Statement, after a first run (other values, the unperturbed arguments, the same number of inputs split differently), " +
		"with sibling statements prepared between Prepare and run, with texts differing in white space only prepared first; plus directed scenarios (very long SQL, concurrent first use of types, first-use order, concurrent growth of input counts, concurrent Prepare of sixteen different texts, bulk-insert Queries of one Statement built before either runs); " +
		"non-trivial = Prepare succeeded and at least one input or output was bound, or a rejection by Prepare/Query; distinct by hash of query+sample types+argument values"
	r := rng.New(*seed)
	g := qgen.New(r.Fork(), zooSchema())
	seeds := repoTestQueries(*repo)

	notes := map[string]int{}
	outcome := map[string]int{}
	errClasses := map[string]int{}
	hyp := map[string]int{}
	parseRejected := 0

	bigSQL := func() {
		// a statement whose generated SQL is far beyond any buffer size a builder might pool
		// (tens of thousands of placeholders): it must be sent right, and so must every
		// statement after it (they are the run's ordinary cases)
		n := 20000 + r.Intn(20000)
		ints := make(zoo.Ints, n)
		for i := range ints {
			ints[i] = i
		}
		c := &l2Case{Q: "DELETE FROM t WHERE a IN ($Ints[:])", Samples: []any{zoo.Ints{}}, Args: []any{ints}}
		res := runL2Case(c, c.Samples, c.Args)
		// on the same goroutine, right after it: a statement without expressions arrives
		// unchanged, one with an input arrives as its text with the placeholder
		for _, f := range []struct{ q, want string }{
			{"SELECT name FROM t -- plain\n", "SELECT name FROM t -- plain\n"},
			{"SELECT x FROM t WHERE a = $Person.id", "SELECT x FROM t WHERE a = @sqlair_0"},
			{"UPDATE t SET b = 'x'", "UPDATE t SET b = 'x'"},
		} {
			fc := &l2Case{Q: f.q}
			if strings.Contains(f.q, "$Person") {
				fc.Samples, fc.Args = []any{zoo.Person{}}, []any{zoo.Person{ID: 7}}
			}
			fr := runL2Case(fc, fc.Samples, fc.Args)
			if fr.panic == "" && fr.prepOk && fr.bindOk && fr.sql != f.want {
				rep.addHolds("C01", Finding{Case: map[string]any{"q": hx(f.q), "text": printable(f.q), "after": fmt.Sprintf("a statement with %d slice elements", n)}, Kind: "holds",
					Detail: fmt.Sprintf("after a very long statement the next one was not sent as written: the driver received %d bytes beginning %q, expected %q", len(fr.sql), firstN(fr.sql, 60), f.want),
					Holds: map[string]bool{"C01": false}})
			}
		}
		// and with nothing in between: the long statement is only bound (its Query built), the
		// short ones are built and run at once, several times over
		func() {
			defer func() { recover() }()
			env := newL2Env()
			defer env.db.PlainDB().Close()
			big, err1 := sqlair.Prepare(c.Q, c.Samples...)
			plain, err2 := sqlair.Prepare("SELECT name FROM t -- plain\n")
			if err1 != nil || err2 != nil {
				return
			}
			for k := 0; k < 5; k++ {
				_ = env.db.Query(context.Background(), big, c.Args...)
				_ = env.db.Query(context.Background(), plain).Run()
			}
			for _, e := range env.state.Events() {
				if e.Kind == "prepare" && e.SQL != "SELECT name FROM t -- plain\n" {
					rep.addHolds("C01", Finding{Case: map[string]any{"q": hx("SELECT name FROM t -- plain\n"), "text": "SELECT name FROM t -- plain", "after": fmt.Sprintf("binding a statement with %d slice elements", n)}, Kind: "holds",
						Detail: fmt.Sprintf("right after a very long statement was bound, a statement without expressions was not sent as written: the driver received %d bytes beginning %q", len(e.SQL), firstN(e.SQL, 60)),
						Holds: map[string]bool{"C01": false}})
					break
				}
			}
		}()
		hyp["big-sql-statements"]++
		want := "DELETE FROM t WHERE a IN (@sqlair_0"
		if res.panic != "" || !res.bindOk || !strings.HasPrefix(res.sql, want) || strings.Count(res.sql, "@sqlair_") != n || len(res.params) != n ||
			!strings.HasSuffix(res.sql, fmt.Sprintf(", @sqlair_%d)", n-1)) {
			rep.addHolds("C01", Finding{Case: map[string]any{"q": hx(c.Q), "text": printable(c.Q), "args": fmt.Sprintf("zoo.Ints of length %d", n)}, Kind: "holds",
				Detail: fmt.Sprintf("a statement with %d slice elements was not sent as the query text with its placeholders: %d bytes beginning %q", n, len(res.sql), firstN(res.sql, 80)),
				Holds: map[string]bool{"C01": false}})
		}
	}
	// directed (round 13): concurrent Prepare of different texts; Queries built before either runs
	if *replay == "" {
		for _, w := range concPrepare(60, 16) {
			f := Finding{Case: map[string]any{"directed": "concurrent Prepare of 16 different texts"}, Kind: "holds", Detail: w}
			rep.addHolds("C01", f)
			rep.addHolds("C16", f)
		}
		hyp["concurrent-prepare-rounds"] = 60
		for _, w := range buildBuildRun() {
			f := Finding{Case: map[string]any{"directed": "bulk-insert Queries of one Statement built before either runs"}, Kind: "holds", Detail: w}
			rep.addHolds("C04", f)
			rep.addHolds("C16", f)
		}
		hyp["build-build-run-orders"] = 7
		for _, w := range wrappedArgs() {
			rep.addHolds("C08", Finding{Case: map[string]any{"directed": "argument list passed as one []any"}, Kind: "holds", Detail: w})
		}
		hyp["wrapped-argument-lists"] = 28
		for _, w := range retryRejected() {
			f := Finding{Case: map[string]any{"directed": "an invalid argument list passed again to the same Statement"}, Kind: "holds", Detail: w}
			rep.addHolds("C08", f)
			rep.addHolds("C16", f)
		}
		hyp["retried-invalid-lists"] = 30
	}
	hyp["concurrent-growth-calls"] = concurrentGrowth(rep)
	hyp["concurrent-first-use-types"] = concurrentFirstUse(rep, cl, r.Fork())
	hyp["first-use-order-pairs"] = firstUseOrder(rep, r.Fork())
	for i := 0; i < *n; i++ {
		if i == 40 || i == *n/2 {
			bigSQL()
		}
		if hangCount >= maxHangs {
			rep.Notes = append(rep.Notes, fmt.Sprintf("stopped after %d of %d cases: %d calls hung", i, *n, hangCount))
			break
		}
		cr := r.Fork()
		c, ok := genL2(cr, g, seeds)
		if i < len(l2Directed) {
			// a few directed cases first: shapes the generator reaches too rarely
			d := l2Directed[i]
			c, ok = &l2Case{Q: d.Q, Samples: d.Samples, Args: d.Args, Clean: d.Args, Note: []string{"directed"}}, true
		}
		if !ok {
			parseRejected++
			continue
		}
		var res *l2Run
		if withWatchdog(15*time.Second, func() { res = runL2Case(c, c.Samples, c.Args) }) {
			rep.countCase(fmt.Sprint(describeL2(c)), true)
			rep.addCrash(Finding{Case: describeL2(c), Kind: "crash", Detail: "Prepare/Query did not return within 15 s (hang)"})
			continue
		}
		for _, nt := range c.Note {
			notes[nt]++
		}
		if res.panic != "" {
			rep.countCase(fmt.Sprint(describeL2(c)), true)
			rep.addCrash(Finding{Case: describeL2(c), Kind: "crash", Detail: "panic: " + res.panic})
			continue
		}
		// determinism (C16): same statement again with permuted arguments, a separately
		// prepared statement with permuted samples, and concurrent runs
		det := true
		detail := ""
		valuesStray := ""
		afterAccepts := "" // arguments a fresh Statement rejects were accepted after a first run (C08)
		wsChanged := ""    // the SQL of a Statement depends on texts prepared earlier that differ in white space (C01)
		sqlChanged := ""   // the SQL of a prepared Statement changed when others were prepared (C05 / C04 / C03 too)
		k2 := func(r *l2Run) string {
			if r.mode == "none" {
				return fmt.Sprint(r.prepOk, r.bindOk, r.mode)
			}
			return r.key()
		}
		{
			a2 := append([]any{}, c.Args...)
			for i := range a2 {
				j := cr.Intn(i + 1)
				a2[i], a2[j] = a2[j], a2[i]
			}
			s2 := append([]any{}, c.Samples...)
			for i := range s2 {
				j := cr.Intn(i + 1)
				s2[i], s2[j] = s2[j], s2[i]
			}
			r2 := runL2Case(c, s2, a2)
			if r2.key() != res.key() {
				det = false
				detail = fmt.Sprintf("permuted samples/arguments gave a different result: %v vs %v", r2.obs(), res.obs())
			}
			if res.prepOk && res.bindOk && len(c.Args) > 0 {
				r3 := runL2Interleaved(c, altArgs(cr, c.Args))
				if r3.key() != res.key() {
					det = false
					if r3.sql == res.sql && fmt.Sprint(r3.params) != fmt.Sprint(res.params) {
						// same SQL, other values behind the placeholders: also C03's subject
						valuesStray = fmt.Sprintf("the arguments handed to the driver are not the values of the supplied arguments once another Query of the same Statement was built in between: %v vs %v", r3.params, res.params)
					}
					detail = fmt.Sprintf("a Query built before another Query of the same Statement ran with different SQL/arguments than alone: %v vs %v", r3.obs(), res.obs())
				}
			}
			if res.prepOk {
				// the same Statement, already run once: with the unperturbed arguments when the
				// case's were perturbed, otherwise with fresh values of the same types
				first := refill(cr, c.Args)
				what := "with other values of the same types"
				if len(c.Clean) != len(c.Args) || fmt.Sprintf("%#v", c.Clean) != fmt.Sprintf("%#v", c.Args) {
					first = c.Clean
					what = "with the unperturbed arguments"
				}
				r4 := runL2After(c, first)
				// without an execution at the driver (rejected, or a value the driver cannot
				// convert) only acceptance is comparable: the SQL is known from the prepare
				// event, which a cached statement does not repeat
				k := func(r *l2Run) string {
					if r.mode == "none" {
						return fmt.Sprint(r.prepOk, r.bindOk, r.mode)
					}
					return r.key()
				}
				if r4.panic == "" && k(r4) != k(res) {
					det = false
					detail = fmt.Sprintf("a Statement that had been run once %s gave a different result than a fresh Statement: %v vs %v", what, r4.obs(), res.obs())
					if r4.bindOk && !res.bindOk {
						afterAccepts = detail
					}
					if r4.sql != res.sql && r4.mode != "none" && res.mode != "none" {
						sqlChanged = detail
					}
				}
				if sw := swapLengths(cr, c.Args); sw != nil && res.bindOk {
					// ... and after a run with as many inputs in all, split differently
					r4b := runL2After(c, sw)
					if r4b.panic == "" && k(r4b) != k(res) {
						det = false
						detail = fmt.Sprintf("a Statement that had been run once with the same number of inputs split differently over its expressions gave a different result than a fresh Statement: %v vs %v", r4b.obs(), res.obs())
						if r4b.sql != res.sql && r4b.mode != "none" && res.mode != "none" {
							sqlChanged = detail
						}
					}
					hyp["same-total-other-split"]++
				}
			}
			if res.prepOk {
				// a sibling of this statement: the same text with the last target of a
				// multi-target output expression changed to another member of its type
				if sib, ok := siblingStatement(c); ok {
					recent = append(recent, sib)
				}
			}
			if res.prepOk && len(recent) > 0 {
				// other statements prepared between this one's Prepare and its run (the last few
				// statements of the run, which often share its types): nothing changes
				r5 := runL2PrepareBetween(c, recent)
				if r5.panic == "" && k2(r5) != k2(res) {
					det = false
					detail = fmt.Sprintf("a Statement sent something else after other statements had been prepared between its Prepare and its run: %v vs %v", r5.obs(), res.obs())
					if r5.sql != res.sql && r5.mode != "none" && res.mode != "none" {
						sqlChanged = detail
					}
				}
			}
			if res.prepOk {
				// texts differing in white space only prepared earlier in the process
				r6 := runL2PrepareAround(c, wsVariants(c), nil)
				if r6.panic == "" && k2(r6) != k2(res) {
					det = false
					detail = fmt.Sprintf("a Statement sent something else after texts differing from it in white space only had been prepared: %v vs %v", r6.obs(), res.obs())
					if r6.sql != res.sql && r6.mode != "none" && res.mode != "none" {
						wsChanged = detail
					}
				}
			}
			if res.prepOk {
				recent = append(recent, recentStmt{c.Q, c.Samples})
				for len(recent) > 6 {
					recent = recent[1:]
				}
			}
			if *conc > 0 && res.prepOk {
				var wg sync.WaitGroup
				keys := make([]string, *conc)
				for k := 0; k < *conc; k++ {
					wg.Add(1)
					go func(k int) {
						defer wg.Done()
						keys[k] = runL2Case(c, c.Samples, c.Args).key()
					}(k)
				}
				wg.Wait()
				for _, k := range keys {
					if k != res.key() {
						det = false
						detail = "concurrent runs gave different results"
					}
				}
			}
		}
		req := l2Request(c, res)
		resp, err := cl.Call(req)
		if err != nil {
			fatalf("driver: %v (case %v)", err, describeL2(c))
		}
		nontrivial := !res.prepOk || !res.bindOk || len(res.params) > 0 || res.mode == "query"
		kb, _ := json.Marshal(req["args"])
		rep.countCase(c.Q+fmt.Sprint(req["samples"])+string(kb), nontrivial)
		switch {
		case !res.prepOk:
			outcome["prepare-rejected"]++
			errClasses[errClass(res.prepErr)]++
		case !res.bindOk:
			outcome["query-rejected"]++
			errClasses[errClass(res.bindErr)]++
		case res.runErr != "" && res.runErr != "sql: no rows in result set":
			outcome["run-error"]++
		default:
			outcome["executed-"+res.mode]++
		}
		if len(rep.Samples) < 6 && nontrivial && r.Chance(1, 30) {
			rep.Samples = append(rep.Samples, map[string]any{"case": describeL2(c), "impl": res.obs()})
		}
		holds := map[string]bool{}
		for _, p := range l2Props {
			holds[p] = getBool(resp, strings.ToLower(p))
		}
		holds["C16"] = det
		if len(early) < 300 {
			early = append(early, earlyCase{c, res.key(), res.obs()})
		}
		if valuesStray != "" {
			holds["C03"] = false
		}
		if afterAccepts != "" {
			holds["C08"] = false
		}
		if wsChanged != "" {
			holds["C01"] = false
		}
		if sqlChanged != "" {
			// which expansion changed decides the property besides C16
			switch {
			case strings.Contains(res.sql, " AS _sqlair_"):
				holds["C05"] = false
			case strings.Contains(strings.ToUpper(res.sql), "VALUES"):
				holds["C04"] = false
			default:
				holds["C03"] = false
			}
		}
		anyBad := false
		for p, ok := range holds {
			if !ok {
				anyBad = true
				d := "property predicate false on the implementation's observation"
				if p == "C16" {
					d = detail
				}
				if p == "C03" && valuesStray != "" {
					d = valuesStray
				}
				if p == "C08" && afterAccepts != "" {
					d = afterAccepts
				}
				if p == "C01" && wsChanged != "" {
					d = wsChanged
				}
				if (p == "C05" || p == "C04" || p == "C03") && sqlChanged != "" && valuesStray == "" {
					d = sqlChanged
				}
				rep.addHolds(p, Finding{Case: describeL2(c), Kind: "holds", Detail: d, Holds: holds, Impl: res.obs(), Model: resp["model"]})
			}
		}
		if wf, ok := resp["argsWF"].(bool); ok {
			if wf {
				hyp["ArgWF-holds"]++
			} else {
				hyp["ArgWF-fails"]++
				rep.Mismatches = appendMismatch(rep.Mismatches, Finding{Case: describeL2(c), Kind: "mismatch",
					Detail: "the value translator produced an argument tree that does not have the shape of its type descriptors: hypothesis ValWF of the no-panic theorems is not met by this input",
					Holds: holds, Impl: res.obs(), Model: resp["model"]}, []string{"C18"})
			}
		}
		if !getBool(resp, "agree") {
			f := Finding{Case: describeL2(c), Kind: "mismatch", Detail: "model and implementation disagree", Holds: holds,
				Impl: res.obs(), Model: resp["model"]}
			b, _ := json.Marshal(map[string]any{"a": resp["affects"]})
			var am struct{ A []string }
			json.Unmarshal(b, &am)
			f2 := f
			_ = anyBad
			rep.Mismatches = appendMismatch(rep.Mismatches, f2, am.A)
		}
	}
	// history independence (C16): the first cases of the run are repeated at its end, after
	// thousands of other statements over the same types were prepared and run in between
	for _, e := range early {
		var again *l2Run
		if withWatchdog(15*time.Second, func() { again = runL2Case(e.c, e.c.Samples, e.c.Args) }) || again == nil || again.panic != "" {
			continue
		}
		if again.key() != e.key {
			rep.addHolds("C16", Finding{Case: describeL2(e.c), Kind: "holds",
				Detail: fmt.Sprintf("the same statement, samples and arguments gave a different result at the end of the run than at its beginning (other statements were prepared in between): first %v, later %v", e.obs, again.obs()),
				Holds: map[string]bool{"C16": false}, Impl: again.obs()})
		}
	}
	hyp["history-independence-rechecked"] = len(early)
	rep.Distribution["theorem_hypotheses"] = hyp
	rep.Distribution["perturbations_and_forms"] = notes
	rep.Distribution["outcomes"] = outcome
	rep.Distribution["error_classes"] = errClasses
	rep.Distribution["parse_rejected_skipped"] = parseRejected
	rep.Distribution["generator_forms"] = g.Forms
	if *out != "" {
		if err := rep.write(*out); err != nil {
			fatalf("write report: %v", err)
		}
	} else {
		b, _ := json.MarshalIndent(rep, "", " ")
		fmt.Println(string(b))
	}
}

func errClass(msg string) string {
	msg = strings.TrimPrefix(msg, "cannot prepare statement: ")
	msg = strings.TrimPrefix(msg, "invalid input parameter: ")
	msg = strings.TrimPrefix(msg, "input expression: ")
	msg = strings.TrimPrefix(msg, "output expression: ")
	// strip quoted parts
	var sb strings.Builder
	inq := false
	for _, r := range msg {
		if r == '"' {
			inq = !inq
			continue
		}
		if !inq {
			sb.WriteRune(r)
		}
	}
	s := sb.String()
	if i := strings.Index(s, ":"); i > 0 {
		s = s[:i]
	}
	if len(s) > 60 {
		s = s[:60]
	}
	return s
}

// mismatchWithAffects carries the attribution computed by the Lean driver.
func appendMismatch(ms []Finding, f Finding, affects []string) []Finding {
	if len(ms) >= maxFindings {
		return ms
	}
	sort.Strings(affects)
	f.Affects = affects
	return append(ms, f)
}
