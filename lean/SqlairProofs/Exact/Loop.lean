/-
  Exactness of expression spans: the main loop, single-environment facts.

  * where `advanceToNextExpression` stops (an expression trigger, a name character, or the
    end of the input), and that it does not move from such a place at offset 0 or at the end;
  * every non-bypass node of a successful parse is the result of `parseOutputExpr` /
    `parseInputExpr` at a state `advanceToNextExpression` stopped at (`ExaNode`);
  * a parse whose first expression starts at offset 0 and ends at the end of the input
    yields exactly that node.
-/
import SqlairProofs.Exact.Defs

namespace Sqlair

section
variable {E : Env}

/-! ### `skipBlanks` at a trigger and at the end of the input -/

theorem exa_trigger_cases {c : Nat} (ht : isExprTrigger c = true) :
    c = 40 ∨ c = 42 ∨ c = 36 ∨ c = 38 := by
  unfold isExprTrigger at ht
  simp only [Bool.or_eq_true, beq_iff_eq] at ht
  omega

theorem exa_skipBlanks_trigger {s : Sc} (ht : isExprTrigger s.char = true) :
    skipBlanks E s = s := by
  have hc := exa_trigger_cases ht
  have h45 : s.char ≠ 45 := by omega
  have h47 : s.char ≠ 47 := by omega
  unfold skipBlanks
  rw [blanksLoop]
  split
  · simp only [skipComment_ne h45 h47, Bool.false_eq_true, if_false]
    rw [if_neg (by omega)]; rfl
  · rfl

theorem exa_skipBlanks_eof {s : Sc} (hp : ¬ s.pos < E.len) : skipBlanks E s = s := by
  unfold skipBlanks
  rw [blanksLoop, if_neg hp]; rfl

/-! ### where `advLoop` stops -/

theorem exa_advLoop_ok_true (f : Nat) {s s1 : Sc} (h : advLoop E f s = (s1, .ok true)) :
    ¬ s1.pos < E.len ∨ isExprTrigger s1.char = true ∨ isNameChar E s1.char = true := by
  induction f generalizing s with
  | zero => unfold advLoop at h; cases h
  | succ f ih =>
    unfold advLoop at h
    split at h
    · split at h
      · cases h
      · exact ih h
      · simp only [] at h
        split at h
        · exact ih h
        split at h
        · next ht => cases h; exact .inr (.inl ht)
        split at h
        · split at h
          · cases h
          split at h
          · next hn => cases h; exact .inr (.inr hn)
          · exact ih h
        · exact ih h
    · next hp => cases h; exact .inl hp

/-- the early `return nil` happens at the end of the input only -/
theorem exa_advLoop_ok_false (f : Nat) {s s1 : Sc} (h : advLoop E f s = (s1, .ok false)) :
    ¬ s1.pos < E.len := by
  induction f generalizing s with
  | zero => unfold advLoop at h; cases h
  | succ f ih =>
    unfold advLoop at h
    split at h
    · split at h
      · cases h
      · exact ih h
      · simp only [] at h
        split at h
        · exact ih h
        split at h
        · cases h
        split at h
        · split at h
          · next hge => cases h; omega
          split at h
          · cases h
          · exact ih h
        · exact ih h
    · cases h

/-- the loop never says not-this -/
theorem exa_advLoop_ne_no (f : Nat) {s s1 : Sc} (h : advLoop E f s = (s1, .no)) : False := by
  induction f generalizing s with
  | zero => unfold advLoop at h; cases h
  | succ f ih =>
    unfold advLoop at h
    split at h
    · split at h
      · cases h
      · exact ih h
      · simp only [] at h
        split at h
        · exact ih h
        split at h
        · cases h
        split at h
        · split at h
          · cases h
          split at h
          · cases h
          · exact ih h
        · exact ih h
    · cases h

/-! ### where `advanceToNextExpression` stops -/

theorem exa_adv_start (hsep : ClassSep E) {s sc1 : Sc}
    (h : advanceToNextExpression E s = (sc1, none)) (hp : sc1.pos < E.len) :
    isExprTrigger sc1.char = true ∨ isNameChar E sc1.char = true := by
  unfold advanceToNextExpression at h
  split at h
  · next hc => cases h; exact .inr hc.2.2
  · split at h
    · cases h
    · next s1 heq =>
      rcases exa_advLoop_ok_true _ heq with he | ht | hn
      · rw [exa_skipBlanks_eof he] at h; cases h; exact absurd hp he
      · rw [exa_skipBlanks_trigger ht] at h; cases h; exact .inl ht
      · rw [skipBlanks_nameChar hsep hn] at h; cases h; exact .inr hn
    · next s1 r hnerr hntrue heq =>
      cases h
      cases r with
      | err e => exact (hnerr e rfl).elim
      | no => exact (exa_advLoop_ne_no _ heq).elim
      | ok b =>
        cases b with
        | true => exact (hntrue rfl).elim
        | false => exact absurd hp (exa_advLoop_ok_false _ heq)

theorem exa_adv_at_eof {s : Sc} (hp : ¬ s.pos < E.len) :
    advanceToNextExpression E s = (s, none) := by
  unfold advanceToNextExpression
  rw [if_neg (fun hc => hp hc.1), advLoop, if_neg hp]
  simp only []
  rw [exa_skipBlanks_eof hp]

theorem exa_adv_at_zero {s : Sc} (hp : s.pos < E.len) (h0 : s.pos = 0)
    (hst : isExprTrigger s.char = true ∨ isNameChar E s.char = true) :
    advanceToNextExpression E s = (s, none) := by
  unfold advanceToNextExpression
  by_cases hn : isNameChar E s.char = true
  · rw [if_pos ⟨hp, h0, hn⟩]
  · have ht : isExprTrigger s.char = true := hst.resolve_right hn
    have hc := exa_trigger_cases ht
    have h34 : s.char ≠ 34 := by omega
    have h39 : s.char ≠ 39 := by omega
    have h45 : s.char ≠ 45 := by omega
    have h47 : s.char ≠ 47 := by omega
    rw [if_neg (fun hc => hn hc.2.2), advLoop, if_pos hp]
    simp only [skipStringLiteral_ne h34 h39, skipComment_ne h45 h47, Bool.false_eq_true,
      if_false, ht, if_true]
    rw [exa_skipBlanks_trigger ht]

/-! ### the nodes of a successful parse -/

/-- where a non-bypass node of a successful parse comes from -/
def ExaNode (E : Env) (x : Seg) : Prop :=
  ∃ s0 sc1 t, Good E s0 ∧ advanceToNextExpression E s0 = (sc1, none) ∧ sc1.pos < E.len ∧
    (parseOutputExpr E sc1 = (t, .ok x) ∨
      (parseOutputExpr E sc1 = (sc1, .no) ∧ parseInputExpr E sc1 = (t, .ok x)))

theorem exa_add_nodes {st : PS} (hall : ∀ x ∈ st.exprs, x.kind = .bypass ∨ ExaNode E x)
    (e : Option Seg) (he : ∀ x, e = some x → ExaNode E x) :
    ∀ x ∈ (st.add e).exprs, x.kind = .bypass ∨ ExaNode E x := by
  unfold PS.add
  simp only []
  have h1 : ∀ x ∈ (if st.prevExprEnd ≠ st.currentExprStart
      then st.exprs ++ [{ kind := .bypass, a := st.prevExprEnd, b := st.currentExprStart }]
      else st.exprs), x.kind = .bypass ∨ ExaNode E x := by
    split
    · intro x hx
      rcases List.mem_append.mp hx with hx | hx
      · exact hall x hx
      · rw [List.mem_singleton] at hx; rw [hx]; exact .inl rfl
    · exact hall
  cases e with
  | none => exact h1
  | some y =>
    intro x hx
    rcases List.mem_append.mp hx with hx | hx
    · exact h1 x hx
    · rw [List.mem_singleton] at hx; rw [hx]; exact .inr (he y rfl)

theorem exa_parseLoop_nodes (hd : DecOK E) (f : Nat) {st st' : PS} (g : Good E st.sc)
    (hall : ∀ x ∈ st.exprs, x.kind = .bypass ∨ ExaNode E x)
    (hl : parseLoop E f st = .ok st') : ∀ x ∈ st'.exprs, x.kind = .bypass ∨ ExaNode E x := by
  induction f generalizing st with
  | zero => unfold parseLoop at hl; cases hl
  | succ f ih =>
    unfold parseLoop at hl
    have hpost := (advanceToNextExpression_post hd g).1
    split at hl
    · cases hl
    · next sc1 heq =>
      rw [heq] at hpost
      have g1 : Good E sc1 := hpost.good
      simp only [] at hl
      split at hl
      · cases hl; exact hall
      · next hne =>
        have hlt : sc1.pos < E.len := by have := g1.pos_le; omega
        have ho := parseOutputExpr_eok hd g1
        split at hl
        · cases hl
        · next sc2 seg heq2 =>
          obtain ⟨g2, _⟩ := ho.elim_ok heq2
          refine ih (st := PS.add { st with sc := sc2, currentExprStart := sc1.pos } (some seg))
            g2 ?_ hl
          exact exa_add_nodes (st := { st with sc := sc2, currentExprStart := sc1.pos }) hall
            (some seg) (fun x hx => by
              cases hx; exact ⟨st.sc, sc1, sc2, g, heq, hlt, .inl heq2⟩)
        · next sc2 heq2 =>
          have h21 : sc2 = sc1 := ho.elim_no heq2
          subst h21
          have hi := parseInputExpr_eok hd g1
          split at hl
          · cases hl
          · next sc3 seg heq3 =>
            obtain ⟨g3, _⟩ := hi.elim_ok heq3
            refine ih (st := PS.add { st with sc := sc3, currentExprStart := sc2.pos } (some seg))
              g3 ?_ hl
            exact exa_add_nodes (st := { st with sc := sc3, currentExprStart := sc2.pos }) hall
              (some seg) (fun x hx => by
                cases hx; exact ⟨st.sc, sc2, sc3, g, heq, hlt, .inr ⟨heq2, heq3⟩⟩)
          · next sc3 heq3 =>
            have h31 : sc3 = sc2 := hi.elim_no heq3
            subst h31
            exact ih (st := { st with sc := advanceChar E sc3, currentExprStart := sc3.pos })
              (advanceChar_good hd g1) hall hl

theorem exa_parse_nodes (hd : DecOK E) {segs : List Seg} (hp : parse E = .ok segs) :
    ∀ x ∈ segs, x.kind = .bypass ∨ ExaNode E x := by
  unfold parse at hp
  split at hp
  · cases hp
  · next st heq =>
    cases hp
    have g0 : Good E (PS.mk (initSc E) 0 0 []).sc := initSc_good.1
    exact exa_add_nodes (exa_parseLoop_nodes hd _ g0 (by intro x hx; cases hx) heq) none
      (fun _ hx => by cases hx)

/-! ### a query that is one expression -/

theorem exa_parse_single (hd : DecOK E) {t : Sc} {seg : Seg} (hlen : 0 < E.len)
    (hadv : advanceToNextExpression E (initSc E) = (initSc E, none))
    (hex : parseOutputExpr E (initSc E) = (t, .ok seg) ∨
      (parseOutputExpr E (initSc E) = (initSc E, .no) ∧
        parseInputExpr E (initSc E) = (t, .ok seg)))
    (hend : t.pos = E.len) : parse E = .ok [seg] := by
  have _ := hd
  have h0 : (initSc E).pos = 0 := (initSc_good (E := E)).2
  have hne : ¬ (initSc E).pos = E.len := by omega
  have hadv2 : advanceToNextExpression E t = (t, none) := exa_adv_at_eof (by omega)
  -- the second round of the loop
  have hsecond : ∀ f, parseLoop E (f + 1)
      { sc := t, prevExprEnd := t.pos, currentExprStart := t.pos, exprs := [seg] } =
      .ok { sc := t, prevExprEnd := t.pos, currentExprStart := t.pos, exprs := [seg] } := by
    intro f
    rw [parseLoop]
    simp only [hadv2, hend, if_true]
  have hadd : PS.add { sc := t, prevExprEnd := 0, currentExprStart := (initSc E).pos, exprs := [] }
      (some seg) = { sc := t, prevExprEnd := t.pos, currentExprStart := t.pos, exprs := [seg] } := by
    unfold PS.add
    simp only [h0, ne_eq, not_true_eq_false, if_false, List.nil_append]
  have hloop : parseLoop E (E.len + 1 + 1)
      { sc := initSc E, prevExprEnd := 0, currentExprStart := 0, exprs := [] } =
      .ok { sc := t, prevExprEnd := t.pos, currentExprStart := t.pos, exprs := [seg] } := by
    rw [parseLoop]
    simp only [hadv, if_neg hne]
    rcases hex with ho | ⟨ho, hi⟩
    · simp only [ho, hadd, hsecond]
    · simp only [ho, hi, hadd, hsecond]
  unfold parse
  rw [show E.len + 2 = E.len + 1 + 1 from rfl, hloop]
  simp only [PS.add, ne_eq, not_true_eq_false, if_false]

end
end Sqlair
