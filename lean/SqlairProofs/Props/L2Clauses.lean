/-
  Props/L2Clauses: the clause `nilEmbAccepted` the driver evaluates for C04
  (`SqlairModel/Spec/DriverClauses.lean`) is false of the model's own observation, for every
  statement the model prepares and binds; and it does fire: an observation accepting what the
  model rejects for a nil embedded pointer, in a statement with an insert expression.
-/
import SqlairProofs.Props.L2Sound
import SqlairModel.Spec.DriverClauses

namespace Sqlair

theorem nilEmbAccepted_model {C : Cls} {tt : TypeTable} {segs : List OSeg} {samples : List (Option Nat)}
    {tes : List TExpr} {args : List GoVal} {pq : Primed}
    (hp : bindTypes C tt segs samples = .ok tes) (hb : bindInputs tt tes args = .ok pq) :
    nilEmbAccepted (runModel C tt segs samples args) (modelBindObs pq) segs = false := by
  rw [l2s_runModel hp hb]
  simp [nilEmbAccepted]

/-- whatever the model says, an observation that rejects the arguments never trips the clause -/
theorem nilEmbAccepted_of_rejected (m : BindModel) (o : BindObs) (segs : List OSeg) (h : o.bindOk = false) :
    nilEmbAccepted m o segs = false := by
  simp [nilEmbAccepted, h]

example : nilEmbAccepted (runModel L2sEx.C L2sEx.tt L2sEx.segsLit [some 0] [L2sEx.argU]) (modelBindObs L2sEx.pqLit) L2sEx.segsLit = false :=
  nilEmbAccepted_model L2sEx.prepLit L2sEx.bindLit

end Sqlair
