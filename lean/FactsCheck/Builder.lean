/-
  FactsCheck/Builder: the literals of the SQL builder extracted from querybuilder.go on this
  run are the ones the model's rendering uses.
-/
import SqlairModel.Scan
import SqlairModel.Generated.Facts

namespace Sqlair.FactsOK

def nats (b : Bytes) : List Nat := b.toList.map (·.toNat)
def lit (l : List (List Nat)) (i : Nat) : List Nat := l.getD i []

def listSep : List Nat := lit Facts.lits_writeCommaSeparatedList 0
def inputPrefix : List Nat := lit Facts.lits_writeInputs 0
def asSep : List Nat := lit Facts.lits_writeOutput 0
/-- "@" ++ "sqlair_" as boundInsertColumn.parameter builds it -/
def cellPrefix : List Nat := lit Facts.lits_parameter 1 ++ lit Facts.lits_parameter 0

theorem markerPrefix_ok : nats markerPrefix = Facts.markerPrefix := by decide

/-- writeInputs: "@sqlair_5, @sqlair_6" -/
theorem render_inputs_ok :
    nats (Piece.render (.inputs 5 2)) = inputPrefix ++ [53] ++ listSep ++ inputPrefix ++ [54] := by
  decide +kernel

/-- writeOutput: "c AS _sqlair_3, d AS _sqlair_4" -/
theorem render_outputs_ok :
    nats (Piece.render (.outputs 3 [#[99], #[100]])) =
      [99] ++ asSep ++ Facts.markerPrefix ++ [51] ++ listSep ++ [100] ++ asSep ++ Facts.markerPrefix ++ [52] := by
  decide +kernel

/-- writeInsert: "(a, b) VALUES (@sqlair_0, x), (@sqlair_1, y)" -/
theorem render_insert_ok :
    nats (Piece.render (.insert [#[97], #[98]] [[.ph 0, .lit #[120]], [.ph 1, .lit #[121]]])) =
      lit Facts.lits_writeInsert 0 ++ [97] ++ listSep ++ [98] ++ lit Facts.lits_writeInsert 1 ++
      lit Facts.lits_writeInsert 3 ++ cellPrefix ++ [48] ++ listSep ++ [120] ++ lit Facts.lits_writeInsert 4 ++
      lit Facts.lits_writeInsert 2 ++
      lit Facts.lits_writeInsert 3 ++ cellPrefix ++ [49] ++ listSep ++ [121] ++ lit Facts.lits_writeInsert 4 := by
  decide +kernel

/-- the argument names: "sqlair_" ++ n in addInputs and in parameter -/
theorem paramPrefix_ok :
    lit Facts.lits_addInputs 0 = nats (bs "sqlair_") ∧ lit Facts.lits_parameter 0 = nats (bs "sqlair_") ∧
    lit Facts.lits_parameter 2 = nats (bs "sqlair_") := by
  decide +kernel

end Sqlair.FactsOK
