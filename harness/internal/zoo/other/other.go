// Package other holds types that have the same names as types in package zoo.
package other

type Person struct {
	ID   int    `db:"id"`
	Name string `db:"name"`
}

type M map[string]any

type Ints []int
