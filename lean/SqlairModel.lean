import SqlairModel.Bytes
import SqlairModel.Parser
import SqlairModel.Lexer
import SqlairModel.Spec.L1
import SqlairModel.Store
import SqlairModel.GetAllArgs
