package main

import (
	"crypto/sha256"
	"encoding/hex"
	"encoding/json"
	"fmt"
	"go/scanner"
	"go/token"
	"os"
	"path/filepath"
	"sort"
	"strconv"
	"strings"
	"time"
)

// Finding is one case on which something went wrong.
type Finding struct {
	Case   any             `json:"case"`
	Kind   string          `json:"kind"` // mismatch | holds | crash
	Detail string          `json:"detail"`
	Holds  map[string]bool `json:"holds,omitempty"`
	Impl   any             `json:"impl,omitempty"`
	Model  any             `json:"model,omitempty"`
	Shrunk bool            `json:"shrunk"`
	// Affects lists the properties a disagreement touches (nil = all of the layer).
	Affects   []string `json:"affects,omitempty"`
	Signature string   `json:"signature,omitempty"`
}

// Report is what a layer run writes for the orchestrator.
type Report struct {
	Layer        string               `json:"layer"`
	Seed         uint64               `json:"seed"`
	Tier         string               `json:"tier"`
	Evaluations  int                  `json:"evaluations"`
	Distinct     int                  `json:"distinct_nontrivial"`
	Rule         string               `json:"rule"`
	Samples      []any                `json:"samples"`
	Mismatches   []Finding            `json:"mismatches"`
	HoldsFail    map[string][]Finding `json:"holds_fail"`
	Crashes      []Finding            `json:"crashes"`
	Distribution map[string]any       `json:"distribution"`
	Notes        []string             `json:"notes"`
	WallS        float64              `json:"wall_s"`
	start        time.Time
	seen         map[string]bool
}

func newReport(layer string, seed uint64, tier string) *Report {
	return &Report{Layer: layer, Seed: seed, Tier: tier, HoldsFail: map[string][]Finding{},
		Distribution: map[string]any{}, start: time.Now(), seen: map[string]bool{},
		Mismatches: []Finding{}, Crashes: []Finding{}, Samples: []any{}, Notes: []string{}}
}

// countCase records one evaluated case; key identifies it, nontrivial by the layer's rule.
func (r *Report) countCase(key string, nontrivial bool) {
	r.Evaluations++
	if !nontrivial {
		return
	}
	h := sha256.Sum256([]byte(key))
	k := string(h[:12])
	if !r.seen[k] {
		r.seen[k] = true
		r.Distinct++
	}
}

const maxFindings = 12

func (r *Report) addMismatch(f Finding) {
	if len(r.Mismatches) < maxFindings {
		r.Mismatches = append(r.Mismatches, f)
	}
}

func (r *Report) addHolds(prop string, f Finding) {
	if len(r.HoldsFail[prop]) < maxFindings {
		r.HoldsFail[prop] = append(r.HoldsFail[prop], f)
	}
}

func (r *Report) addCrash(f Finding) {
	if len(r.Crashes) < maxFindings {
		r.Crashes = append(r.Crashes, f)
	}
}

func (r *Report) write(path string) error {
	r.WallS = time.Since(r.start).Seconds()
	b, err := json.MarshalIndent(r, "", " ")
	if err != nil {
		return err
	}
	return os.WriteFile(path, b, 0o644)
}

func hx(s string) string { return hex.EncodeToString([]byte(s)) }

func unhx(s string) string {
	b, _ := hex.DecodeString(s)
	return string(b)
}

// printable renders a byte string for humans (in evidence and replays).
func printable(s string) string { return strconv.QuoteToASCII(s) }

// repoTestQueries extracts string literals that look like queries from /repo's tests.
func repoTestQueries(repo string) []string {
	var out []string
	seen := map[string]bool{}
	files, _ := filepath.Glob(filepath.Join(repo, "*_test.go"))
	more, _ := filepath.Glob(filepath.Join(repo, "internal", "*", "*_test.go"))
	files = append(files, more...)
	sort.Strings(files)
	for _, f := range files {
		if strings.HasPrefix(filepath.Base(f), "seeded_demo") {
			// demonstrations of seeded changes (evaluation worktrees) are not part of the
			// repository's suite and must not feed the generators
			continue
		}
		src, err := os.ReadFile(f)
		if err != nil {
			continue
		}
		var s scanner.Scanner
		fset := token.NewFileSet()
		s.Init(fset.AddFile(f, fset.Base(), len(src)), src, nil, 0)
		for {
			_, tok, lit := s.Scan()
			if tok == token.EOF {
				break
			}
			if tok != token.STRING {
				continue
			}
			v, err := strconv.Unquote(lit)
			if err != nil || len(v) < 4 || len(v) > 400 {
				continue
			}
			if !(strings.ContainsAny(v, "$&") || strings.Contains(v, "SELECT") || strings.Contains(v, "INSERT")) {
				continue
			}
			if !seen[v] {
				seen[v] = true
				out = append(out, v)
			}
		}
	}
	return out
}

// loadCorpus reads /verif/corpus/<layer>/*.json (each a JSON case).
func loadCorpus(dir string) []json.RawMessage {
	var out []json.RawMessage
	files, _ := filepath.Glob(filepath.Join(dir, "*.json"))
	sort.Strings(files)
	for _, f := range files {
		b, err := os.ReadFile(f)
		if err == nil {
			out = append(out, json.RawMessage(b))
		}
	}
	return out
}

// withWatchdog runs f; if it does not return in time the case is reported as hung and the
// goroutine is abandoned (each case owns its database, so later cases are unaffected).
// hangCount counts abandoned cases; a layer stops early after a few of them (each costs
// the full watchdog time).
var hangCount int

const maxHangs = 4

func withWatchdog(d time.Duration, f func()) (hung bool) {
	done := make(chan struct{})
	go func() {
		defer close(done)
		f()
	}()
	select {
	case <-done:
		return false
	case <-time.After(d):
		hangCount++
		return true
	}
}

func fatalf(format string, a ...any) {
	fmt.Fprintf(os.Stderr, "harness: "+format+"\n", a...)
	os.Exit(3)
}

func getBool(m map[string]any, k string) bool {
	b, _ := m[k].(bool)
	return b
}
