/-
  L4Sound: provenance of errors.  If neither the statement's start nor the driver's fetch and
  close results produce the error `b` (the context's error, or ErrTxDone), and the context is
  not cancelled while iterating, then no call returns `b` or `wrapped b`.
-/
import SqlairProofs.L4Sound.Calls

namespace Sqlair.Rt

/-- `e` is neither `b` nor `wrapped b` -/
def Err.l4s_free (e b : Err) : Prop := e ≠ b ∧ e ≠ .wrapped b

/-- the two errors C20 looks for -/
def Err.l4s_base (b : Err) : Prop := b = .ctx ∨ b = .txDone

theorem l4s_free_wrapped {b e : Err} (hb : b.l4s_base) (h : e ≠ b) : (Err.wrapped e).l4s_free b := by
  constructor
  · rcases hb with rfl | rfl <;> simp
  · simpa using h

theorem l4s_free_sqlair {b : Err} (hb : b.l4s_base) (x : String) : (Err.sqlair x).l4s_free b := by
  rcases hb with rfl | rfl <;> exact ⟨by simp, by simp⟩

theorem l4s_free_noRows {b : Err} (hb : b.l4s_base) : Err.noRows.l4s_free b := by
  rcases hb with rfl | rfl <;> exact ⟨by simp, by simp⟩

theorem l4s_free_inj {b : Err} (hb : b.l4s_base) (n : Nat) : (Err.inj n).l4s_free b := by
  rcases hb with rfl | rfl <;> exact ⟨by simp, by simp⟩

/-- an optional error is free of `b` -/
def l4s_OFree (b : Err) (o : Option Err) : Prop := ∀ e, o = some e → e.l4s_free b

theorem l4s_OFree_none (b : Err) : l4s_OFree b none := by intro e h; cases h

theorem l4s_OFree_or {b : Err} {o1 o2 : Option Err} (h1 : l4s_OFree b o1) (h2 : l4s_OFree b o2) :
    l4s_OFree b (o1.or o2) := by
  cases o1 with
  | none => simpa using h2
  | some e => simpa using h1

structure Rows.l4s_Free (b : Err) (r : Rows) : Prop where
  lasterr : l4s_OFree b r.lasterr
  closeErr : l4s_OFree b r.closeErr
  fetch : ∀ e, Except.error e ∈ r.fetch → e.l4s_free b

structure Iter.l4s_Free (b : Err) (it : Iter) : Prop where
  err : l4s_OFree b it.err
  rows : ∀ r, it.rows = some r → r.l4s_Free b

theorem l4s_Rows_close_free {b : Err} {r : Rows} (h : r.l4s_Free b) (w : World) :
    (r.close w).1.l4s_Free b ∧ l4s_OFree b (r.close w).2.2 := by
  cases hc : r.closed
  · rw [Rows.close_of_open hc]
    exact ⟨⟨l4s_OFree_or h.lasterr h.closeErr, h.closeErr, h.fetch⟩, h.closeErr⟩
  · rw [Rows.close_of_closed hc]; exact ⟨h, l4s_OFree_none b⟩

theorem l4s_Rows_next_free {b : Err} {r : Rows} (h : r.l4s_Free b) (w : World) : (r.next w).1.l4s_Free b := by
  unfold Rows.next
  split
  · exact h
  · split
    · exact (l4s_Rows_close_free (r := { r with cur := none }) ⟨h.lasterr, h.closeErr, h.fetch⟩ _).1
    · rename_i e rest hf
      refine (l4s_Rows_close_free (r := { r with fetch := rest, lasterr := some e, cur := none }) ⟨?_, h.closeErr, ?_⟩ _).1
      · intro e' he'; cases he'; exact h.fetch e (by rw [hf]; simp)
      · intro e' he'; exact h.fetch e' (by rw [hf]; simp [he'])
    · rename_i row rest hf
      exact ⟨h.lasterr, h.closeErr, fun e' he' => h.fetch e' (by rw [hf]; simp [he'])⟩

theorem l4s_Iter_next_free {b : Err} {it : Iter} (h : it.l4s_Free b) (w : World) : (it.next w).1.l4s_Free b := by
  rcases Iter.next_cases it w with hn | ⟨r, _, hr, hn⟩
  · rw [hn]; exact ⟨h.err, h.rows⟩
  · rw [hn]
    refine ⟨h.err, ?_⟩
    intro r' hr'
    simp at hr'
    subst hr'
    exact l4s_Rows_next_free (h.rows r hr) w

theorem l4s_Iter_close_free {b : Err} {it : Iter} (h : it.l4s_Free b) (w : World) :
    (it.close w).1.l4s_Free b ∧ l4s_OFree b (it.close w).2.2 := by
  cases hr : it.rows with
  | none =>
    rw [Iter.close_of_rows_none hr]
    exact ⟨⟨h.err, by simp [hr]⟩, h.err⟩
  | some r =>
    rw [Iter.close_of_rows hr]
    obtain ⟨h1, h2⟩ := l4s_Rows_close_free (h.rows r hr) w
    have : l4s_OFree b (it.err.or ((r.close w).1.lasterr.or (r.close w).2.2)) :=
      l4s_OFree_or h.err (l4s_OFree_or h1.lasterr h2)
    exact ⟨⟨this, by simp⟩, this⟩

/-- an error returned by `Get` is free of `b` -/
theorem l4s_Iter_get_free {b : Err} (hb : b.l4s_base) {it : Iter} (h : it.l4s_Free b) (a : GetArgs) {e : Err}
    (hg : it.get a = .err e) : e.l4s_free b := by
  unfold Iter.get at hg
  split at hg
  · rename_i e' he'
    simp at hg; subst hg; exact h.err _ he'
  · split at hg
    · split at hg
      · simp at hg
      · simp at hg; subst hg; exact l4s_free_wrapped hb (l4s_free_sqlair hb _).1
      · simp at hg; subst hg; exact l4s_free_wrapped hb (l4s_free_sqlair hb _).1
    · split at hg
      · simp at hg; subst hg; exact l4s_free_wrapped hb (l4s_free_sqlair hb _).1
      · rename_i r hr
        split at hg
        · split at hg
          · simp at hg
          · rename_i e' hs
            simp at hg; subst hg
            apply l4s_free_wrapped hb
            unfold Rows.scan at hs
            split at hs
            · rename_i e'' hl
              simp at hs; subst hs; exact ((h.rows r hr).lasterr _ hl).1
            · split at hs
              · simp at hs; subst hs; rcases hb with rfl | rfl <;> simp
              · split at hs
                · simp at hs; subst hs; exact (l4s_free_sqlair hb _).1
                · split at hs
                  · simp at hs
                  · simp at hs; subst hs; rcases hb with rfl | rfl <;> simp
        · simp at hg; subst hg; exact l4s_free_wrapped hb (l4s_free_sqlair hb _).1
        · simp at hg; subst hg; exact l4s_free_wrapped hb (l4s_free_sqlair hb _).1

/-! ### renderings -/

/-- the renderings C20 looks for -/
def l4s_bad (b : Err) (r : String) : Prop := r = b.render ∨ r = (Err.wrapped b).render

theorem l4s_wrapped_ctx_render : (Err.wrapped .ctx).render = "wrapped(ctx)" := by decide
theorem l4s_wrapped_txDone_render : (Err.wrapped .txDone).render = "wrapped(txDone)" := by decide

theorem l4s_render_free {b : Err} (hb : b.l4s_base) {e : Err} (h : e.l4s_free b) : ¬ l4s_bad b e.render := by
  rcases hb with rfl | rfl
  · rintro (h' | h')
    · exact h.1 (l4s_render_eq_ctx.1 h')
    · rw [l4s_wrapped_ctx_render] at h'; exact h.2 (l4s_render_eq_wrapped_ctx.1 h')
  · rintro (h' | h')
    · exact h.1 (l4s_render_eq_txDone.1 h')
    · rw [l4s_wrapped_txDone_render] at h'; exact h.2 (l4s_render_eq_wrapped_txDone.1 h')

theorem l4s_renderOpt_free {b : Err} (hb : b.l4s_base) {o : Option Err} (h : l4s_OFree b o) :
    ¬ l4s_bad b (renderOpt o) := by
  cases o with
  | none => rcases hb with rfl | rfl <;> (rintro (h' | h') <;> revert h' <;> decide)
  | some e => exact l4s_render_free hb (h e rfl)

theorem l4s_bool_not_bad {b : Err} (hb : b.l4s_base) (x : Bool) : ¬ l4s_bad b (toString x) := by
  rcases hb with rfl | rfl <;> cases x <;> (rintro (h' | h') <;> revert h' <;> decide)

/-- a string starting with 'r' or 'o' is not one of the renderings looked for -/
theorem l4s_not_bad_of_head {b : Err} (hb : b.l4s_base) {s : String} {ch : Char} {rest : List Char}
    (hs : s.toList = ch :: rest) (hc : ch = 'r' ∨ ch = 'o') : ¬ l4s_bad b s := by
  have l1 : "ctx".toList = 'c' :: ['t', 'x'] := by decide
  have l2 : "wrapped(ctx)".toList = 'w' :: "rapped(ctx)".toList := by decide
  have l3 : "txDone".toList = 't' :: "xDone".toList := by decide
  have l4 : "wrapped(txDone)".toList = 'w' :: "rapped(txDone)".toList := by decide
  rcases hb with rfl | rfl
  · rintro (h' | h')
    · exact l4s_ne_of_head hs l1 (by rcases hc with rfl | rfl <;> decide) h'
    · rw [l4s_wrapped_ctx_render] at h'
      exact l4s_ne_of_head hs l2 (by rcases hc with rfl | rfl <;> decide) h'
  · rintro (h' | h')
    · exact l4s_ne_of_head hs l3 (by rcases hc with rfl | rfl <;> decide) h'
    · rw [l4s_wrapped_txDone_render] at h'
      exact l4s_ne_of_head hs l4 (by rcases hc with rfl | rfl <;> decide) h'

theorem l4s_rowStr_toList (id : Nat) : (l4s_rowStr id).toList = 'r' :: ('o' :: 'w' :: ':' :: (toString id).toList) := by
  rw [l4s_rowStr_eq, String.toList_append]
  have : "row:".toList = ['r', 'o', 'w', ':'] := by decide
  rw [this]; rfl

theorem l4s_outcomeStr_toList (n : Nat) :
    (s!"outcome:{n}" : String).toList = 'o' :: ("utcome:".toList ++ (toString n).toList) := by
  have h : (s!"outcome:{n}" : String) = "outcome:" ++ toString n := by simp [toString]
  rw [h, String.toList_append]
  have : "outcome:".toList = 'o' :: "utcome:".toList := by decide
  rw [this]; rfl

theorem l4s_renderGet_free {b : Err} (hb : b.l4s_base) {g : GetOut} (h : ∀ e, g = .err e → e.l4s_free b) :
    ¬ l4s_bad b (l4s_renderGet g) := by
  cases g with
  | row id => exact l4s_not_bad_of_head hb (l4s_rowStr_toList id) (.inl rfl)
  | err e => exact l4s_render_free hb (h e rfl)
  | outcome r =>
    cases r with
    | none =>
      have : ("outcome:nil" : String).toList = 'o' :: "utcome:nil".toList := by decide
      exact l4s_not_bad_of_head hb this (.inr rfl)
    | some n => exact l4s_not_bad_of_head hb (l4s_outcomeStr_toList n) (.inr rfl)

/-! ### every result of a call sequence without cancellation -/

theorem l4s_callStep_free {b : Err} (hb : b.l4s_base) (call : String) {it : Iter} (h : it.l4s_Free b) (w : World) :
    (callStep call it w).1.l4s_Free b ∧ ¬ l4s_bad b (callStep call it w).2.2 := by
  by_cases h1 : call = "next"
  · subst h1; rw [l4s_callStep_next]
    exact ⟨l4s_Iter_next_free h w, l4s_bool_not_bad hb _⟩
  · by_cases h2 : call = "close"
    · subst h2; rw [l4s_callStep_close]
      obtain ⟨g1, g2⟩ := l4s_Iter_close_free h w
      exact ⟨g1, l4s_renderOpt_free hb g2⟩
    · rw [l4s_callStep_get h1 h2]
      exact ⟨h, l4s_renderGet_free hb (fun e he => l4s_Iter_get_free hb h _ he)⟩

theorem l4s_runCalls_free {b : Err} (hb : b.l4s_base) (cs l : List String) (i : Nat) {it : Iter}
    (h : it.l4s_Free b) (w : World) :
    ∀ r ∈ (runCalls cs none i it w l).2.2, ¬ l4s_bad b r := by
  have key := l4s_runCalls_zip_all id none (fun it _ => it.l4s_Free b) (fun p => ¬ l4s_bad b p.2)
    (by intro i it w hinv; simpa [preCancel] using hinv)
    (by intro call it w hinv; exact l4s_callStep_free hb call hinv w)
    cs l i it w h
  intro r hr
  rw [List.map_id] at key
  have hlen := l4s_runCalls_length cs none l i it w
  obtain ⟨n, hn, rfl⟩ := List.getElem_of_mem hr
  have hn' : n < l.length := by omega
  exact key (l[n], (runCalls cs none i it w l).2.2[n]) (by
    rw [List.mem_iff_getElem]
    exact ⟨n, by rw [List.length_zip]; omega, by simp⟩)

/-! ### Get / GetAll -/

/-- the errors a script can inject are free of `b` -/
structure Script.l4s_Free (b : Err) (s : Script) : Prop where
  openErr : l4s_OFree b s.openErr
  closeErr : l4s_OFree b s.closeErr
  fetch : ∀ e, Except.error e ∈ s.fetch → e.l4s_free b

theorem l4s_free_of_getD {b : Err} (hb : b.l4s_base) {o : Option Err} (h : l4s_OFree b o) :
    (o.getD .noRows).l4s_free b := by
  cases o with
  | none => exact l4s_free_noRows hb
  | some e => exact h e rfl

theorem l4s_getSpec_free {b : Err} (hb : b.l4s_base) {s : Script} (h : s.l4s_Free b) (call : GetCall) :
    l4s_OFree b (getSpec s call).err := by
  intro e he
  unfold getSpec at he
  cases hrej : (!s.hasOutputs && decide (call.dests > 0))
  · simp only [hrej, Bool.false_eq_true, if_false] at he
    cases hoe : s.openErr with
    | some e' => simp [hoe] at he; subst he; exact h.openErr _ hoe
    | none =>
      simp only [hoe] at he
      cases hout : s.hasOutputs with
      | false => simp [hout] at he
      | true =>
        simp only [hout, Bool.not_true, Bool.false_eq_true, if_false] at he
        cases hf : s.fetch with
        | nil => simp [hf] at he; subst he; exact l4s_free_of_getD hb h.closeErr
        | cons x rest =>
          cases x with
          | error e' => simp [hf] at he; subst he; exact h.fetch _ (by rw [hf]; simp)
          | ok row =>
            simp only [hf] at he
            split at he
            · simp at he; subst he; exact l4s_free_wrapped hb (l4s_free_sqlair hb _).1
            · split at he
              · exact h.closeErr _ he
              · simp at he; subst he
                exact l4s_free_wrapped hb (by rcases hb with rfl | rfl <;> simp)
  · simp [hrej] at he; subst he; exact l4s_free_sqlair hb _

theorem l4s_loopRes_free {b : Err} (hb : b.l4s_base) {ce : Option Err} (hce : l4s_OFree b ce) (dv : Bool)
    (l : List (Except Err Row)) (hf : ∀ e, Except.error e ∈ l → e.l4s_free b) (acc : List Nat) :
    l4s_OFree b (loopRes ce dv l acc).2 := by
  induction l generalizing acc with
  | nil => simpa [loopRes] using hce
  | cons x rest ih =>
    cases x with
    | error e => intro e' he'; simp [loopRes] at he'; subst he'; exact hf e (by simp)
    | ok row =>
      simp only [loopRes]
      split
      · split
        · exact ih (fun e he => hf e (by simp [he])) _
        · intro e' he'; simp at he'; subst he'
          exact l4s_free_wrapped hb (by rcases hb with rfl | rfl <;> simp)
      · intro e' he'; simp at he'; subst he'
        exact l4s_free_wrapped hb (l4s_free_sqlair hb _).1

theorem l4s_getAllSpec_free {b : Err} (hb : b.l4s_base) {s : Script} (h : s.l4s_Free b) (n : Nat) (dv : Bool) :
    l4s_OFree b (getAllSpec s n dv).err := by
  have hl := l4s_loopRes_free hb h.closeErr dv s.fetch h.fetch []
  intro e he
  unfold getAllSpec at he
  split at he
  · simp at he; subst he; exact l4s_free_sqlair hb _
  · split at he
    · rename_i e' hoe; simp at he; subst he; exact h.openErr _ hoe
    · split at he
      · split at he
        · rename_i e' hl'; simp at he; subst he; exact hl _ hl'
        · split at he
          · simp at he; subst he; exact l4s_free_noRows hb
          · simp at he
      · simp at he

theorem l4s_getAllArgsSpec_free {b : Err} (hb : b.l4s_base) {s : Script} (h : s.l4s_Free b)
    (args : List SliceArg) (dv : Bool) : l4s_OFree b (l4s_getAllArgsSpec s args dv).err := by
  unfold l4s_getAllArgsSpec
  split
  · intro e he; simp at he; subst he; exact l4s_free_sqlair hb _
  · split
    · intro e he; simp at he; subst he; exact l4s_free_sqlair hb _
    · split
      · split
        · rename_i e' hoe; intro e he; simp at he; subst he; exact h.openErr _ hoe
        · split
          · exact l4s_OFree_none b
          · split
            · intro e he; simp at he; subst he; exact l4s_free_of_getD hb h.closeErr
            · rename_i e' rest hf; intro e he; simp at he; subst he; exact h.fetch _ (by rw [hf]; simp)
            · intro e he; simp at he; subst he; exact l4s_free_sqlair hb _
      · exact l4s_getAllSpec_free hb h _ dv

/-- the iterator `Query.Iter` returns -/
theorem l4s_iterOpen_free {b : Err} {s : Script} (h : s.l4s_Free b) (w : World) : (iterOpen s w).1.l4s_Free b := by
  rw [iterOpen_eq]
  refine ⟨h.openErr, ?_⟩
  intro r hr
  simp only [Script.openRows] at hr
  split at hr
  · simp at hr; subst hr
    exact ⟨l4s_OFree_none b, h.closeErr, h.fetch⟩
  · cases hr

/-! ### the script of a case -/

theorem l4s_openErr_source {s : Script} {e : Err} (h : s.openErr = some e) :
    (e = .txDone ∧ s.onTx = true ∧ s.txDone = true) ∨ (e = .ctx ∧ s.ctxDone = true) ∨
    s.prepareErr = some e ∨ s.runErr = some e := by
  obtain ⟨ho, ca, tx, td, cd, pe, re, fe, ce, res⟩ := s
  cases ca <;> cases tx <;> cases td <;> cases cd <;> cases pe <;> cases re <;>
    simp_all [Script.openErr]

/-- with a live context the script of a case never produces the context's error; with the
    transaction open, never ErrTxDone -/
theorem l4s_script_free {b : Err} (hb : b.l4s_base) (c : Case) (td : Bool)
    (h : (b = .ctx ∧ c.ctxDone = false) ∨ (b = .txDone ∧ (c.onTx && td) = false)) :
    (c.script td).l4s_Free b := by
  refine ⟨?_, ?_, ?_⟩
  · intro e he
    rcases l4s_openErr_source he with ⟨rfl, h1, h2⟩ | ⟨rfl, h1⟩ | h1 | h1
    · rcases h with ⟨rfl, _⟩ | ⟨_, h⟩
      · exact ⟨by simp, by simp⟩
      · have h1' : c.onTx = true := h1
        have h2' : td = true := h2
        rw [h1', h2'] at h; simp at h
    · rcases h with ⟨_, h⟩ | ⟨rfl, _⟩
      · have h1' : c.ctxDone = true := h1
        rw [h1'] at h; cases h
      · exact ⟨by simp, by simp⟩
    · have : e = .inj 1 := by
        cases hp : c.prepareErr <;> simp [Case.script, hp] at h1; exact h1.symm
      subst this; exact l4s_free_inj hb 1
    · have : e = .inj 2 := by
        cases hp : c.runErr <;> simp [Case.script, hp] at h1; exact h1.symm
      subst this; exact l4s_free_inj hb 2
  · intro e he
    have : e = .inj 4 := by
      cases hp : c.closeErr <;> simp [Case.script, hp] at he; exact he.symm
    subst this; exact l4s_free_inj hb 4
  · intro e he
    have hf : (c.script td).fetch = c.fetch := rfl
    rw [hf] at he
    rw [l4s_fetch_error_mem he]; exact l4s_free_inj hb 3

end Sqlair.Rt
