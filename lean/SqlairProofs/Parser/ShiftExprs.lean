/-
  Translation invariance, expression level: the output and input expression parsers and
  `advanceToNextExpression` (away from offset 0) commute with the shift.  Nodes move by `k`
  offsets, errors by `k` lines.
-/
import SqlairProofs.Parser.ShiftItems

namespace Sqlair

/-- a node `k` offsets further on -/
def Seg.sh (k : Nat) (x : Seg) : Seg := { x with a := x.a + k, b := x.b + k }

section
variable {E : Env} {k : Nat}

@[simp] theorem Seg.sh_mk (kd : SegKind) (a b : Nat) (cols : List Col) (types : List Acc) (vals : List Val) :
    Seg.sh k { kind := kd, a := a, b := b, cols := cols, types := types, vals := vals } =
      { kind := kd, a := a + k, b := b + k, cols := cols, types := types, vals := vals } := rfl

/-! ### output expressions -/

theorem parseOutputExpr_shift (h : DecOK E) (hl : DecLocal E) {s : Sc} (g : Good E s) :
    parseOutputExpr (shiftEnv k E) (s.sh k) = shR k (Seg.sh k) (parseOutputExpr E s) := by
  unfold parseOutputExpr
  rw [parseTargetType_shift h hl g]
  have ht := parseTargetType_xok h g
  rcases hq : parseTargetType E s with ⟨cp, (x | _ | e)⟩ <;> shsimp [Seg.sh_mk]
  have hcp : cp = s := ht.elim_no hq
  subst hcp
  rw [parseColumns_shift h hl g]
  have hpc := parseColumns_post h g
  rcases hq2 : parseColumns E cp with ⟨s2, _ | ⟨cols, parenCols⟩⟩ <;> simp only []
  · rfl
  rw [hq2] at hpc
  have g2 : Good E s2 := hpc.good
  have hp3 := skipBlanks_post h g2
  have hb := skipString_AS_bok hp3.good
  have hp4 := skipBlanks_post h hb.good
  shsimp [skipBlanks_shift h hl g2, skipString_shift hl, skipBlanks_shift h hl hb.good,
    parseTargetTypes_shift h hl hp4.good]
  split
  · rfl
  rcases parseTargetTypes E (skipBlanks E (skipString E kwAS (skipBlanks E s2)).1) with
    ⟨s5, (⟨types, parenTypes⟩ | _ | e)⟩ <;> shsimp
  split
  · rfl
  split
  · rfl
  split <;> rfl

/-! ### input expressions -/

theorem parseSliceInputExpr_shift (h : DecOK E) (hl : DecLocal E) {s : Sc} (g : Good E s) :
    parseSliceInputExpr (shiftEnv k E) (s.sh k) = shR k (Seg.sh k) (parseSliceInputExpr E s) := by
  unfold parseSliceInputExpr
  have hb := skipChar_bok h 36 g
  shsimp [skipChar_shift hl, parseSliceAccessor_shift h hl hb.good]
  split
  · rfl
  rcases parseSliceAccessor E (skipChar E 36 s).1 with ⟨s1, (x | _ | e)⟩ <;> shsimp [Seg.sh_mk]

theorem parseMemberInputExpr_shift (h : DecOK E) (hl : DecLocal E) {s : Sc} (g : Good E s) :
    parseMemberInputExpr (shiftEnv k E) (s.sh k) = shR k (Seg.sh k) (parseMemberInputExpr E s) := by
  unfold parseMemberInputExpr
  rw [parseInputMemberAccessor_shift h hl g]
  rcases parseInputMemberAccessor E s with ⟨s1, (x | _ | e)⟩ <;> shsimp
  split <;> shsimp [Seg.sh_mk]

theorem parseComplexInsertValues_shift (h : DecOK E) (hl : DecLocal E) {s : Sc} (g : Good E s) :
    parseComplexInsertValues (shiftEnv k E) (s.sh k) = shR k id (parseComplexInsertValues E s) := by
  unfold parseComplexInsertValues
  rw [parseList_shift h hl (fun s g => parseInputMemberAccessor_rok h g)
    (fun s g => parseInputMemberAccessor_shift h hl g) g]
  have hlr := parseList_rok h (fun s g => parseInputMemberAccessor_rok h g) g
  rcases hq : parseList E (parseInputMemberAccessor E) s with ⟨s1, (x | _ | e)⟩ <;> shsimp
  rw [parseInputMemberAccessor_shift h hl (hlr.elim' hq).1]
  rcases parseInputMemberAccessor E s1 with ⟨s2, (x | _ | e)⟩ <;> shsimp

theorem parseAsteriskInsertExpr_shift (h : DecOK E) (hl : DecLocal E) {s : Sc} (g : Good E s) :
    parseAsteriskInsertExpr (shiftEnv k E) (s.sh k) =
      shR k (Seg.sh k) (parseAsteriskInsertExpr E s) := by
  unfold parseAsteriskInsertExpr
  have hb1 := skipChar_bok h 40 g
  have hp1 := skipBlanks_post h hb1.good
  have hb2 := skipChar_bok h 42 hp1.good
  have hp2 := skipBlanks_post h hb2.good
  have hb3 := skipChar_bok h 41 hp2.good
  have hp3 := skipBlanks_post h hb3.good
  have hb4 := skipString_VALUES_bok hp3.good
  have hp4 := skipBlanks_post h hb4.good
  shsimp [skipChar_shift hl, skipString_shift hl, skipBlanks_shift h hl hb1.good,
    skipBlanks_shift h hl hb2.good, skipBlanks_shift h hl hb3.good, skipBlanks_shift h hl hb4.good,
    parseComplexInsertValues_shift h hl hp4.good]
  split
  · rfl
  split
  · rfl
  split
  · rfl
  split
  · rfl
  symm
  split <;> rename_i heq <;> rw [heq] <;> shsimp [Seg.sh_mk]

theorem basicLoop_shift (h : DecOK E) (hl : DecLocal E) {cp : Sc} (gcp : Good E cp) (f : Nat)
    (ip : Bool) (vs : List Val) {s : Sc} (g : Good E s) :
    basicLoop (shiftEnv k E) (cp.sh k) f ip vs (s.sh k) = shR k id (basicLoop E cp f ip vs s) := by
  induction f generalizing s ip vs with
  | zero => unfold basicLoop; shsimp
  | succ f ih =>
    unfold basicLoop
    extract_lets s1' item' s1 item
    have hp1 : Post E s s1 := skipBlanks_post h g
    have hs1 : s1' = s1.sh k := skipBlanks_shift h hl g
    have hm := parseInputMemberAccessor_rok h hp1.good
    have hitem : item' = shR k id item := by
      unfold item' item
      rw [hs1, parseInputMemberAccessor_shift h hl hp1.good]
      rcases hq : parseInputMemberAccessor E s1 with ⟨s2, (ma | _ | e)⟩ <;> shsimp
      · split <;> rfl
      · rw [skipLiteralInList_shift h hl (hm.elim' hq).1]
        rcases skipLiteralInList E s2 with ⟨s3, (x | _ | e)⟩ <;> shsimp
    have gitem : Good E item.1 := by
      unfold item
      split
      · next heq => exact (hm.elim' heq).1
      · next heq => split <;> exact (hm.elim' heq).1
      · next heq =>
        have hlr := skipLiteralInList_rok h (hm.elim' heq).1
        split
        · next heq3 => exact (hlr.elim' heq3).1
        · next heq3 => exact (hlr.elim' heq3).1
        · exact gcp
    clear_value item' item s1'
    subst hitem
    rcases item with ⟨s2, (⟨ip', vs'⟩ | _ | e)⟩ <;> shsimp
    have g2 : Good E s2 := gitem
    have hp3 := skipBlanks_post h g2
    shsimp [skipBlanks_shift h hl g2, skipChar_shift hl]
    split
    · split <;> rfl
    split
    · exact ih _ _ (skipChar_bok h 44 hp3.good).good
    · rfl

theorem basicLoop_mono (cp : Sc) (f : Nat) (ip : Bool) (vs : List Val) (s : Sc) :
    NoFuel (basicLoop E cp f ip vs s) →
      basicLoop E cp (f+1) ip vs s = basicLoop E cp f ip vs s := by
  induction f generalizing s ip vs with
  | zero => intro hr; unfold basicLoop at hr; exact absurd rfl (hr _ rfl)
  | succ f ih =>
    unfold basicLoop
    extract_lets s1 item
    clear_value item
    rcases item with ⟨s2, (⟨ip', vs'⟩ | _ | e)⟩ <;> simp only []
    · repeat' split
      all_goals first | exact ih _ _ _ | exact fun _ => rfl
    · exact fun _ => trivial
    · exact fun _ => trivial

theorem parseBasicInsertValues_shift (h : DecOK E) (hl : DecLocal E) {s : Sc} (g : Good E s) :
    parseBasicInsertValues (shiftEnv k E) (s.sh k) = shR k id (parseBasicInsertValues E s) := by
  unfold parseBasicInsertValues
  have hb := skipChar_bok h 40 g
  shsimp [skipChar_shift hl, parseInputMemberAccessor_shift h hl g]
  split
  · rcases parseInputMemberAccessor E s with ⟨s2, (x | _ | e)⟩ <;> shsimp
  · rw [basicLoop_shift h hl g _ _ _ hb.good, show E.len + k + 1 = E.len + 1 + k by omega,
      fuel_stable_err (fun f => basicLoop E s f false [] (skipChar E 40 s).1) NoFuel
        (fun f => basicLoop_mono s f false [] _) _ _
        (basicLoop_lok h g (E.len + 1) false [] hb.good hb.mono (by omega)).toROK.noFuel]

theorem parseInsertExpr_shift (h : DecOK E) (hl : DecLocal E) {s : Sc} (g : Good E s) :
    parseInsertExpr (shiftEnv k E) (s.sh k) = shR k (Seg.sh k) (parseInsertExpr E s) := by
  unfold parseInsertExpr
  rw [parseAsteriskInsertExpr_shift h hl g]
  have ha := parseAsteriskInsertExpr_eok h g
  rcases hq : parseAsteriskInsertExpr E s with ⟨cp, (x | _ | e)⟩ <;> shsimp
  have hcp : cp = s := ha.elim_no hq
  subst hcp
  rw [parseColumns_shift h hl g]
  have hpc := parseColumns_post h g
  rcases hq2 : parseColumns E cp with ⟨s1, _ | ⟨columns, _ | _⟩⟩ <;> simp only []
  · rfl
  · rfl
  rw [hq2] at hpc
  have g1 : Good E s1 := hpc.good
  have hp1 := skipBlanks_post h g1
  have hb := skipString_VALUES_bok hp1.good
  have hp2 := skipBlanks_post h hb.good
  shsimp [skipBlanks_shift h hl g1, skipString_shift hl, skipBlanks_shift h hl hb.good,
    parseComplexInsertValues_shift h hl hp2.good, parseBasicInsertValues_shift h hl hp2.good]
  split
  · rfl
  have hbasic : ∀ colcp : Sc,
      (match shR k id (parseBasicInsertValues E colcp) with
        | (_, .err e) => ((cp.sh k, .err e) : Sc × Res Seg)
        | (s3, .ok vals) =>
          (s3, .ok { kind := .basicInsert, a := cp.pos + k, b := s3.pos, cols := columns, vals := vals })
        | (_, .no) => (cp.sh k, .no)) =
      shR k (Seg.sh k) (match parseBasicInsertValues E colcp with
        | (_, .err e) => (cp, .err e)
        | (s3, .ok vals) =>
          (s3, .ok { kind := .basicInsert, a := cp.pos, b := s3.pos, cols := columns, vals := vals })
        | (_, .no) => (cp, .no)) := by
    intro colcp
    rcases parseBasicInsertValues E colcp with ⟨s3, (x | _ | e)⟩ <;> shsimp [Seg.sh_mk]
  rcases parseComplexInsertValues E (skipBlanks E (skipString E kwVALUES (skipBlanks E s1)).1) with
    ⟨s2, (srcs | _ | e)⟩ <;> shsimp
  · by_cases hst : (starCountTypes srcs != 0) = true
    · simp only [if_pos hst]; shsimp [Seg.sh_mk]
    · simp only [if_neg hst]; exact hbasic _
  · exact hbasic _
  · exact hbasic _

theorem parseInputExpr_shift (h : DecOK E) (hl : DecLocal E) {s : Sc} (g : Good E s) :
    parseInputExpr (shiftEnv k E) (s.sh k) = shR k (Seg.sh k) (parseInputExpr E s) := by
  unfold parseInputExpr
  rw [parseSliceInputExpr_shift h hl g]
  have h1 := parseSliceInputExpr_eok h g
  rcases hq : parseSliceInputExpr E s with ⟨s1, (x | _ | e)⟩ <;> shsimp
  have hs1 : s1 = s := h1.elim_no hq
  subst hs1
  rw [parseMemberInputExpr_shift h hl g]
  have h2 := parseMemberInputExpr_eok h g
  rcases hq2 : parseMemberInputExpr E s1 with ⟨s2, (x | _ | e)⟩ <;> shsimp
  have hs2 : s2 = s1 := h2.elim_no hq2
  subst hs2
  exact parseInsertExpr_shift h hl g

/-! ### advanceToNextExpression -/

theorem advLoop_shift (h : DecOK E) (hl : DecLocal E) (f : Nat) {s : Sc} (g : Good E s) :
    advLoop (shiftEnv k E) f (s.sh k) = shR k id (advLoop E f s) := by
  induction f generalizing s with
  | zero => unfold advLoop; shsimp
  | succ f ih =>
    unfold advLoop
    shsimp [skipStringLiteral_shift h hl g, skipComment_shift h hl g, advanceChar_shift hl]
    have hsl := skipStringLiteral_sok h g
    split
    · rcases hq : skipStringLiteral E s with ⟨s1, (x | _ | e)⟩ <;>
        simp only [shR_mk, Res.sh_ok, Res.sh_no, Res.sh_err]
      · exact ih (hsl.elim_ok hq).1
      · split
        · exact ih (skipComment_bok h g).good
        split
        · rfl
        split
        · split
          · rfl
          split
          · rfl
          · exact ih (advanceChar_good h g)
        · exact ih (advanceChar_good h g)
    · rfl

theorem advLoop_mono (f : Nat) (s : Sc) :
    NoFuel (advLoop E f s) → advLoop E (f+1) s = advLoop E f s := by
  induction f generalizing s with
  | zero => intro hr; unfold advLoop at hr; exact absurd rfl (hr _ rfl)
  | succ f ih =>
    unfold advLoop
    simp only []
    repeat' split
    all_goals first | exact ih _ | exact fun _ => rfl

theorem advLoop_fuel (h : DecOK E) {s : Sc} (g : Good E s) (j : Nat) :
    advLoop E (E.len + j + 1) s = advLoop E (E.len + 1) s := by
  rw [show E.len + j + 1 = E.len + 1 + j by omega]
  exact fuel_stable_err (fun f => advLoop E f s) NoFuel (fun f => advLoop_mono f s) _ _
    (advLoop_rok h (E.len + 1) g (by omega)).noFuel

/-- what `advanceToNextExpression` does after its test for a name at offset 0 -/
def advFrom (E : Env) (f : Nat) (s : Sc) : Sc × Option PErr :=
  match advLoop E f s with
  | (s1, .err e) => (s1, some e)
  | (s1, .ok true) => (skipBlanks E s1, none)
  | (s1, _) => (s1, none)

/-- the shifted counterpart of a result of `advanceToNextExpression` -/
def shA (k : Nat) (r : Sc × Option PErr) : Sc × Option PErr := (r.1.sh k, r.2.map (PErr.sh k))

theorem advanceToNextExpression_eq (s : Sc) :
    advanceToNextExpression E s =
      if s.pos < E.len ∧ s.pos = 0 ∧ isNameChar E s.char = true then (s, none)
      else advFrom E (E.len + 1) s := rfl

theorem advFrom_shift (h : DecOK E) (hl : DecLocal E) (f : Nat) {s : Sc} (g : Good E s)
    (hf : E.len - s.pos < f) :
    advFrom (shiftEnv k E) f (s.sh k) = shA k (advFrom E f s) := by
  unfold advFrom
  rw [advLoop_shift h hl f g]
  have hr := advLoop_rok h f g hf
  rcases hq : advLoop E f s with ⟨s1, (_ | _) | _ | e⟩ <;> shsimp
  · rfl
  · rw [skipBlanks_shift h hl (hr.elim' hq).1]; rfl
  · rfl
  · rfl

/-- away from offset 0, `advanceToNextExpression` commutes with the shift -/
theorem advanceToNextExpression_shift (h : DecOK E) (hl : DecLocal E) {s : Sc} (g : Good E s)
    (hpos : 0 < s.pos) :
    advanceToNextExpression (shiftEnv k E) (s.sh k) = shA k (advanceToNextExpression E s) := by
  rw [advanceToNextExpression_eq, advanceToNextExpression_eq,
    if_neg (fun hc => by have := hc.2.1; simp only [Sc.sh_pos] at this; omega),
    if_neg (fun hc => by have := hc.2.1; omega), shiftEnv_len]
  unfold advFrom
  rw [advLoop_shift h hl _ g, advLoop_fuel h g]
  have hr := advLoop_rok h (E.len + 1) g (by omega)
  rcases hq : advLoop E (E.len + 1) s with ⟨s1, (_ | _) | _ | e⟩ <;> shsimp
  · rfl
  · rw [skipBlanks_shift h hl (hr.elim' hq).1]; rfl
  · rfl
  · rfl

end
end Sqlair
