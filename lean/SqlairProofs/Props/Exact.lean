/-
  Property C01, second half: expression spans are exact.

  `exprSpansExact E obs` (SqlairModel/Spec/L1.lean) says: every node of `obs` that is not a
  bypass node, parsed on its own by the model, yields exactly that single node again.  For the
  model's own observation this is a locality property of the parser:

  * what the expression parsers do from the start of an expression depends only on the bytes
    up to the end of the expression, plus look-aheads that answer at the end of the input as
    they answer at a delimiter;
  * the conditions under which the main loop starts an expression at an offset (a trigger
    character, or a name character at offset 0 or after a blank-like character) also hold at
    offset 0 of the extracted text.

  Hypotheses of the theorem (all about the abstract decoder/classifier of `Env`, none about
  the input):
  * `DecOK E`        -- the rune decoder is sane                      (`decodeRune_DecOK`)
  * `ExaDecLocal E`  -- ... and local: a rune inside `inp[a:b)` decodes there as in `inp`, and
                        every extracted text satisfies `DecOK`         (`decodeRune_ExaDecLocal`)
  * `AsciiDec E`     -- an ASCII byte decodes to itself with size 1 (the keywords `AS`/`VALUES`
                        are skipped byte-wise)                         (`decodeRune_AsciiDec`)
  * `ClassSep E`     -- tab, newline, CR, space, `-`, `/` are neither letters nor digits
                                                                       (`ClassSep.of_ascii`)
  * `ExaClass E`     -- `$` and `(` are no name characters             (`ExaClass.of_ascii`)
  `ClassSep` cannot be dropped: `c01_expr_spans_exact_needs_ClassSep` below.
-/
import SqlairProofs.Exact.Main
import SqlairProofs.Exact.Utf8
import SqlairProofs.Props.C02

namespace Sqlair

/-- the node moved to offset 0 of its own text is the observed node -/
theorem exa_toOSeg_mv (inp : Bytes) (x : Seg) (hab : x.a ≤ x.b) :
    (x.exaMv x.a).toOSeg (inp.extract x.a x.b) = x.toOSeg inp := by
  unfold Seg.toOSeg Seg.exaMv
  simp only [Nat.sub_self]
  rw [exa_extract inp x.a x.b 0 (x.b - x.a) (by omega), Nat.add_zero, Nat.add_sub_cancel' hab]

/-- parse-level form: every node of a successful parse that is not a bypass node, parsed on
    its own, yields that single node (moved to offset 0) again -/
theorem c01_expr_node_exact (E : Env) (h : DecOK E) (hl : ExaDecLocal E) (ha : AsciiDec E)
    (hsep : ClassSep E) (hc : ExaClass E) (segs : List Seg) (hp : parse E = .ok segs)
    (x : Seg) (hx : x ∈ segs) (hk : x.kind ≠ .bypass) :
    parse { E with inp := E.inp.extract x.a x.b } =
      .ok [{ x with a := 0, b := x.b - x.a }] := by
  rcases exa_parse_nodes h hp x hx with hb | hn
  · exact (hk hb).elim
  · have := (exa_node_exact h hl ha hsep hc hn).1
    unfold Seg.exaMv at this
    rw [Nat.sub_self] at this
    exact this

/-- **C01, expression spans are exact**: the model's observation satisfies `exprSpansExact` -/
theorem c01_expr_spans_exact (E : Env) (h : DecOK E) (hl : ExaDecLocal E) (ha : AsciiDec E)
    (hsep : ClassSep E) (hc : ExaClass E) :
    exprSpansExact E (modelObs E) = true := by
  unfold modelObs
  split
  · next segs hp =>
    show (segs.map (Seg.toOSeg E.inp)).all _ = true
    rw [List.all_eq_true]
    intro o ho
    obtain ⟨x, hx, rfl⟩ := List.mem_map.mp ho
    rcases exa_parse_nodes h hp x hx with hb | hn
    · have : (x.toOSeg E.inp).kind = .bypass := hb
      rw [this]; rfl
    · obtain ⟨hpar, hab, _⟩ := exa_node_exact h hl ha hsep hc hn
      have hp' : parse { E with inp := (x.toOSeg E.inp).raw } = .ok [x.exaMv x.a] := hpar
      rw [Bool.or_eq_true]
      right
      rw [hp']
      simp only []
      rw [beq_iff_eq]
      exact exa_toOSeg_mv E.inp x hab
  · rfl

/-- C01 (exact spans) for the Go implementation's decoder and any classifier that agrees with
    the ASCII tables below 128 -/
theorem c01_expr_spans_exact_go (inp : Bytes) (letter digit : Nat → Bool)
    (hletter : ∀ c, c < 128 → letter c = ((65 ≤ c && c ≤ 90) || (97 ≤ c && c ≤ 122)))
    (hdigit : ∀ c, c < 128 → digit c = (48 ≤ c && c ≤ 57)) :
    exprSpansExact { inp := inp, dec := decodeRune, letter := letter, digit := digit }
      (modelObs { inp := inp, dec := decodeRune, letter := letter, digit := digit }) = true :=
  c01_expr_spans_exact _ (decodeRune_DecOK _ _ _) (decodeRune_ExaDecLocal _ _ _)
    (decodeRune_AsciiDec _ _ _) (ClassSep.of_ascii _ hletter hdigit) (ExaClass.of_ascii _ hletter hdigit)

/-! ### non-vacuity -/

theorem asciiEnv_ExaDecLocal (s : String) : ExaDecLocal (asciiEnv s) := decodeRune_ExaDecLocal _ _ _

theorem asciiEnv_ExaClass (s : String) : ExaClass (asciiEnv s) :=
  ExaClass.of_ascii _ (fun _ _ => rfl) (fun _ _ => rfl)

/-- number of nodes of an observation that are not bypass nodes -/
def exaExprNodeCount : ParseObs → Nat
  | .ok segs => (segs.filter (fun s => s.kind != .bypass)).length
  | .err .. => 0

/-- a query with an output, a member and a slice expression: the predicate evaluates to true,
    and there are three expression nodes it speaks about -/
example :
    exprSpansExact (asciiEnv "SELECT t.* AS &T.* FROM t WHERE a=$T.a AND b IN ($S[:])")
      (modelObs (asciiEnv "SELECT t.* AS &T.* FROM t WHERE a=$T.a AND b IN ($S[:])")) = true ∧
    exaExprNodeCount (modelObs (asciiEnv "SELECT t.* AS &T.* FROM t WHERE a=$T.a AND b IN ($S[:])")) = 3 := by
  decide +kernel

/-- the output expression of that query starts with a name character in the middle of the
    text; on its own it starts at offset 0 -/
example : parseNodes (asciiEnv "SELECT t.* AS &T.* FROM t WHERE a=$T.a AND b IN ($S[:])") =
      some [(.bypass, 0, 7), (.output, 7, 18), (.bypass, 18, 34), (.member, 34, 38),
        (.bypass, 38, 49), (.slice, 49, 54), (.bypass, 54, 55)] ∧
    parseNodes (asciiEnv "t.* AS &T.*") = some [(.output, 0, 11)] := by
  decide +kernel

/-- the three kinds of insert expressions -/
example :
    exprSpansExact (asciiEnv "INSERT INTO t (*) VALUES ($T.*)")
      (modelObs (asciiEnv "INSERT INTO t (*) VALUES ($T.*)")) = true ∧
    parseNodes (asciiEnv "INSERT INTO t (*) VALUES ($T.*)") =
      some [(.bypass, 0, 14), (.astInsert, 14, 31)] := by
  decide +kernel

example :
    exprSpansExact (asciiEnv "INSERT INTO t (a, b) VALUES ($T.*)")
      (modelObs (asciiEnv "INSERT INTO t (a, b) VALUES ($T.*)")) = true ∧
    parseNodes (asciiEnv "INSERT INTO t (a, b) VALUES ($T.*)") =
      some [(.bypass, 0, 14), (.colInsert, 14, 34)] := by
  decide +kernel

example :
    exprSpansExact (asciiEnv "INSERT INTO t (a, b) VALUES ($T.a, 'x)') -- c")
      (modelObs (asciiEnv "INSERT INTO t (a, b) VALUES ($T.a, 'x)') -- c")) = true ∧
    parseNodes (asciiEnv "INSERT INTO t (a, b) VALUES ($T.a, 'x)') -- c") =
      some [(.bypass, 0, 14), (.basicInsert, 14, 40), (.bypass, 40, 45)] := by
  decide +kernel

/-- a parenthesised output expression with a function call, comments between the tokens -/
example :
    exprSpansExact (asciiEnv "SELECT (count(*), b) /* c */ AS (&T.n, &T.b) FROM t")
      (modelObs (asciiEnv "SELECT (count(*), b) /* c */ AS (&T.n, &T.b) FROM t")) = true ∧
    exaExprNodeCount (modelObs (asciiEnv "SELECT (count(*), b) /* c */ AS (&T.n, &T.b) FROM t")) = 1 := by
  decide +kernel

/-- the predicate is not trivially true: a hand-made observation of `$$T.a` whose member node
    swallowed the leading `$` (the model puts that `$` into a bypass node) is rejected -/
example :
    exprSpansExact (asciiEnv "$$T.a")
      (.ok [{ kind := .member, raw := bytesOfStr "$$T.a",
              types := [{ ty := bytesOfStr "T", member := bytesOfStr "a" }] }]) = false ∧
    modelObs (asciiEnv "$$T.a") =
      .ok [{ kind := .bypass, raw := bytesOfStr "$" },
           { kind := .member, raw := bytesOfStr "$T.a",
             types := [{ ty := bytesOfStr "T", member := bytesOfStr "a" }] }] ∧
    exprSpansExact (asciiEnv "$$T.a") (modelObs (asciiEnv "$$T.a")) = true := by
  decide +kernel

/-- ... and neither is it true of a node with the right text but the wrong payload -/
example :
    exprSpansExact (asciiEnv "$T.a")
      (.ok [{ kind := .member, raw := bytesOfStr "$T.a",
              types := [{ ty := bytesOfStr "T", member := bytesOfStr "b" }] }]) = false := by
  decide +kernel

/-! ### the classifier assumption is needed -/

/-- a classifier that calls the tab a letter -/
def c01TabLetterEnv : Env :=
  { inp := Bytes.ofString "=\t\"c\" AS &T.y", dec := decodeRune,
    letter := fun c => asciiLetter c || c == 9, digit := asciiDigit }

/-- Without `ClassSep` the statement fails (so `DecOK` alone is not enough): if the tab is a
    letter, the main loop takes the tab after `=` for the start of a name, skips it as a
    blank, and starts the expression `"c" AS &T.y` at the quote.  On its own that text starts
    with a string literal, which the main loop skips: two nodes instead of one. -/
theorem c01_expr_spans_exact_needs_ClassSep :
    ∃ E : Env, DecOK E ∧ ExaDecLocal E ∧ AsciiDec E ∧ ExaClass E ∧
      exprSpansExact E (modelObs E) = false :=
  ⟨c01TabLetterEnv, decodeRune_DecOK _ _ _, decodeRune_ExaDecLocal _ _ _, decodeRune_AsciiDec _ _ _,
    ⟨rfl, rfl⟩, by decide +kernel⟩

example : parseNodes c01TabLetterEnv = some [(.bypass, 0, 2), (.output, 2, 13)] ∧
    parseNodes { c01TabLetterEnv with inp := Bytes.ofString "\"c\" AS &T.y" } =
      some [(.bypass, 0, 7), (.output, 7, 11)] := by
  decide +kernel

end Sqlair
