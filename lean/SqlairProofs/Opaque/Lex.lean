/-
  Opacity of literals and comments, lexer level: on two inputs related by `OpqEnv` the
  reference lexer finds the same regions.  (Not used by the relational pass over the parser;
  it shows that blanking the interiors of the regions does not change the regions.)
-/
import SqlairProofs.Opaque.Defs

namespace Sqlair

section
variable {E : Env} {inp' : Bytes}

theorem opq_lexLoop (R : OpqEnv E inp') : ∀ (f p : Nat) (acc : List Region), LexCode E p →
    lexLoop (opqEnv E inp') f p acc = lexLoop E f p acc := by
  intro f
  induction f with
  | zero => intros; rfl
  | succ f ih =>
    intro p acc hc
    by_cases hp : p < E.len
    · have hp' : p < (opqEnv E inp').len := by rw [opq_len R]; exact hp
      have hrn : rn (opqEnv E inp') p = rn E p := by
        show (E.dec inp' p).1 = (E.dec E.inp p).1
        rw [R.dec p hc hp]
      have hsz : sz (opqEnv E inp') p = sz E p := by
        show (E.dec inp' p).2 = (E.dec E.inp p).2
        rw [R.dec p hc hp]
      have hnext := R.next p hc hp
      rw [lexLoop_succ, lexLoop_succ, if_neg (Nat.not_le.mpr hp), if_neg (Nat.not_le.mpr hp'),
        max_sz R.decOK hp', max_sz R.decE hp]
      by_cases hq : rn E p = 34 ∨ rn E p = 39
      · have hq' : rn (opqEnv E inp') p = 34 ∨ rn (opqEnv E inp') p = 39 := by rw [hrn]; exact hq
        rw [if_pos hq, if_pos hq']
        have h1 : lexNext E p = litEnd E (rn E p) (E.len + 1) (p + sz E p) := lexNext_lit R.decE hp hq
        have h2 : lexNext (opqEnv E inp') p = litEnd (opqEnv E inp') (rn (opqEnv E inp') p)
            ((opqEnv E inp').len + 1) (p + sz (opqEnv E inp') p) := lexNext_lit R.decOK hp' hq'
        rw [← h1, ← h2, hnext]
        cases hl : lexNext E p with
        | none => rfl
        | some e => exact ih e _ (hc.next hp hl)
      · have hq' : ¬ (rn (opqEnv E inp') p = 34 ∨ rn (opqEnv E inp') p = 39) := by rw [hrn]; exact hq
        rw [if_neg hq, if_neg hq']
        by_cases hl : LineOpen E p
        · have hl' : LineOpen (opqEnv E inp') p := (R.lineOpen p hc hp).mpr hl
          have hl1 : rn E p = 45 ∧ p + sz E p < E.len ∧ rn E (p + sz E p) = 45 := hl
          have hl1' : rn (opqEnv E inp') p = 45 ∧ p + sz (opqEnv E inp') p < (opqEnv E inp').len ∧
              rn (opqEnv E inp') (p + sz (opqEnv E inp') p) = 45 := hl'
          rw [if_pos hl1, if_pos hl1']
          have h1 : lexNext E p = some (lineCommentEnd E (E.len + 1)
              (p + sz E p + sz E (p + sz E p))) := lexNext_line R.decE hp hl.1 hl.2.1 hl.2.2
          have h2 : lexNext (opqEnv E inp') p = some (lineCommentEnd (opqEnv E inp')
              ((opqEnv E inp').len + 1) (p + sz (opqEnv E inp') p +
                sz (opqEnv E inp') (p + sz (opqEnv E inp') p))) :=
            lexNext_line R.decOK hp' hl'.1 hl'.2.1 hl'.2.2
          rw [hnext, h1] at h2
          rw [← Option.some.inj h2]
          exact ih _ _ (hc.next hp h1)
        · have hl' : ¬ LineOpen (opqEnv E inp') p := fun hx => hl ((R.lineOpen p hc hp).mp hx)
          have hl1 : ¬ (rn E p = 45 ∧ p + sz E p < E.len ∧ rn E (p + sz E p) = 45) := hl
          have hl1' : ¬ (rn (opqEnv E inp') p = 45 ∧ p + sz (opqEnv E inp') p < (opqEnv E inp').len ∧
              rn (opqEnv E inp') (p + sz (opqEnv E inp') p) = 45) := hl'
          rw [if_neg hl1, if_neg hl1']
          by_cases hb : BlockOpen E p
          · have hb' : BlockOpen (opqEnv E inp') p := (R.blockOpen p hc hp).mpr hb
            have hb1 : rn E p = 47 ∧ p + sz E p < E.len ∧ rn E (p + sz E p) = 42 := hb
            have hb1' : rn (opqEnv E inp') p = 47 ∧ p + sz (opqEnv E inp') p < (opqEnv E inp').len ∧
                rn (opqEnv E inp') (p + sz (opqEnv E inp') p) = 42 := hb'
            rw [if_pos hb1, if_pos hb1']
            have h1 : lexNext E p = some (blockCommentEnd E (E.len + 1)
                (p + sz E p + sz E (p + sz E p))) := lexNext_block R.decE hp hb.1 hb.2.1 hb.2.2
            have h2 : lexNext (opqEnv E inp') p = some (blockCommentEnd (opqEnv E inp')
                ((opqEnv E inp').len + 1) (p + sz (opqEnv E inp') p +
                  sz (opqEnv E inp') (p + sz (opqEnv E inp') p))) :=
              lexNext_block R.decOK hp' hb'.1 hb'.2.1 hb'.2.2
            rw [hnext, h1] at h2
            rw [← Option.some.inj h2]
            exact ih _ _ (hc.next hp h1)
          · have hb' : ¬ BlockOpen (opqEnv E inp') p := fun hx => hb ((R.blockOpen p hc hp).mp hx)
            have hb1 : ¬ (rn E p = 47 ∧ p + sz E p < E.len ∧ rn E (p + sz E p) = 42) := hb
            have hb1' : ¬ (rn (opqEnv E inp') p = 47 ∧ p + sz (opqEnv E inp') p < (opqEnv E inp').len ∧
                rn (opqEnv E inp') (p + sz (opqEnv E inp') p) = 42) := hb'
            rw [if_neg hb1, if_neg hb1', hsz]
            exact ih _ _ (hc.next hp (lexNext_plain R.decE hp (fun hx => hq (Or.inl hx))
              (fun hx => hq (Or.inr hx)) hl hb))
    · have hp' : ¬ p < (opqEnv E inp').len := by rw [opq_len R]; exact hp
      rw [lexLoop_succ, lexLoop_succ, if_pos (Nat.not_lt.mp hp), if_pos (Nat.not_lt.mp hp')]

/-- the reference lexer finds the same regions (or the same unclosed literal) on both inputs -/
theorem opq_lexRegions (R : OpqEnv E inp') : lexRegions (opqEnv E inp') = lexRegions E := by
  unfold lexRegions
  rw [opq_len R]
  exact opq_lexLoop R _ 0 [] LexCode.zero

end
end Sqlair
