package main

import (
	"context"
	"fmt"
	"sort"
	"strconv"
	"strings"
	"sync"

	"github.com/canonical/sqlair"
	"verifharness/internal/fakedrv"
	"verifharness/internal/zoo"
)

// numbered reports whether the numbers following prefix in s are exactly 0..n-1, each once.
func numbered(s, prefix string, n int) bool {
	var nums []int
	for i := strings.Index(s, prefix); i >= 0; {
		j := i + len(prefix)
		k := j
		for k < len(s) && s[k] >= '0' && s[k] <= '9' {
			k++
		}
		v, err := strconv.Atoi(s[j:k])
		if err != nil {
			return false
		}
		nums = append(nums, v)
		nx := strings.Index(s[k:], prefix)
		if nx < 0 {
			break
		}
		i = k + nx
	}
	if len(nums) != n {
		return false
	}
	sort.Ints(nums)
	for i, v := range nums {
		if v != i {
			return false
		}
	}
	return true
}

// concurrentGrowth (C16): statements with ever more inputs than any statement of the
// process had before are bound by several goroutines at once - a bulk insert whose number
// of rows jumps, next to IN lists that grow by one element at a time. Whatever the library
// shares between calls, every call's SQL carries the placeholders 0..n-1 once each and the
// driver receives exactly the arguments named so.
func concurrentGrowth(rep *Report) int {
	ins, err1 := sqlair.Prepare("INSERT INTO person (*) VALUES ($Person.*)", zoo.Person{})
	sel, err2 := sqlair.Prepare("SELECT name FROM t WHERE a IN ($Ints[:])", zoo.Ints{})
	if err1 != nil || err2 != nil {
		return 0
	}
	ctx := context.Background()
	var mu sync.Mutex
	bad := ""
	checks := 0
	verify := func(st *fakedrv.State, what string, want int) {
		for _, e := range st.Events() {
			if e.Kind != "exec" && e.Kind != "query" {
				continue
			}
			ok := len(e.Names) == want && numbered("@"+strings.Join(e.Names, " @"), "@sqlair_", want)
			mu.Lock()
			checks++
			if !ok && bad == "" {
				bad = fmt.Sprintf("%s with %d inputs, bound while other goroutines bound statements of other sizes: the driver received %d arguments, named %s ...",
					what, want, len(e.Names), firstN(strings.Join(e.Names, ","), 120))
			}
			mu.Unlock()
		}
		for _, e := range st.Events() {
			if e.Kind == "prepare" && !numbered(e.SQL, "@sqlair_", want) {
				mu.Lock()
				if bad == "" {
					bad = fmt.Sprintf("%s with %d inputs, bound while other goroutines bound statements of other sizes: the SQL does not carry the placeholders 0..%d once each: %s ...",
						what, want, want-1, firstN(e.SQL, 160))
				}
				mu.Unlock()
			}
		}
	}
	maxNames := 0
	for round := 0; round < 16 && bad == ""; round++ {
		rows := 2500 * (round + 1)
		people := make([]zoo.Person, rows)
		for i := range people {
			people[i] = zoo.Person{ID: i + 1, Name: "n", Postcode: i}
		}
		stop := make(chan struct{})
		started := make(chan struct{}, 3)
		reached := make([]int, 3)
		var wg sync.WaitGroup
		for b := 0; b < 3; b++ {
			wg.Add(1)
			go func(b int) {
				defer wg.Done()
				defer func() { recover() }()
				env := newL2Env()
				defer env.db.PlainDB().Close()
				first := true
				for n := maxNames + 1 + b; ; n += 3 {
					select {
					case <-stop:
						return
					default:
					}
					env.state.Reset()
					env.db.Query(ctx, sel, make(zoo.Ints, n)).Run()
					verify(env.state, "an IN list", n)
					reached[b] = n
					if first {
						first = false
						started <- struct{}{}
					}
				}
			}(b)
		}
		for b := 0; b < 3; b++ {
			<-started
		}
		func() {
			defer func() { recover() }()
			env := newL2Env()
			defer env.db.PlainDB().Close()
			env.db.Query(ctx, ins, people).Run()
			verify(env.state, "a bulk insert", rows*3)
		}()
		close(stop)
		wg.Wait()
		maxNames = rows * 3
		for _, n := range reached {
			if n > maxNames {
				maxNames = n
			}
		}
	}
	if bad != "" {
		rep.addHolds("C16", Finding{Case: map[string]any{"scenario": "concurrent growth", "statements": []string{"INSERT INTO person (*) VALUES ($Person.*)", "SELECT name FROM t WHERE a IN ($Ints[:])"}},
			Kind: "holds", Detail: bad, Holds: map[string]bool{"C16": false}})
	}
	return checks
}
