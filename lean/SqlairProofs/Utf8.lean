/-
  The Go-faithful UTF-8 decoder `decodeRune` satisfies the decoder assumptions `DecOK`.
-/
import SqlairProofs.Parser.Defs

namespace Sqlair

theorem bAt_lt (b : Bytes) (i : Nat) : bAt b i < 256 := by
  unfold bAt; exact UInt8.toNat_lt _

/-- the three shapes of a decoding result: an ASCII byte, the replacement rune for one
    invalid byte (which is ≥ 0x80), or a multi-byte rune all of whose bytes are ≥ 0x80 -/
theorem decodeRune_cases (s : Bytes) (p : Nat) (hp : p < s.size) :
    (decodeRune s p = (bAt s p, 1) ∧ bAt s p < 0x80) ∨
    (decodeRune s p = (0xFFFD, 1) ∧ 0x80 ≤ bAt s p) ∨
    (0x80 ≤ (decodeRune s p).1 ∧ 1 ≤ (decodeRune s p).2 ∧ p + (decodeRune s p).2 ≤ s.size ∧
      ∀ i, p ≤ i → i < p + (decodeRune s p).2 → 0x80 ≤ bAt s i) := by
  have h0 := bAt_lt s p
  have h1 := bAt_lt s (p+1)
  have h2 := bAt_lt s (p+2)
  have h3 := bAt_lt s (p+3)
  generalize hd : decodeRune s p = d
  unfold decodeRune at hd
  simp only [] at hd
  rw [if_neg (by omega)] at hd
  by_cases c1 : bAt s p < 0x80
  · rw [if_pos c1] at hd; subst hd; left; exact ⟨rfl, c1⟩
  rw [if_neg c1] at hd
  by_cases c2 : bAt s p < 0xC2
  · rw [if_pos c2] at hd; subst hd; right; left; exact ⟨rfl, by omega⟩
  rw [if_neg c2] at hd
  by_cases c3 : bAt s p < 0xE0
  · rw [if_pos c3] at hd
    repeat' split at hd
    all_goals subst hd
    all_goals
      first
      | (right; left; refine ⟨rfl, ?_⟩; omega)
      | (right; right
         refine ⟨by omega, by omega, by omega, ?_⟩
         intro i hi hi'
         have : i = p ∨ i = p + 1 := by omega
         rcases this with rfl | rfl <;> omega)
  rw [if_neg c3] at hd
  by_cases c4 : bAt s p < 0xF0
  · rw [if_pos c4] at hd
    repeat' split at hd
    all_goals subst hd
    all_goals
      first
      | (right; left; refine ⟨rfl, ?_⟩; omega)
      | (right; right
         refine ⟨by omega, by omega, by omega, ?_⟩
         intro i hi hi'
         have : i = p ∨ i = p + 1 ∨ i = p + 2 := by omega
         rcases this with rfl | rfl | rfl <;> omega)
  rw [if_neg c4] at hd
  by_cases c5 : bAt s p < 0xF5
  · rw [if_pos c5] at hd
    repeat' split at hd
    all_goals subst hd
    all_goals
      first
      | (right; left; refine ⟨rfl, ?_⟩; omega)
      | (right; right
         refine ⟨by omega, by omega, by omega, ?_⟩
         intro i hi hi'
         have : i = p ∨ i = p + 1 ∨ i = p + 2 ∨ i = p + 3 := by omega
         rcases this with rfl | rfl | rfl | rfl <;> omega)
  rw [if_neg c5] at hd
  subst hd; right; left; exact ⟨rfl, by omega⟩
theorem decodeRune_DecOK (inp : Bytes) (letter digit : Nat → Bool) :
    DecOK { inp := inp, dec := decodeRune, letter := letter, digit := digit } where
  size_pos := fun p hp => by
    show 1 ≤ (decodeRune inp p).2
    rcases decodeRune_cases inp p hp with h | h | h
    · simp only [h.1]; omega
    · simp only [h.1]; omega
    · exact h.2.1
  size_le := fun p hp => by
    show p + (decodeRune inp p).2 ≤ inp.size
    have hp' : p < inp.size := hp
    rcases decodeRune_cases inp p hp with h | h | h
    · simp only [h.1]; omega
    · simp only [h.1]; omega
    · exact h.2.2.1
  nl := fun p hp h10 => by
    change (decodeRune inp p).1 = 10 at h10
    show (decodeRune inp p).2 = 1 ∧ bAt inp p = 10
    rcases decodeRune_cases inp p hp with h | h | h
    · simp only [h.1] at h10 ⊢; exact ⟨trivial, h10⟩
    · simp only [h.1] at h10; omega
    · omega
  no_nl := fun p hp hne i hi hi' => by
    change (decodeRune inp p).1 ≠ 10 at hne
    change i < p + (decodeRune inp p).2 at hi'
    show bAt inp i ≠ 10
    rcases decodeRune_cases inp p hp with h | h | h
    · simp only [h.1] at hne hi'
      have : i = p := by omega
      subst this; exact hne
    · simp only [h.1] at hi'
      have : i = p := by omega
      subst this; omega
    · have := h.2.2.2 i hi hi'
      omega

end Sqlair
