/-
  L5Sound/Reuse: the reuse clause of C09.  An entry of `prepCounts` (driver-level prepares
  made by a `run` / `runq` operation) is 0 exactly when the cache holds, for the slot of the
  Query that is run, a driver statement with the Query's SQL shape - and 1 otherwise; it is
  0 as well when there is nothing to run (ill-formed operation).
-/
import SqlairProofs.L5Sound.Hist

namespace Sqlair.Cache

theorem l5s_prepCounts_cons (op : HOp) (rest : List HOp) (st : St) (t : Nat) :
    prepCounts (op :: rest) st t =
      (match op with
        | .run .. | .runq _ =>
          [((l5s_op st t op).1.log.filter isPrepareEv).length - (st.log.filter isPrepareEv).length]
        | _ => []) ++ prepCounts rest (l5s_op st t op).1 (l5s_op st t op).2 := by
  cases op <;> simp only [prepCounts, l5s_op, l5s_gc] <;> rfl

theorem l5s_reuseSpec_cons (op : HOp) (rest : List HOp) (st : St) (t : Nat) :
    l5s_reuseSpec (op :: rest) st t =
      (match op with
        | .run s d shape => [l5s_missCount ((step st (.query t s d shape)).getD st) t]
        | .runq q => [l5s_missCount st (1000 + q)]
        | _ => []) ++ l5s_reuseSpec rest (l5s_op st t op).1 (l5s_op st t op).2 := by
  cases op <;> simp only [l5s_reuseSpec] <;> rfl

theorem l5s_ran_count {st st' : St} {k : Nat} {o : Op} (hr : L5sRan st st' k o) :
    (st'.log.filter isPrepareEv).length - (st.log.filter isPrepareEv).length =
      if l5s_hit st o.s o.d o.sql then 0 else 1 := by
  rcases hr.events with ⟨hh, _, _, _, id, _, hl⟩ | ⟨hh, _, hl⟩
  · rw [hl, hh]; simp [isPrepareEv]
  · rw [hl, hh]
    have : (List.filter isPrepareEv
        [Ev.prepare (st.ds.length + 1) o.d o.sql, Ev.exec (st.ds.length + 1) o.d o.sql]).length = 1 := rfl
    simp [this]

theorem l5s_missCount_start {st : St} {k : Nat} {o : Op} (ho : alook st.ops k = some o) (hpc : o.pc = .start) :
    l5s_missCount st k = if l5s_hit st o.s o.d o.sql then 0 else 1 := by
  unfold l5s_missCount
  rw [getOp_eq, ho]
  simp [hpc]

theorem l5s_missCount_idle {st : St} {k : Nat}
    (h : alook st.ops k = none ∨ ∃ o, alook st.ops k = some o ∧ o.pc = .done) : l5s_missCount st k = 0 := by
  unfold l5s_missCount
  rw [getOp_eq]
  rcases h with h | ⟨o, h, hpc⟩
  · rw [h]
  · rw [h]; simp [hpc]

/-- the count of a `run` operation is what the cache says before it -/
theorem l5s_count_run {st : St} (hs : L5sSeq st) (t s d shape : Nat) :
    ((l5s_op st t (.run s d shape)).1.log.filter isPrepareEv).length - (st.log.filter isPrepareEv).length =
      l5s_missCount ((step st (.query t s d shape)).getD st) t := by
  rcases l5s_run_cases hs t s d shape with ⟨hq, hidle, h⟩ | ⟨hq, o, ho, hpc, h⟩ | ⟨hq, _, _, _, h⟩
  · rw [h, hq, Option.getD_none, l5s_missCount_idle hidle, Nat.sub_self]
  · rw [hq, Option.getD_none, l5s_missCount_start ho hpc]
    exact l5s_ran_count h
  · obtain ⟨st0, hq0⟩ := Option.isSome_iff_exists.1 hq
    rw [hq0, Option.getD_some, l5s_ran_count h]
    obtain ⟨_, _, _, e0⟩ := step_query hq0
    have ho0 : alook st0.ops t = some { s := s, d := d, sql := shape } := by rw [e0]; simp [alook_ainsert]
    rw [l5s_missCount_start ho0 rfl]
    have : l5s_hit st0 s d shape = l5s_hit st s d shape := by rw [e0]; rfl
    rw [this]

/-- the count of a `runq` operation is what the cache says before it -/
theorem l5s_count_runq {st : St} (hs : L5sSeq st) (t q : Nat) :
    ((l5s_op st t (.runq q)).1.log.filter isPrepareEv).length - (st.log.filter isPrepareEv).length =
      l5s_missCount st (1000 + q) := by
  rw [l5s_op_runq_eq]
  rcases l5s_tail_cases hs (1000 + q) with ⟨hidle, h⟩ | ⟨o, ho, hpc, h⟩
  · rw [h, l5s_missCount_idle hidle, Nat.sub_self]
  · rw [l5s_missCount_start ho hpc]
    exact l5s_ran_count h

theorem l5s_prepCounts_spec (h : List HOp) : ∀ {st : St} (_ : L5sSeq st) (t : Nat),
    prepCounts h st t = l5s_reuseSpec h st t := by
  induction h with
  | nil => intro st _ t; rfl
  | cons op rest ih =>
    intro st hs t
    rw [l5s_prepCounts_cons, l5s_reuseSpec_cons, ih (l5s_seq_op hs t op)]
    congr 1
    cases op with
    | run s d shape => simp only; rw [l5s_count_run hs]
    | runq q => simp only; rw [l5s_count_runq hs]
    | _ => rfl

theorem l5s_missCount_le (st : St) (k : Nat) : l5s_missCount st k ≤ 1 := by
  unfold l5s_missCount
  split
  · split
    · split <;> omega
    · omega
  · omega

theorem l5s_reuseSpec_le (h : List HOp) : ∀ (st : St) (t : Nat), ∀ n ∈ l5s_reuseSpec h st t, n ≤ 1 := by
  induction h with
  | nil => intro st t n hn; simp [l5s_reuseSpec] at hn
  | cons op rest ih =>
    intro st t n hn
    rw [l5s_reuseSpec_cons] at hn
    rcases List.mem_append.1 hn with hn | hn
    · cases op <;> simp only [List.mem_singleton, List.not_mem_nil] at hn <;> subst hn <;> exact l5s_missCount_le _ _
    · exact ih _ _ n hn

theorem l5s_prepCounts_append (h1 h2 : List HOp) : ∀ (st : St) (t : Nat),
    prepCounts (h1 ++ h2) st t = prepCounts h1 st t ++ prepCounts h2 (l5s_final h1 st t).1 (l5s_final h1 st t).2 := by
  induction h1 with
  | nil => intro st t; rfl
  | cons op rest ih =>
    intro st t
    rw [List.cons_append, l5s_prepCounts_cons, l5s_prepCounts_cons, ih, List.append_assoc]
    rfl

theorem l5s_reuse_refl (l : List Nat) : holdsC09reuse l l = true := by
  unfold holdsC09reuse
  have : ((l.zip l).all fun (m, o) => decide (o ≤ m)) = true := by
    induction l with
    | nil => rfl
    | cons a l ih => simp only [List.zip_cons_cons, List.all_cons, ih, Bool.and_true]; simp
  rw [this, Bool.or_true]

end Sqlair.Cache
