/-
  E2E/Uses: which samples a node uses.  `Uses st st' names`: going from builder state `st` to
  `st'` keeps the infos, marks exactly the `names` as used (in addition to those already
  marked), and every one of `names` is the key of an info.
-/
import SqlairModel.Bind

namespace Sqlair

def valTy : Val → Option Bytes
  | .acc a => some a.ty
  | .lit _ => none

/-- the type names a node refers to (by kind: a basic insert refers to types in its values,
    every other expression node in its `types`; a bypass node to none) -/
def OSeg.typeNames (s : OSeg) : List Bytes :=
  match s.kind with
  | .bypass => []
  | .basicInsert => s.vals.filterMap valTy
  | _ => s.types.map (·.ty)

structure Uses (st st' : TEB) (names : List Bytes) : Prop where
  infos : st'.argInfos = st.argInfos
  used : ∀ x, x ∈ st'.argUsed ↔ x ∈ st.argUsed ∨ x ∈ names
  known : ∀ x ∈ names, ∃ p ∈ st.argInfos, p.1 = x

theorem Uses.of_eq {st st' : TEB} (h1 : st'.argInfos = st.argInfos) (h2 : st'.argUsed = st.argUsed) :
    Uses st st' [] :=
  ⟨h1, by intro x; rw [h2]; simp, by intro x hx; cases hx⟩

theorem Uses.refl (st : TEB) : Uses st st [] := .of_eq rfl rfl

theorem Uses.trans {a b c : TEB} {n1 n2 : List Bytes} (h1 : Uses a b n1) (h2 : Uses b c n2) :
    Uses a c (n1 ++ n2) := by
  refine ⟨h2.infos.trans h1.infos, ?_, ?_⟩
  · intro x; rw [h2.used, h1.used, List.mem_append, or_assoc]
  · intro x hx
    rcases List.mem_append.1 hx with hx | hx
    · exact h1.known x hx
    · have := h2.known x hx; rw [h1.infos] at this; exact this

theorem Uses.congr {a b : TEB} {n n' : List Bytes} (h : Uses a b n) (e : ∀ x, x ∈ n ↔ x ∈ n') : Uses a b n' :=
  ⟨h.infos, by intro x; rw [h.used, e], by intro x hx; exact h.known x ((e x).2 hx)⟩

theorem getArg_uses {st st' : TEB} {ty : Bytes} {a : ArgInfo} (h : getArg st ty = .ok (a, st')) :
    Uses st st' [ty] := by
  unfold getArg at h
  split at h
  · cases h
  · rename_i k a' hf
    cases h
    refine ⟨rfl, ?_, ?_⟩
    · intro x
      simp only [List.mem_singleton]
      by_cases hc : st.argUsed.contains ty = true
      · simp only [hc, if_true]
        constructor
        · exact Or.inl
        · rintro (h | h)
          · exact h
          · subst h; simpa using hc
      · simp only [hc]
        simp only [Bool.false_eq_true, if_false, List.mem_cons]
        constructor
        · rintro (h | h)
          · exact Or.inr h
          · exact Or.inl h
        · rintro (h | h)
          · exact Or.inr h
          · exact Or.inl h
    · intro x hx
      simp only [List.mem_singleton] at hx
      subst hx
      exact ⟨(k, a), List.mem_of_find?_eq_some hf, by simpa using List.find?_some hf⟩

theorem inputMember_uses {st st' : TEB} {ty m : Bytes} {l : Loc} (h : inputMember st ty m = .ok (l, st')) :
    Uses st st' [ty] := by
  unfold inputMember at h
  split at h
  · cases h
  · rename_i a st1 hg
    split at h
    · cases h
    · cases h; exact getArg_uses hg

theorem markOutput_uses {st st' : TEB} {l : Loc} (h : markOutput st l = .ok st') : Uses st st' [] := by
  unfold markOutput at h
  split at h
  · cases h
  · cases h; exact .of_eq rfl rfl

theorem markOutputs_uses : ∀ (ms : List (Loc × Bytes)) (st st' : TEB), markOutputs st ms = .ok st' →
    Uses st st' [] := by
  intro ms
  induction ms with
  | nil => intro st st' h; simp only [markOutputs] at h; cases h; exact .refl _
  | cons p rest ih =>
    intro st st' h
    obtain ⟨l, t⟩ := p
    simp only [markOutputs] at h
    split at h
    · cases h
    · rename_i st1 hm
      exact (markOutput_uses hm).trans (ih _ _ h)

theorem outputMember_uses {st st' : TEB} {ty m : Bytes} {l : Loc} (h : outputMember st ty m = .ok (l, st')) :
    Uses st st' [ty] := by
  unfold outputMember at h
  split at h
  · cases h
  · rename_i a st1 hg
    split at h
    · cases h
    · split at h
      · cases h
      · rename_i st2 hm
        cases h
        exact (getArg_uses hg).trans (markOutput_uses hm)

theorem allStructInputs_uses {st st' : TEB} {ty : Bytes} {ms : List (Loc × Bytes)}
    (h : allStructInputs st ty = .ok (ms, st')) : Uses st st' [ty] := by
  unfold allStructInputs at h
  split at h
  · cases h
  · rename_i a st1 hg
    split at h
    · cases h
    · cases h; exact getArg_uses hg

theorem allStructOutputs_uses {st st' : TEB} {ty : Bytes} {ms : List (Loc × Bytes)}
    (h : allStructOutputs st ty = .ok (ms, st')) : Uses st st' [ty] := by
  unfold allStructOutputs at h
  split at h
  · cases h
  · rename_i a st1 hg
    split at h
    · cases h
    · split at h
      · cases h
      · rename_i st2 hm
        cases h
        exact (getArg_uses hg).trans (markOutputs_uses _ _ _ hm)

theorem astInsertCols_uses : ∀ (srcs : List Acc) (st st' : TEB) (cols cols' : List TCol),
    astInsertCols st srcs cols = .ok (cols', st') → Uses st st' (srcs.map (·.ty)) := by
  intro srcs
  induction srcs with
  | nil => intro st st' cols cols' h; simp only [astInsertCols] at h; cases h; exact .refl _
  | cons src rest ih =>
    intro st st' cols cols' h
    simp only [astInsertCols] at h
    split at h
    · split at h
      · cases h
      · rename_i ms st1 ha
        exact (allStructInputs_uses ha).trans (ih _ _ _ _ h)
    · split at h
      · cases h
      · rename_i l st1 ha
        exact (inputMember_uses ha).trans (ih _ _ _ _ h)

theorem colInsertProviders_uses : ∀ (srcs : List Acc) (st st' : TEB) (prov prov' : List (Bytes × List Loc))
    (rem rem' : Option Bytes),
    colInsertProviders st srcs prov rem = .ok ((prov', rem'), st') →
    Uses st st' (srcs.map (·.ty)) ∧ (∀ m, rem' = some m → rem = some m ∨ m ∈ srcs.map (·.ty)) := by
  intro srcs
  induction srcs with
  | nil =>
    intro st st' prov prov' rem rem' h
    simp only [colInsertProviders] at h
    cases h; exact ⟨.refl _, fun m hm => .inl hm⟩
  | cons src rest ih =>
    intro st st' prov prov' rem rem' h
    simp only [colInsertProviders] at h
    split at h
    · split at h
      · cases h
      · rename_i hg
        split at h
        · cases h
        · obtain ⟨h1, h2⟩ := ih _ _ _ _ _ _ h
          refine ⟨(getArg_uses hg).trans h1, ?_⟩
          intro m hm
          rcases h2 m hm with h3 | h3
          · cases h3; exact .inr (by simp)
          · exact .inr (List.mem_cons_of_mem _ h3)
      · rename_i hg
        split at h
        · cases h
        · rename_i ms st2 ha
          obtain ⟨h1, h2⟩ := ih _ _ _ _ _ _ h
          refine ⟨(((getArg_uses hg).trans (allStructInputs_uses ha)).trans h1).congr ?_, ?_⟩
          · intro x; simp
          · intro m hm
            rcases h2 m hm with h3 | h3
            · exact .inl h3
            · exact .inr (List.mem_cons_of_mem _ h3)
    · split at h
      · cases h
      · rename_i l st1 ha
        obtain ⟨h1, h2⟩ := ih _ _ _ _ _ _ h
        refine ⟨(inputMember_uses ha).trans h1, ?_⟩
        intro m hm
        rcases h2 m hm with h3 | h3
        · exact .inl h3
        · exact .inr (List.mem_cons_of_mem _ h3)

theorem colInsertCols_uses (prov : List (Bytes × List Loc)) (rem : Option Bytes) :
    ∀ (cs : List Col) (st st' : TEB) (cols cols' : List TCol),
    colInsertCols prov rem st cs cols = .ok (cols', st') →
    ∃ names, Uses st st' names ∧ ∀ x ∈ names, rem = some x := by
  intro cs
  induction cs with
  | nil =>
    intro st st' cols cols' h
    simp only [colInsertCols] at h
    cases h; exact ⟨[], .refl _, by simp⟩
  | cons c rest ih =>
    intro st st' cols cols' h
    simp only [colInsertCols] at h
    split at h
    · exact ih _ _ _ _ h
    · cases h
    · rename_i m _
      split at h
      · cases h
      · rename_i l st1 ha
        obtain ⟨names, h1, h2⟩ := ih _ _ _ _ h
        refine ⟨[m] ++ names, (inputMember_uses ha).trans h1, ?_⟩
        intro x hx
        rcases List.mem_append.1 hx with hx | hx
        · simp only [List.mem_singleton] at hx; rw [hx]
        · exact h2 x hx
    · cases h

theorem basicInsertCols_uses : ∀ (ps : List (Col × Val)) (st st' : TEB) (cols cols' : List TCol),
    basicInsertCols st ps cols = .ok (cols', st') → Uses st st' (ps.filterMap (fun p => valTy p.2)) := by
  intro ps
  induction ps with
  | nil => intro st st' cols cols' h; simp only [basicInsertCols] at h; cases h; exact .refl _
  | cons p rest ih =>
    intro st st' cols cols' h
    obtain ⟨c, v⟩ := p
    simp only [basicInsertCols] at h
    split at h
    · simpa [valTy] using ih _ _ _ _ h
    · rename_i a
      split at h
      · cases h
      · rename_i l st1 ha
        have := (inputMember_uses ha).trans (ih _ _ _ _ h)
        simpa [valTy] using this

theorem outGenerated_uses (pref : Bytes) : ∀ (ts : List Acc) (st st' : TEB) (ocs ocs' : List (Bytes × Loc)),
    outGenerated pref st ts ocs = .ok (ocs', st') → Uses st st' (ts.map (·.ty)) := by
  intro ts
  induction ts with
  | nil => intro st st' ocs ocs' h; simp only [outGenerated] at h; cases h; exact .refl _
  | cons t rest ih =>
    intro st st' ocs ocs' h
    simp only [outGenerated] at h
    split at h
    · split at h
      · cases h
      · rename_i ms st1 ha
        exact (allStructOutputs_uses ha).trans (ih _ _ _ _ h)
    · split at h
      · cases h
      · rename_i l st1 ha
        exact (outputMember_uses ha).trans (ih _ _ _ _ h)

theorem outIntoStar_uses (ty : Bytes) : ∀ (cs : List Col) (st st' : TEB) (ocs ocs' : List (Bytes × Loc)),
    outIntoStar ty st cs ocs = .ok (ocs', st') → Uses st st' (cs.map fun _ => ty) := by
  intro cs
  induction cs with
  | nil => intro st st' ocs ocs' h; simp only [outIntoStar] at h; cases h; exact .refl _
  | cons c rest ih =>
    intro st st' ocs ocs' h
    simp only [outIntoStar] at h
    split at h
    · cases h
    · rename_i l st1 ha
      exact (outputMember_uses ha).trans (ih _ _ _ _ h)

theorem outPairwise_uses : ∀ (ps : List (Col × Acc)) (st st' : TEB) (ocs ocs' : List (Bytes × Loc)),
    outPairwise st ps ocs = .ok (ocs', st') → Uses st st' (ps.map (·.2.ty)) := by
  intro ps
  induction ps with
  | nil => intro st st' ocs ocs' h; simp only [outPairwise] at h; cases h; exact .refl _
  | cons p rest ih =>
    intro st st' ocs ocs' h
    obtain ⟨c, t⟩ := p
    simp only [outPairwise] at h
    split at h
    · cases h
    · rename_i l st1 ha
      exact (outputMember_uses ha).trans (ih _ _ _ _ h)

theorem Uses.add {st st' : TEB} {names : List Bytes} (h : Uses st st' names) (e : TExpr) :
    Uses st (st'.add e) names := ⟨h.infos, h.used, h.known⟩

end Sqlair

namespace Sqlair

theorem mem_map_const {α : Type} {l : List α} (hl : l ≠ []) (c x : Bytes) :
    x ∈ l.map (fun _ => c) ↔ x ∈ [c] := by
  cases l with
  | nil => exact absurd rfl hl
  | cons a as => simp [eq_comm]

/-- a node marks exactly the types it refers to as used, and all of them are samples -/
theorem bindSeg_uses {st st' : TEB} {s : OSeg} (h : bindSeg st s = .ok st') : Uses st st' s.typeNames := by
  unfold bindSeg at h
  unfold OSeg.typeNames
  split at h
  · rename_i hk
    cases h; rw [hk]; exact (Uses.refl st).add _
  · rename_i hk
    rw [hk]
    split at h
    · rename_i a hty
      split at h
      · cases h
      · rename_i l st1 ha
        cases h; rw [hty]; exact (inputMember_uses ha).add _
    · cases h
  · rename_i hk
    rw [hk]
    split at h
    · rename_i a hty
      split at h
      · cases h
      · rename_i ai st1 hg
        split at h
        · cases h
        · cases h; rw [hty]; exact (getArg_uses hg).add _
    · cases h
  · rename_i hk
    rw [hk]
    split at h
    · cases h
    · rename_i cols st1 ha
      cases h; exact (astInsertCols_uses _ _ _ _ _ ha).add _
  · rename_i hk
    rw [hk]
    split at h
    · cases h
    · rename_i prov rem st1 hp
      obtain ⟨h1, hrem⟩ := colInsertProviders_uses _ _ _ _ _ _ _ hp
      split at h
      · cases h
      · rename_i cols st2 ha
        cases h
        obtain ⟨names, h2, hn⟩ := colInsertCols_uses _ _ _ _ _ _ _ ha
        refine ((h1.trans h2).congr ?_).add _
        intro x
        rw [List.mem_append]
        constructor
        · rintro (hx | hx)
          · exact hx
          · rcases hrem x (hn x hx) with h3 | h3
            · cases h3
            · exact h3
        · exact Or.inl
  · rename_i hk
    rw [hk]
    split at h
    · cases h
    · rename_i hlen
      split at h
      · cases h
      · rename_i cols st1 ha
        cases h
        have hlen' : s.cols.length = s.vals.length := by simpa using hlen
        have := basicInsertCols_uses _ _ _ _ _ ha
        have e : (s.cols.zip s.vals).filterMap (fun p => valTy p.2) = s.vals.filterMap valTy := by
          have : (fun p : Col × Val => valTy p.2) = valTy ∘ Prod.snd := rfl
          rw [this, ← List.filterMap_map, List.map_snd_zip (by omega)]
        rw [e] at this
        exact this.add _
  · rename_i hk
    rw [hk]
    simp only at h
    split at h
    · split at h
      · cases h
      · rename_i ocs st1 ha
        cases h; exact (outGenerated_uses _ _ _ _ _ _ ha).add _
    · rename_i hc1
      split at h
      · cases h
      · split at h
        · rename_i hst
          split at h
          · cases h
          · rename_i ocs st1 ha
            cases h
            have hcols : s.cols ≠ [] := by
              intro hnil
              apply hc1
              simp [hnil]
            have hnt : s.types.length = 1 := by
              simp only [Bool.and_eq_true, beq_iff_eq] at hst; exact hst.2
            obtain ⟨t, ht⟩ : ∃ t, s.types = [t] := by
              match hs : s.types, hnt with
              | [t], _ => exact ⟨t, rfl⟩
            refine ((outIntoStar_uses _ _ _ _ _ _ ha).congr ?_).add _
            intro x
            rw [mem_map_const hcols, ht]
            simp
        · split at h
          · cases h
          · split at h
            · rename_i hlen
              split at h
              · cases h
              · rename_i ocs st1 ha
                cases h
                have hlen' : s.cols.length = s.types.length := by simpa using hlen
                have := outPairwise_uses _ _ _ _ _ ha
                have e : (s.cols.zip s.types).map (·.2.ty) = s.types.map (·.ty) := by
                  have : (fun p : Col × Acc => p.2.ty) = (·.ty) ∘ Prod.snd := rfl
                  rw [this, ← List.map_map, List.map_snd_zip (by omega)]
                rw [e] at this
                exact this.add _
            · cases h

theorem bindSegs_uses : ∀ (segs : List OSeg) (st st' : TEB), bindSegs st segs = .ok st' →
    Uses st st' (segs.flatMap OSeg.typeNames) := by
  intro segs
  induction segs with
  | nil => intro st st' h; simp only [bindSegs] at h; cases h; exact .refl _
  | cons s rest ih =>
    intro st st' h
    simp only [bindSegs] at h
    split at h
    · cases h
    · rename_i st1 hs
      exact (bindSeg_uses hs).trans (ih _ _ h)

end Sqlair
