/-
  `sql.Stmt.Close` on a statement that has not been closed yet, and the steps built on it:
  the finalizer of an evicted statement (`finDS`), the eviction micro-step shared by the
  finalizers of Statement and DB (`evictClose`), and `iterClose`.
-/
import SqlairProofs.Cache.Insert

namespace Sqlair.Cache

/-! ### what `closeStmt` does -/

def closeD (held : Bool) (x : DStmt) : DStmt :=
  { x with closeCalled := true, closeCalls := x.closeCalls + 1,
           driverClosed := if held then x.driverClosed else true }

theorem dsUpd_dsUpd (ds : List DStmt) (id : Nat) (f g : DStmt → DStmt) (hf : ∀ x, (f x).id = x.id) :
    dsUpd (dsUpd ds id f) id g = dsUpd ds id (fun x => g (f x)) := by
  unfold dsUpd
  rw [List.map_map]
  apply List.map_congr_left
  intro x _
  simp only [Function.comp]
  by_cases e : x.id = id
  · simp [e, hf]
  · simp [e]

theorem iterHolds_eq (st : St) (id : Nat) : st.iterHolds id = st.iters.any (·.2 == id) := rfl

theorem closeStmt_eq {st : St} {id : Nat} {x : DStmt} (hx : dsGet st.ds id = some x) (hc : x.closeCalled = false) :
    st.closeStmt id =
      { st with ds := dsUpd st.ds id (closeD (st.iters.any (·.2 == id))),
                log := if st.iters.any (·.2 == id) then st.log else st.log ++ [.close id] } := by
  unfold St.closeStmt
  rw [getDS_eq, hx]
  simp only [hc, updDS_eq, iterHolds_eq, St.emit]
  cases hh : st.iters.any (·.2 == id)
  · simp only [Bool.not_false, Bool.and_self, if_true, Bool.false_eq_true, if_false]
    rw [dsUpd_dsUpd _ _ _ _ (by intro x; rfl)]
    rfl
  · simp only [Bool.not_true, Bool.and_false, Bool.false_eq_true, if_false, if_true]
    rfl

/-- the table `ds'` is `ds` with statement `id` (which was `x`, not yet closed) closed -/
structure CloseRel (ds ds' : List DStmt) (id : Nat) (x : DStmt) (held : Bool) : Prop where
  hx : dsGet ds id = some x
  hc : x.closeCalled = false
  ids : IdsOK ds'
  get : ∃ x', (∀ id', dsGet ds' id' = if id' = id then some x' else dsGet ds id') ∧
    x'.db = x.db ∧ x'.sql = x.sql ∧ x'.closeCalled = true ∧ x'.closeCalls = 1 ∧ x'.finalizer = false ∧
    x'.driverClosed = !held

theorem closeRel_closeD {ds : List DStmt} (hd : DsOK ds) {id : Nat} {x : DStmt} (hx : dsGet ds id = some x)
    (hc : x.closeCalled = false) (hf : x.finalizer = false) (held : Bool) :
    CloseRel ds (dsUpd ds id (closeD held)) id x held := by
  refine ⟨hx, hc, hd.ids.upd (by intro x; rfl), closeD held x, ?_, rfl, rfl, rfl, ?_, hf, ?_⟩
  · intro id'; rw [dsGet_upd (by intro x; rfl), hx]; rfl
  · have := hd.calls id x hx; simp [hc] at this; simp [closeD, this]
  · have : x.driverClosed = false := by
      cases h : x.driverClosed with
      | false => rfl
      | true => have := hd.dclosed id x hx h; rw [hc] at this; cases this
    cases held <;> simp [closeD, this]

theorem closeRel_closeFin {ds : List DStmt} (hd : DsOK ds) {id : Nat} {x : DStmt} (hx : dsGet ds id = some x)
    (hc : x.closeCalled = false) (held : Bool) :
    CloseRel ds (dsUpd (dsUpd ds id (closeD held)) id fun x => { x with finalizer := false }) id x held := by
  rw [dsUpd_dsUpd _ _ _ _ (by intro x; rfl)]
  refine ⟨hx, hc, hd.ids.upd (by intro x; rfl), { closeD held x with finalizer := false }, ?_, rfl, rfl, rfl, ?_, rfl, ?_⟩
  · intro id'; rw [dsGet_upd (by intro x; rfl), hx]; rfl
  · have := hd.calls id x hx; simp [hc] at this; simp [closeD, this]
  · have : x.driverClosed = false := by
      cases h : x.driverClosed with
      | false => rfl
      | true => have := hd.dclosed id x hx h; rw [hc] at this; cases this
    cases held <;> simp [closeD, this]

section
variable {ds ds' : List DStmt} {id : Nat} {x : DStmt} {held : Bool}

theorem CloseRel.dsOK (hr : CloseRel ds ds' id x held) (hd : DsOK ds) : DsOK ds' := by
  obtain ⟨x', hg, h1, h2, h3, h4, h5, h6⟩ := hr.get
  constructor
  · exact hr.ids
  · intro id' y hy hf
    rw [hg] at hy
    split at hy
    · cases hy; rw [h5] at hf; cases hf
    · exact hd.fin_open id' y hy hf
  · intro id' y hy
    rw [hg] at hy
    split at hy
    · cases hy; simp [h3, h4]
    · exact hd.calls id' y hy
  · intro id' y hy hf
    rw [hg] at hy
    split at hy
    · cases hy; exact h3
    · exact hd.dclosed id' y hy hf

theorem CloseRel.iters (hr : CloseRel ds ds' id x held) {iters : List (Nat × Nat)} (hi : ItersOK iters ds)
    (hh : held = iters.any (·.2 == id)) : ItersOK iters ds' := by
  obtain ⟨x', hg, h1, h2, h3, h4, h5, h6⟩ := hr.get
  constructor
  · exact hi.nodup
  · intro h id' hm
    obtain ⟨y, hy, hyc⟩ := hi.isOpen h id' hm
    rw [hg]
    split
    · rename_i e
      subst e
      refine ⟨x', rfl, ?_⟩
      have : held = true := by rw [hh]; exact List.any_eq_true.2 ⟨(h, id'), hm, by simp⟩
      rw [h6, this]; rfl
    · exact ⟨y, hy, hyc⟩
  · intro id' y hy hcc hdc
    rw [hg] at hy
    split at hy
    · rename_i e
      cases hy
      rw [h6] at hdc
      have : held = true := by cases held <;> simp_all
      rw [hh] at this
      obtain ⟨p, hp, hp2⟩ := List.any_eq_true.1 this
      refine ⟨p.1, ?_⟩
      have : p = (p.1, id') := by cases p; simp_all
      rw [← this]; exact hp
    · exact hi.waiting id' y hy hcc hdc

theorem CloseRel.log (hr : CloseRel ds ds' id x held) (hd : DsOK ds) {log : List Ev} (hl : LogOK log ds) :
    LogOK (if held then log else log ++ [.close id]) ds' := by
  obtain ⟨x', hg, h1, h2, h3, h4, h5, h6⟩ := hr.get
  have hxdc : x.driverClosed = false := by
    cases h : x.driverClosed with
    | false => rfl
    | true => have := hd.dclosed id x hr.hx h; rw [hr.hc] at this; cases this
  have hnot : Ev.close id ∉ log := by
    intro hm
    obtain ⟨y, hy, hyc⟩ := hl.close id hm
    rw [hr.hx] at hy; cases hy; rw [hxdc] at hyc; cases hyc
  have hsub : ∀ e ∈ log, e ∈ (if held then log else log ++ [.close id]) := by
    intro e he; split
    · exact he
    · exact List.mem_append_left _ he
  constructor
  · intro id' y hy
    apply hsub
    rw [hg] at hy
    split at hy
    · rename_i e; cases hy; rw [h1, h2, e]; exact hl.prep id x hr.hx
    · exact hl.prep id' y hy
  · split
    · exact hl.exec
    · apply exec_append hl.exec
      intro _ _ _ e; cases e
  · intro id' hm
    split at hm
    · exact hl.noEC id' hm
    · rcases List.mem_append.1 hm with hm | hm
      · exact hl.noEC id' hm
      · simp at hm
  · intro id' hm
    rw [hg]
    by_cases e : id' = id
    · subst e
      simp only [if_true]
      refine ⟨x', rfl, ?_⟩
      rw [h6]
      cases held
      · rfl
      · simp only [if_true] at hm; exact absurd hm hnot
    · simp only [e, if_false]
      apply hl.close
      split at hm
      · exact hm
      · rcases List.mem_append.1 hm with hm | hm
        · exact hm
        · simp at hm; exact absurd hm e
  · intro id'
    split
    · exact hl.close1 id'
    · rw [List.count_append]
      by_cases e : id' = id
      · subst e
        have : List.count (Ev.close id') log = 0 := List.count_eq_zero.2 hnot
        simp [this]
      · have := hl.close1 id'
        have e' : ¬ id = id' := fun h => e h.symm
        simp [e']; exact this
  · intro id' y hy hdc
    rw [hg] at hy
    split at hy
    · rename_i e
      cases hy
      rw [h6] at hdc
      cases held
      · simp [e]
      · cases hdc
    · exact hsub _ (hl.logged id' y hy hdc)

theorem CloseRel.cache (hr : CloseRel ds ds' id x held) {sm : List (Nat × List (Nat × Nat))} (hc : CacheOK sm ds)
    (hn : ∀ s d, lookup2 sm s d ≠ some id) : CacheOK sm ds' := by
  obtain ⟨x', hg, _⟩ := hr.get
  constructor
  · intro s d id' hl
    obtain ⟨y, hy, h⟩ := hc.ok s d id' hl
    refine ⟨y, ?_, h⟩
    rw [hg, if_neg]; exact hy
    intro e; subst e; exact hn s d hl
  · exact hc.inj

theorem CloseRel.ops (hr : CloseRel ds ds' id x held) {ops : List (Nat × Op)} {sm : List (Nat × List (Nat × Nat))}
    {dm : List (Nat × List Nat)} (ho : OpsOK ops sm dm ds)
    (hn : ∀ t o, (t, o) ∈ ops → o.pc ≠ .prepared id ∧ o.pc ≠ .ready id) : OpsOK ops sm dm ds' := by
  obtain ⟨x', hg, _⟩ := hr.get
  constructor
  · exact ho.nodup
  · exact ho.keys
  · intro t o id' hm hpc
    obtain ⟨y, hy, h⟩ := ho.prepared t o id' hm hpc
    refine ⟨y, ?_, h⟩
    rw [hg, if_neg]; exact hy
    intro e; subst e; exact (hn t o hm).1 hpc
  · intro t o id' hm hpc
    obtain ⟨y, hy, h⟩ := ho.ready t o id' hm hpc
    refine ⟨y, ?_, h⟩
    rw [hg, if_neg]; exact hy
    intro e; subst e; exact (hn t o hm).2 hpc

theorem CloseRel.noLeak (hr : CloseRel ds ds' id x held) {ops : List (Nat × Op)} {sm sm' : List (Nat × List (Nat × Nat))}
    (hn : NoLeak ds sm ops)
    (hsm : ∀ s d id', id' ≠ id → lookup2 sm s d = some id' → lookup2 sm' s d = some id') : NoLeak ds' sm' ops := by
  obtain ⟨x', hg, h1, h2, h3, _⟩ := hr.get
  intro id' y hy
  rw [hg] at hy
  split at hy
  · cases hy; exact Or.inl h3
  · rename_i e
    rcases hn id' y hy with h | h | ⟨s, d, h⟩ | h
    · exact Or.inl h
    · exact Or.inr (Or.inl h)
    · exact Or.inr (Or.inr (Or.inl ⟨s, d, hsm s d id' e h⟩))
    · exact Or.inr (Or.inr (Or.inr h))

end

/-! ### finDS -/

theorem step_finDS {st st' : St} {id : Nat} (h : step st (.finDS id) = some st') :
    ∃ x, dsGet st.ds id = some x ∧ x.finalizer = true ∧ st.dsReachable id = false ∧
      st' = (st.closeStmt id).updDS id fun x => { x with finalizer := false } := by
  simp only [step, getDS_eq] at h
  split at h
  · rename_i x hx
    refine ⟨x, hx, ?_⟩
    split at h
    · simp at h
    · rename_i hc
      simp at hc h
      exact ⟨hc.1, hc.2, h.symm⟩
  · simp at h

theorem inCache_of_lookup2 {st : St} {s d id : Nat} (h : lookup2 st.stmtDB s d = some id) : st.inCache id = true := by
  obtain ⟨row, hrow, hid⟩ := lookup2_some_hasKey h
  unfold St.inCache
  apply List.any_eq_true.2
  refine ⟨(s, row), alook_some_mem hrow, ?_⟩
  apply List.any_eq_true.2
  exact ⟨(d, id), alook_some_mem hid, by simp⟩

theorem opHolds_false {st : St} {id : Nat} (h : st.opHolds id = false) :
    ∀ t o, (t, o) ∈ st.ops → o.pc ≠ .prepared id ∧ o.pc ≠ .ready id := by
  intro t o hm
  unfold St.opHolds at h
  have := List.any_eq_false.1 h (t, o) hm
  simp at this
  exact this

theorem inv_finDS {st st' : St} {id : Nat} (hi : Inv st) (h : step st (.finDS id) = some st') : Inv st' := by
  obtain ⟨x, hx, hfin, hreach, rfl⟩ := step_finDS h
  have hcc := hi.dsOK.fin_open id x hx hfin
  rw [closeStmt_eq hx hcc, updDS_eq]
  unfold St.dsReachable at hreach
  simp only [Bool.or_eq_false_iff] at hreach
  obtain ⟨⟨hnc, hnop⟩, hnit⟩ := hreach
  have hnc' : ∀ s d, lookup2 st.stmtDB s d ≠ some id := by
    intro s d hl; rw [inCache_of_lookup2 hl] at hnc; cases hnc
  have hr := closeRel_closeFin hi.dsOK hx hcc (st.iters.any (·.2 == id))
  exact {
    dsOK := hr.dsOK hi.dsOK
    maps := hi.maps
    cache := hr.cache hi.cache hnc'
    live := hi.live
    ops := hr.ops hi.ops (opHolds_false hnop)
    iters := hr.iters hi.iters rfl
    noLeak := hr.noLeak hi.noLeak (fun _ _ _ _ h => h)
    log := hr.log hi.dsOK hi.log }

end Sqlair.Cache
