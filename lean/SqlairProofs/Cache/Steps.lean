/-
  What each enabled step does, in terms of the component-level views of Inv.lean.
-/
import SqlairProofs.Cache.Inv

namespace Sqlair.Cache

theorem step_newS {st st' : St} (h : step st .newS = some st') :
    st' = { st with nextS := st.nextS + 1, stmtDB := st.stmtDB ++ [(st.nextS, [])], liveS := st.liveS ++ [st.nextS] } := by
  simp only [step] at h
  simp at h
  exact h.symm

theorem step_newD {st st' : St} (h : step st .newD = some st') :
    st' = { st with nextD := st.nextD + 1, dbStmt := st.dbStmt ++ [(st.nextD, [])], liveD := st.liveD ++ [st.nextD] } := by
  simp only [step] at h
  simp at h
  exact h.symm

theorem step_dropS {st st' : St} {s : Nat} (h : step st (.dropS s) = some st') :
    s ∈ st.liveS ∧ st' = { st with liveS := st.liveS.filter (· != s) } := by
  simp only [step] at h
  split at h
  · rename_i hc
    simp at hc h
    exact ⟨hc, h.symm⟩
  · simp at h

theorem step_dropD {st st' : St} {d : Nat} (h : step st (.dropD d) = some st') :
    d ∈ st.liveD ∧ st' = { st with liveD := st.liveD.filter (· != d) } := by
  simp only [step] at h
  split at h
  · rename_i hc
    simp at hc h
    exact ⟨hc, h.symm⟩
  · simp at h

theorem step_query {st st' : St} {t s d q : Nat} (h : step st (.query t s d q) = some st') :
    s ∈ st.liveS ∧ d ∈ st.liveD ∧ alook st.ops t = none ∧
      st' = { st with ops := ainsert st.ops t { s := s, d := d, sql := q } } := by
  simp only [step] at h
  split at h
  · rename_i hc
    simp [getOp_eq] at hc
    simp at h
    exact ⟨hc.1.1, hc.1.2, hc.2, h.symm⟩
  · simp at h

theorem step_lookup {st st' : St} {t : Nat} (h : step st (.lookup t) = some st') :
    ∃ o, alook st.ops t = some o ∧ o.pc = .start ∧
      ((∃ id x, lookup2 st.stmtDB o.s o.d = some id ∧ dsGet st.ds id = some x ∧ x.sql = o.sql ∧
          st' = { st with ops := ainsert st.ops t { o with pc := .ready id } }) ∨
        st' = { st with ops := ainsert st.ops t { o with pc := .missed } }) := by
  simp only [step, getOp_eq, getDS_eq, setOp_eq] at h
  split at h
  · rename_i o ho
    refine ⟨o, ho, ?_⟩
    split at h
    · simp at h
    · rename_i hpc
      simp at hpc
      refine ⟨hpc, ?_⟩
      split at h
      · rename_i id hid
        split at h
        · rename_i x hx
          split at h
          · rename_i hsql
            left
            simp at hsql h
            exact ⟨id, x, hid, hx, hsql, h.symm⟩
          · right; simp at h; exact h.symm
        · right; simp at h; exact h.symm
      · right; simp at h; exact h.symm
  · simp at h

theorem step_prepare {st st' : St} {t : Nat} (h : step st (.prepare t) = some st') :
    ∃ o, alook st.ops t = some o ∧ o.pc = .missed ∧
      st' = { st with
        ds := st.ds ++ [({ id := st.ds.length + 1, db := o.d, sql := o.sql } : DStmt)],
        log := st.log ++ [.prepare (st.ds.length + 1) o.d o.sql],
        ops := ainsert st.ops t { o with pc := .prepared (st.ds.length + 1) } } := by
  simp only [step, getOp_eq, setOp_eq, St.emit] at h
  split at h
  · rename_i o ho
    refine ⟨o, ho, ?_⟩
    split at h
    · simp at h
    · rename_i hpc
      simp at hpc h
      exact ⟨hpc, h.symm⟩
  · simp at h

/-- the driver-statement table after the eviction part of `insert` -/
def evictDs (st : St) (s d : Nat) : List DStmt :=
  match lookup2 st.stmtDB s d with
  | some old => dsUpd st.ds old fun x => { x with finalizer := true }
  | none => st.ds

theorem step_insert {st st' : St} {t : Nat} (h : step st (.insert t) = some st') :
    ∃ o id, alook st.ops t = some o ∧ o.pc = .prepared id ∧
      st' = { st with
        ds := evictDs st o.s o.d,
        stmtDB := set2 st.stmtDB o.s o.d id,
        dbStmt := addIdx st.dbStmt o.d o.s,
        ops := ainsert st.ops t { o with pc := .ready id } } := by
  simp only [step, getOp_eq, setOp_eq, updDS_eq] at h
  split at h
  · rename_i o ho
    split at h
    · rename_i id hpc
      refine ⟨o, id, ho, hpc, ?_⟩
      simp at h
      rw [← h]
      unfold evictDs
      cases lookup2 st.stmtDB o.s o.d <;> rfl
    · simp at h
  · simp at h

theorem step_exec {st st' : St} {t : Nat} {iter : Option Nat} (h : step st (.exec t iter) = some st') :
    ∃ o id x, alook st.ops t = some o ∧ o.pc = .ready id ∧ dsGet st.ds id = some x ∧
      ((x.closeCalled = true ∧
          st' = { st with ops := ainsert st.ops t { o with pc := .done }, log := st.log ++ [.execClosed id] }) ∨
       (x.closeCalled = false ∧
          ((iter = none ∧
            st' = { st with ops := ainsert st.ops t { o with pc := .done }, log := st.log ++ [.exec id x.db x.sql] }) ∨
           (∃ hd, iter = some hd ∧ (∀ p ∈ st.iters, p.1 ≠ hd) ∧
            st' = { st with ops := ainsert st.ops t { o with pc := .done }, log := st.log ++ [.exec id x.db x.sql],
                            iters := st.iters ++ [(hd, id)] })))) := by
  simp only [step, getOp_eq, setOp_eq, getDS_eq, St.emit] at h
  split at h
  · rename_i o ho
    split at h
    · rename_i id hpc
      split at h
      · rename_i x hx
        refine ⟨o, id, x, ho, hpc, hx, ?_⟩
        split at h
        · rename_i hc
          left; simp at h; exact ⟨hc, h.symm⟩
        · rename_i hc
          right
          simp at hc
          refine ⟨hc, ?_⟩
          split at h
          · rename_i hd
            right
            by_cases hany : (st.iters.any fun x => x.fst == hd) = true
            · simp [hany] at h
            · simp only [hany] at h
              simp only [Bool.false_eq_true, if_false, Option.some.injEq] at h
              exact ⟨hd, rfl, fun p hp e => hany (List.any_eq_true.2 ⟨p, hp, by simp [e]⟩), h.symm⟩
          · left; simp at h; exact ⟨rfl, h.symm⟩
      · simp at h
    · simp at h
  · simp at h

end Sqlair.Cache
