// Package desc translates Go types and values, by reflection, into the descriptors of the
// Lean model's reflect universe (type table + value trees).  It is part of the trusted
// base (DESIGN §3).
package desc

import (
	"database/sql"
	"database/sql/driver"
	"encoding/hex"
	"reflect"
	"unicode"
	"unicode/utf8"

	"verifharness/internal/fakedrv"
)

var scannerType = reflect.TypeOf((*sql.Scanner)(nil)).Elem()

func hx(s string) string { return hex.EncodeToString([]byte(s)) }

// Table assigns ids to reflect.Types (identity of types = identity of ids).
type Table struct {
	ids   map[reflect.Type]int
	Descs []map[string]any
	runes map[rune]bool
}

func NewTable() *Table {
	return &Table{ids: map[reflect.Type]int{}, runes: map[rune]bool{}, Descs: []map[string]any{}}
}

// Cls returns Go's classification of every non-ASCII rune seen in tags.
func (t *Table) Cls(extra ...string) []any {
	for _, s := range extra {
		t.noteRunes(s)
	}
	out := []any{}
	for r := range t.runes {
		k := 0
		if unicode.IsLetter(r) {
			k = 1
		} else if unicode.IsDigit(r) {
			k = 2
		}
		if k != 0 {
			out = append(out, []any{int(r), k})
		}
	}
	return out
}

func (t *Table) noteRunes(s string) {
	for i := 0; i < len(s); i++ {
		r, _ := utf8.DecodeRuneInString(s[i:])
		if r >= 0x80 {
			t.runes[r] = true
		}
	}
}

// ID registers the type (and everything reachable from it) and returns its id.
func (t *Table) ID(rt reflect.Type) int {
	if id, ok := t.ids[rt]; ok {
		return id
	}
	id := len(t.Descs)
	t.ids[rt] = id
	d := map[string]any{"kind": rt.Kind().String(), "name": hx(rt.Name()), "str": rt.String()}
	t.Descs = append(t.Descs, d)
	switch rt.Kind() {
	case reflect.Pointer, reflect.Slice, reflect.Array, reflect.Chan:
		d["elem"] = t.ID(rt.Elem())
	case reflect.Map:
		d["key"] = t.ID(rt.Key())
		d["elem"] = t.ID(rt.Elem())
	case reflect.Struct:
		fields := []any{}
		for i := 0; i < rt.NumField(); i++ {
			f := rt.Field(i)
			tag := f.Tag.Get("db")
			t.noteRunes(tag)
			fields = append(fields, map[string]any{"name": hx(f.Name), "tag": hx(tag), "exp": f.IsExported(),
				"anon": f.Anonymous, "t": t.ID(f.Type)})
		}
		d["fields"] = fields
	}
	d["pscan"] = reflect.PointerTo(rt).Implements(scannerType)
	return id
}

// DriverText is the canonical text of x as the database driver receives it.
func DriverText(v reflect.Value) string {
	if !v.IsValid() {
		return "<nil>:<nil>"
	}
	if !v.CanInterface() {
		return "!unexported"
	}
	cv, err := driver.DefaultParameterConverter.ConvertValue(v.Interface())
	if err != nil {
		return "!converr"
	}
	return fakedrv.ValueText(cv)
}

// Val encodes a value tree.
func (t *Table) Val(v reflect.Value) any {
	return t.val(v, 0)
}

func (t *Table) val(v reflect.Value, depth int) any {
	if !v.IsValid() {
		return nil
	}
	m := map[string]any{"t": t.ID(v.Type()), "z": v.IsZero(), "r": DriverText(v)}
	if depth > 12 {
		m["k"] = "leaf"
		return m
	}
	switch v.Kind() {
	case reflect.Struct:
		m["k"] = "struct"
		fs := []any{}
		for i := 0; i < v.NumField(); i++ {
			fs = append(fs, t.val(v.Field(i), depth+1))
		}
		m["f"] = fs
	case reflect.Pointer:
		m["k"] = "ptr"
		if !v.IsNil() {
			m["p"] = t.val(v.Elem(), depth+1)
		}
	case reflect.Interface:
		m["k"] = "iface"
		if !v.IsNil() {
			m["p"] = t.val(v.Elem(), depth+1)
		}
	case reflect.Map:
		m["k"] = "map"
		if v.IsNil() {
			m["nil"] = true
		} else if v.Type().Key().Kind() == reflect.String {
			kv := []any{}
			it := v.MapRange()
			for it.Next() {
				kv = append(kv, []any{hx(it.Key().String()), t.val(it.Value(), depth+1)})
			}
			m["kv"] = kv
		}
	case reflect.Slice:
		m["k"] = "slice"
		if v.IsNil() {
			m["nil"] = true
		}
		el := []any{}
		for i := 0; i < v.Len(); i++ {
			el = append(el, t.val(v.Index(i), depth+1))
		}
		m["el"] = el
	default:
		m["k"] = "leaf"
	}
	return m
}
