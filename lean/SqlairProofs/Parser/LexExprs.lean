/-
  Property C02, expression parsers and `advanceToNextExpression`: states at code offsets of
  the reference lexer are mapped to states at code offsets; `advanceToNextExpression` stops
  only at the end of the input, on an expression trigger or on a name character.
-/
import SqlairProofs.Parser.LexItems
import SqlairProofs.Parser.Exprs

namespace Sqlair

section
variable {E : Env}

/-! ### output expressions -/

theorem parseOutputExpr_lc (h : DecOK E) (ha : AsciiDec E) (hc : ClassAscii E) {s : Sc} (l : LC E s) :
    LC E (parseOutputExpr E s).1 := by
  unfold parseOutputExpr
  split
  · next heq => exact (parseTargetType_lc h hc l).of_eq heq
  · next heq => exact (parseTargetType_lc h hc l).of_eq heq
  · next cp heq =>
    have lcp : LC E cp := (parseTargetType_lc h hc l).of_eq heq
    split
    · exact lcp
    · next s2 cols parenCols heq2 =>
      have l2 : LC E s2 := (parseColumns_lc h hc lcp).of_eq heq2
      extract_lets s3 r s4
      have l3 : LC E s3 := skipBlanks_lc h l2
      have lr : LC E r.1 := skipString_AS_lc h ha l3
      have l4 : LC E s4 := skipBlanks_lc h lr
      split
      · exact lcp
      · split
        · next heq3 => exact (parseTargetTypes_lc h hc l4).of_eq heq3
        · exact lcp
        · next s5 types parenTypes heq3 =>
          have l5 : LC E s5 := (parseTargetTypes_lc h hc l4).of_eq heq3
          split
          · exact l5
          split
          · exact l5
          split
          · exact l5
          · exact l5

/-! ### input expressions -/

theorem parseSliceInputExpr_lc (h : DecOK E) (hc : ClassAscii E) {s : Sc} (l : LC E s) :
    LC E (parseSliceInputExpr E s).1 := by
  unfold parseSliceInputExpr
  extract_lets r
  have lr : LC E r.1 := skipChar_lc h (by decide) l
  split
  · exact l
  · split
    · exact l
    · next heq => exact (parseSliceAccessor_lc h hc lr).of_eq heq
    · exact l

theorem parseMemberInputExpr_lc (h : DecOK E) (hc : ClassAscii E) {s : Sc} (l : LC E s) :
    LC E (parseMemberInputExpr E s).1 := by
  unfold parseMemberInputExpr
  split
  · exact l
  · exact l
  · next heq =>
    split
    · exact l
    · exact (parseInputMemberAccessor_lc h hc l).of_eq heq

theorem parseComplexInsertValues_lc (h : DecOK E) (hc : ClassAscii E) {s : Sc} (l : LC E s) :
    LC E (parseComplexInsertValues E s).1 := by
  unfold parseComplexInsertValues
  split
  · exact l
  · next heq => exact (parseList_lc h (fun s l => parseInputMemberAccessor_lc h hc l) l).of_eq heq
  · split
    · exact l
    · exact l

theorem parseAsteriskInsertExpr_lc (h : DecOK E) (ha : AsciiDec E) (hc : ClassAscii E) {s : Sc}
    (l : LC E s) : LC E (parseAsteriskInsertExpr E s).1 := by
  unfold parseAsteriskInsertExpr
  extract_lets r1 r2 r3 r4
  have lr1 : LC E r1.1 := skipChar_lc h (by decide) l
  have lr2 : LC E r2.1 := skipChar_lc h (by decide) (skipBlanks_lc h lr1)
  have lr3 : LC E r3.1 := skipChar_lc h (by decide) (skipBlanks_lc h lr2)
  have lr4 : LC E r4.1 := skipString_VALUES_lc h ha (skipBlanks_lc h lr3)
  have lv := parseComplexInsertValues_lc h hc (skipBlanks_lc h lr4)
  split
  · exact l
  split
  · exact l
  split
  · exact l
  split
  · exact l
  split
  · next heq => exact lv.of_eq heq
  · next heq => exact lv.of_eq heq
  · exact l

theorem basicLoop_lc (h : DecOK E) (hc : ClassAscii E) {cp : Sc} (lcp : LC E cp) :
    ∀ (f : Nat) (ip : Bool) (vs : List Val) {s : Sc}, LC E s → LC E (basicLoop E cp f ip vs s).1 := by
  intro f
  induction f with
  | zero => intro ip vs s l; unfold basicLoop; exact l
  | succ f ih =>
    intro ip vs s l
    unfold basicLoop
    extract_lets s1 item
    have l1 : LC E s1 := skipBlanks_lc h l
    have litem : LC E item.1 := by
      unfold item
      split
      · next heq => exact (parseInputMemberAccessor_lc h hc l1).of_eq heq
      · next heq =>
        have l2 := (parseInputMemberAccessor_lc h hc l1).of_eq heq
        split
        · exact l2
        · exact l2
      · next s2 heq =>
        have l2 : LC E s2 := (parseInputMemberAccessor_lc h hc l1).of_eq heq
        split
        · next heq3 => exact (skipLiteralInList_lc h l2).of_eq heq3
        · next heq3 => exact (skipLiteralInList_lc h l2).of_eq heq3
        · exact lcp
    clear_value item
    split
    · exact litem
    · exact litem
    · next s2 ip' vs' =>
      have l2 : LC E s2 := litem
      extract_lets s3 r1 r2
      have l3 : LC E s3 := skipBlanks_lc h l2
      have lr1 : LC E r1.1 := skipChar_lc h (by decide) l3
      split
      · split
        · exact lr1
        · exact lr1
      split
      · exact ih _ _ (skipChar_lc h (by decide) l3)
      · exact lcp

theorem parseBasicInsertValues_lc (h : DecOK E) (hc : ClassAscii E) {s : Sc} (l : LC E s) :
    LC E (parseBasicInsertValues E s).1 := by
  unfold parseBasicInsertValues
  extract_lets r
  split
  · split
    · exact l
    · exact l
  · exact basicLoop_lc h hc l _ _ _ (skipChar_lc h (by decide) l)

theorem parseInsertExpr_lc (h : DecOK E) (ha : AsciiDec E) (hc : ClassAscii E) {s : Sc} (l : LC E s) :
    LC E (parseInsertExpr E s).1 := by
  unfold parseInsertExpr
  split
  · next heq => exact (parseAsteriskInsertExpr_lc h ha hc l).of_eq heq
  · next heq => exact (parseAsteriskInsertExpr_lc h ha hc l).of_eq heq
  · next cp heq =>
    have lcp : LC E cp := (parseAsteriskInsertExpr_lc h ha hc l).of_eq heq
    split
    · next s1 columns heq2 =>
      have l1 : LC E s1 := (parseColumns_lc h hc lcp).of_eq heq2
      extract_lets r colcp complex
      have lr : LC E r.1 := skipString_VALUES_lc h ha (skipBlanks_lc h l1)
      have lcol : LC E colcp := skipBlanks_lc h lr
      split
      · exact lcp
      have hcx : ∀ s2 srcs, complex = some (s2, srcs) → LC E s2 := by
        intro s2 srcs hcm
        unfold complex at hcm
        split at hcm
        · next heq3 =>
          split at hcm
          · cases hcm; exact (parseComplexInsertValues_lc h hc lcol).of_eq heq3
          · cases hcm
        · cases hcm
      clear_value complex
      split
      · next s2 srcs => exact hcx s2 srcs rfl
      · split
        · exact lcp
        · next heq3 => exact (parseBasicInsertValues_lc h hc lcol).of_eq heq3
        · exact lcp
    · exact lcp

theorem parseInputExpr_lc (h : DecOK E) (ha : AsciiDec E) (hc : ClassAscii E) {s : Sc} (l : LC E s) :
    LC E (parseInputExpr E s).1 := by
  unfold parseInputExpr
  split
  · next heq => exact (parseSliceInputExpr_lc h hc l).of_eq heq
  · next heq => exact (parseSliceInputExpr_lc h hc l).of_eq heq
  · next s1 heq =>
    have l1 : LC E s1 := (parseSliceInputExpr_lc h hc l).of_eq heq
    split
    · next heq2 => exact (parseMemberInputExpr_lc h hc l1).of_eq heq2
    · next heq2 => exact (parseMemberInputExpr_lc h hc l1).of_eq heq2
    · next s2 heq2 =>
      exact parseInsertExpr_lc h ha hc ((parseMemberInputExpr_lc h hc l1).of_eq heq2)

/-! ### advanceToNextExpression -/

/-- where `advanceToNextExpression` may stop: at the end of the input, on an expression
    trigger `( * $ &`, or on a name character -/
def StopOK (E : Env) (s : Sc) : Prop :=
  s.pos < E.len → isExprTrigger s.char = true ∨ isNameChar E s.char = true

theorem isExprTrigger_cases {c : Nat} (ht : isExprTrigger c = true) :
    c = 40 ∨ c = 42 ∨ c = 36 ∨ c = 38 := by
  unfold isExprTrigger at ht
  simp only [Bool.or_eq_true, beq_iff_eq] at ht
  omega

/-- a character `advanceToNextExpression` stops on is plain, and `skipBlanks` stays on it -/
theorem StopOK.char (hc : ClassAscii E) {s : Sc} (hs : StopOK E s) (hp : s.pos < E.len) :
    s.char ≠ 34 ∧ s.char ≠ 39 ∧ s.char ≠ 45 ∧ s.char ≠ 47 ∧ s.char ≠ 32 ∧ s.char ≠ 9 ∧
      s.char ≠ 13 ∧ s.char ≠ 10 := by
  rcases hs hp with ht | hn
  · have := isExprTrigger_cases ht
    omega
  · exact nameChar_plain hc hn

theorem advLoop_lc (h : DecOK E) : ∀ (f : Nat) {s : Sc}, LC E s →
    LC E (advLoop E f s).1 ∧ ((∀ e, (advLoop E f s).2 ≠ .err e) → StopOK E (advLoop E f s).1) := by
  intro f
  induction f with
  | zero => intro s l; unfold advLoop; exact ⟨l, fun hne => (hne _ rfl).elim⟩
  | succ f ih =>
    intro s l
    unfold advLoop
    split
    · split
      · next heq => exact ⟨(skipStringLiteral_lc h l).of_eq heq, fun hne => (hne _ rfl).elim⟩
      · next heq => exact ih ((skipStringLiteral_lc h l).of_eq heq)
      · next heq =>
        extract_lets r1 s1
        split
        · exact ih (skipComment_lc h l)
        next hf =>
        have l1 : LC E s1 := advanceChar_lc_code h l heq hf
        split
        · next ht => exact ⟨l, fun _ _ => Or.inl ht⟩
        split
        · split
          · next hge => exact ⟨l1, fun _ (hlt : s1.pos < E.len) => by omega⟩
          split
          · next hn => exact ⟨l1, fun _ _ => Or.inr hn⟩
          · exact ih l1
        · exact ih l1
    · next hp => exact ⟨l, fun _ hlt => (hp hlt).elim⟩

theorem advanceToNextExpression_lc (h : DecOK E) (hc : ClassAscii E) {s : Sc} (l : LC E s) :
    LC E (advanceToNextExpression E s).1 ∧
      ((advanceToNextExpression E s).2 = none → StopOK E (advanceToNextExpression E s).1) := by
  unfold advanceToNextExpression
  split
  · next hn => exact ⟨l, fun _ _ => Or.inr hn.2.2⟩
  · obtain ⟨la, hstop⟩ := advLoop_lc h (E.len + 1) l
    split
    · next heq => exact ⟨la.of_eq heq, fun hx => by cases hx⟩
    · next s1 heq =>
      rw [heq] at hstop
      have l1 : LC E s1 := la.of_eq heq
      have hs1 : StopOK E s1 := hstop (fun e he => by cases he)
      have hstay : skipBlanks E s1 = s1 := by
        by_cases hp : s1.pos < E.len
        · have := hs1.char hc hp
          exact skipBlanks_stay h l1.good (by omega)
        · exact skipBlanks_eof hp
      simp only [hstay]
      exact ⟨l1, fun _ => hs1⟩
    · next s1 res hnt _ heq =>
      rw [heq] at hstop
      exact ⟨la.of_eq heq, fun _ => hstop (fun e he => hnt e he)⟩

end
end Sqlair
