/-
  Characterisation of `validateOutputs`, `locateTarget`, `scanTargets`, `scanArgs`
  (Go's `ScanArgs`) without accumulators.
-/
import SqlairProofs.Scan.Store

namespace Sqlair

/-! ### validateOutputs -/

/-- the type-to-destination map that `validateOutputs` builds: `(tid of dests[i], i)` -/
def idxMap (ds : List Dest) (i : Nat) : List (Nat × Nat) := (ds.zipIdx i).map fun p => (p.1.tid, p.2)

theorem idxMap_cons (d : Dest) (ds : List Dest) (i : Nat) : idxMap (d :: ds) i = (d.tid, i) :: idxMap ds (i + 1) := by
  simp [idxMap, List.zipIdx_cons]

/-- the forms `validateOutputs` accepts -/
def DestForm.okForm : DestForm → Bool
  | .ptrStruct | .mapVal | .ptrMap => true
  | _ => false

theorem validateOutputs_ok {ds : List Dest} {m m' : List (Nat × Nat)} {i : Nat}
    (h : validateOutputs ds m i = .ok m') (hn : (m.map (·.1)).Nodup) :
    m' = m ++ idxMap ds i ∧ (m'.map (·.1)).Nodup ∧ ∀ d ∈ ds, d.form.okForm = true := by
  induction ds generalizing m i with
  | nil =>
    simp only [validateOutputs, Except.ok.injEq] at h
    subst h; simp [idxMap, hn]
  | cons d rest ih =>
    unfold validateOutputs at h
    have key : d.form.okForm = true ∧ ¬ (m.any (·.1 == d.tid) = true) ∧
        validateOutputs rest (m ++ [(d.tid, i)]) (i + 1) = .ok m' := by
      cases hf : d.form <;> rw [hf] at h <;> simp only [reduceCtorEq] at h <;>
        (split at h
         · cases h
         · rename_i hany; exact ⟨rfl, hany, h⟩)
    obtain ⟨hform, hany, hrec⟩ := key
    have hn' : ((m ++ [(d.tid, i)]).map (·.1)).Nodup := by
      rw [List.map_append, List.nodup_append]
      refine ⟨hn, by simp, ?_⟩
      intro a ha b hb
      simp only [List.map_cons, List.map_nil, List.mem_singleton] at hb
      subst hb
      intro e; subst e
      apply hany
      rw [List.any_eq_true]
      obtain ⟨p, hp, hpe⟩ := List.mem_map.mp ha
      exact ⟨p, hp, by simp [hpe]⟩
    obtain ⟨e1, e2, e3⟩ := ih hrec hn'
    refine ⟨?_, e2, ?_⟩
    · rw [e1, idxMap_cons, List.append_assoc]; rfl
    · intro d' hd'
      rcases List.mem_cons.mp hd' with rfl | hd'
      · exact hform
      · exact e3 d' hd'

/-- `m` is the map built by `validateOutputs` for `dests` -/
structure ValidMap (dests : List Dest) (m : List (Nat × Nat)) : Prop where
  eq : m = idxMap dests 0
  nodup : (m.map (·.1)).Nodup
  forms : ∀ d ∈ dests, d.form.okForm = true

theorem validMap_of_ok {dests : List Dest} {m : List (Nat × Nat)} (h : validateOutputs dests [] 0 = .ok m) :
    ValidMap dests m := by
  obtain ⟨e1, e2, e3⟩ := validateOutputs_ok h (by simp)
  exact ⟨by simpa using e1, e2, e3⟩

theorem mem_idxMap {ds : List Dest} {p : Nat × Nat} :
    p ∈ idxMap ds 0 ↔ ∃ d, ds[p.2]? = some d ∧ d.tid = p.1 := by
  unfold idxMap
  rw [List.mem_map]
  constructor
  · rintro ⟨⟨d, j⟩, hm, rfl⟩
    rw [List.mem_zipIdx_iff_getElem?] at hm
    exact ⟨d, by simpa using hm, rfl⟩
  · rintro ⟨d, hd, ht⟩
    refine ⟨(d, p.2), ?_, by simp [ht]⟩
    rw [List.mem_zipIdx_iff_getElem?]
    simpa using hd

theorem nodup_fst_inj {α β} {l : List (α × β)} (h : (l.map (·.1)).Nodup) {p q : α × β}
    (hp : p ∈ l) (hq : q ∈ l) (e : p.1 = q.1) : p = q := by
  induction l with
  | nil => cases hp
  | cons x rest ih =>
    rw [List.map_cons, List.nodup_cons] at h
    rcases List.mem_cons.mp hp with rfl | hp' <;> rcases List.mem_cons.mp hq with rfl | hq'
    · rfl
    · exact absurd (List.mem_map.mpr ⟨q, hq', e.symm⟩) h.1
    · exact absurd (List.mem_map.mpr ⟨p, hp', e⟩) h.1
    · exact ih h.2 hp' hq'

/-- looking a type id up in the map finds the unique destination of that type -/
theorem ValidMap.find_some {dests : List Dest} {m : List (Nat × Nat)} (hm : ValidMap dests m) {tid : Nat}
    {p : Nat × Nat} (h : m.find? (·.1 == tid) = some p) :
    ∃ d, dests[p.2]? = some d ∧ d.tid = tid ∧ p.1 = tid := by
  have h1 := List.mem_of_find?_eq_some h
  have h2 := List.find?_some h
  simp only [beq_iff_eq] at h2
  rw [hm.eq, mem_idxMap] at h1
  obtain ⟨d, hd, ht⟩ := h1
  exact ⟨d, hd, ht.trans h2, h2⟩

theorem ValidMap.find_of_dest {dests : List Dest} {m : List (Nat × Nat)} (hm : ValidMap dests m) {di : Nat}
    {d : Dest} (h : dests[di]? = some d) : m.find? (·.1 == d.tid) = some (d.tid, di) := by
  have hmem : (d.tid, di) ∈ m := by rw [hm.eq, mem_idxMap]; exact ⟨d, h, rfl⟩
  cases hf : m.find? (·.1 == d.tid) with
  | none =>
    rw [List.find?_eq_none] at hf
    exact absurd (by simp) (hf _ hmem)
  | some p =>
    have h1 := List.mem_of_find?_eq_some hf
    have h2 := List.find?_some hf
    simp only [beq_iff_eq] at h2
    rw [nodup_fst_inj hm.nodup h1 hmem h2]

theorem ValidMap.find_none {dests : List Dest} {m : List (Nat × Nat)} (hm : ValidMap dests m) {tid : Nat}
    (h : m.find? (·.1 == tid) = none) : ∀ d ∈ dests, d.tid ≠ tid := by
  intro d hd e
  obtain ⟨di, hlt, hdi⟩ := List.mem_iff_getElem.mp hd
  have := hm.find_of_dest (di := di) (d := d) (by rw [List.getElem?_eq_getElem hlt, hdi])
  rw [e, h] at this
  cases this

/-- destinations of the same type are the same destination -/
theorem ValidMap.tid_inj {dests : List Dest} {m : List (Nat × Nat)} (hm : ValidMap dests m) {i j : Nat}
    {d e : Dest} (hi : dests[i]? = some d) (hj : dests[j]? = some e) (ht : d.tid = e.tid) : i = j := by
  have h1 := hm.find_of_dest hi
  have h2 := hm.find_of_dest hj
  rw [ht, h2] at h1
  simp only [Option.some.injEq, Prod.mk.injEq] at h1
  exact h1.2.symm

/-! ### locateTarget -/

/-- the member of its destination that an output column designates -/
def Loc.slot? : Loc → Option Slot
  | .field _ _ f => some (.field f.index)
  | .mapKey _ _ key => some (.key key)
  | .slice .. => none

/-- the scan target of an output whose destination is argument number `di` -/
def Loc.target (tt : TypeTable) (l : Loc) (di : Nat) : Target :=
  match l with
  | .field tid _ f => .field di f.index (fieldTypeOf tt tid f.index true) (fieldCat tt (fieldTypeOf tt tid f.index true))
  | .mapKey tid _ key => .key di key (tt.get tid).elem
  | .slice .. => .skip

def Target.loc : Target → Option (Nat × Slot)
  | .skip => none
  | .field di idx _ _ => some (di, .field idx)
  | .key di k _ => some (di, .key k)

theorem Loc.target_loc (tt : TypeTable) (l : Loc) (di : Nat) : (l.target tt di).loc = l.slot?.map (fun s => (di, s)) := by
  cases l <;> rfl

theorem locateTarget_ok {tt : TypeTable} {dests : List Dest} {m : List (Nat × Nat)} (hm : ValidMap dests m)
    {l : Loc} {t : Target} (h : locateTarget tt dests m l = .ok t) :
    ∃ di d s, dests[di]? = some d ∧ d.tid = l.tid ∧ l.slot? = some s ∧ t = l.target tt di ∧
      Writable dests (di, s) := by
  cases l with
  | slice tid n => simp [locateTarget] at h
  | mapKey tid n key =>
    simp only [locateTarget] at h
    split at h
    · cases h
    · rename_i t' di hf
      obtain ⟨d, hd, ht, _⟩ := hm.find_some hf
      simp only [Except.ok.injEq] at h
      refine ⟨di, d, .key key, hd, ht, rfl, h.symm, ?_⟩
      simp only [Writable]
      exact (List.getElem?_eq_some_iff.mp hd).1
  | field tid n f =>
    simp only [locateTarget] at h
    split at h
    · cases h
    · rename_i t' di hf
      obtain ⟨d, hd, ht, _⟩ := hm.find_some hf
      have hgd : dests.getD di default = d := by
        rw [List.getD_eq_getElem?_getD, hd]; rfl
      rw [hgd] at h
      split at h
      · rename_i x y hfind
        simp only [Except.ok.injEq] at h
        refine ⟨di, d, .field f.index, hd, ht, rfl, h.symm, ?_⟩
        simp only [Writable]
        exact ⟨d, hd, by simp [Dest.fieldVal, hfind]⟩
      · cases h

/-- converse: when the destination of the right type is present (and the leaf reachable),
    `locateTarget` succeeds -/
theorem locateTarget_isOk_of {tt : TypeTable} {dests : List Dest} {m : List (Nat × Nat)} (hm : ValidMap dests m)
    {l : Loc} {di : Nat} {d : Dest} {s : Slot} (hd : dests[di]? = some d) (ht : d.tid = l.tid) (hs : l.slot? = some s)
    (hw : ∀ idx, s = .field idx → ∃ x, d.fieldVal idx = some (some x)) :
    locateTarget tt dests m l = .ok (l.target tt di) := by
  have hf := hm.find_of_dest hd
  cases l with
  | slice tid n => cases hs
  | mapKey tid n key =>
    simp only [Loc.tid] at ht
    simp only [locateTarget, ← ht, hf, Loc.target]
  | field tid n f =>
    simp only [Loc.tid] at ht
    simp only [Loc.slot?, Option.some.injEq] at hs
    obtain ⟨x, hx⟩ := hw f.index hs.symm
    have hgd : dests.getD di default = d := by
      rw [List.getD_eq_getElem?_getD, hd]; rfl
    simp only [locateTarget, ← ht, hf, hgd, Loc.target]
    unfold Dest.fieldVal at hx
    cases hfind : d.fields.find? (·.1 == f.index) with
    | none => rw [hfind] at hx; cases hx
    | some p =>
      rw [hfind] at hx
      obtain ⟨a, b⟩ := p
      simp only [Option.map_some, Option.some.injEq] at hx
      subst hx
      rfl

/-! ### the column loop -/

/-- the target of one result column -/
def colTarget (tt : TypeTable) (outputs : List Loc) (dests : List Dest) (m : List (Nat × Nat)) (c : Bytes) :
    Except String Target :=
  match markerIndex c with
  | none => .ok .skip
  | some idx =>
    match outputs[idx]? with
    | none => .error "internal-column-not-in-outputs"
    | some l => locateTarget tt dests m l

/-- total version of `colTarget` -/
def tgt (tt : TypeTable) (outputs : List Loc) (dests : List Dest) (m : List (Nat × Nat)) (c : Bytes) : Target :=
  match colTarget tt outputs dests m c with
  | .ok t => t
  | .error _ => .skip

/-- the output a column is the alias of -/
def colOutput (outputs : List Loc) (c : Bytes) : Option Loc := (markerIndex c).bind (outputs[·]?)

theorem scanTargets_ok_iff (tt : TypeTable) (outputs : List Loc) (dests : List Dest) (m : List (Nat × Nat))
    (cols : List Bytes) (ts : List Target) (ir us : List Nat) (r : List Target × List Nat × List Nat) :
    scanTargets tt outputs dests m cols ts ir us = .ok r ↔
      (∀ c ∈ cols, ∃ t, colTarget tt outputs dests m c = .ok t) ∧
      r = (ts ++ cols.map (tgt tt outputs dests m), (cols.filterMap markerIndex).reverse ++ ir,
           (cols.filterMap (fun c => (colOutput outputs c).map Loc.tid)).reverse ++ us) := by
  induction cols generalizing ts ir us with
  | nil => simp [scanTargets, eq_comm]
  | cons c rest ih =>
    unfold scanTargets
    cases hmi : markerIndex c with
    | none =>
      have hct : colTarget tt outputs dests m c = .ok .skip := by simp [colTarget, hmi]
      have htg : tgt tt outputs dests m c = .skip := by simp [tgt, hct]
      simp only [ih, List.mem_cons, forall_eq_or_imp, hct, Except.ok.injEq, exists_eq', true_and,
        List.map_cons, htg, List.filterMap_cons, hmi, colOutput, Option.bind_none, Option.map_none,
        List.append_assoc, List.singleton_append]
    | some idx =>
      cases hout : outputs[idx]? with
      | none =>
        have hct : colTarget tt outputs dests m c = .error "internal-column-not-in-outputs" := by
          simp [colTarget, hmi, hout]
        simp [hct, hout]
      | some l =>
        have hct : colTarget tt outputs dests m c = locateTarget tt dests m l := by
          simp [colTarget, hmi, hout]
        cases hloc : locateTarget tt dests m l with
        | error e => simp [hct, hloc, hout]
        | ok t =>
          rw [hloc] at hct
          have htg : tgt tt outputs dests m c = t := by simp [tgt, hct]
          simp only [hout, hloc, ih, List.mem_cons, forall_eq_or_imp, hct, Except.ok.injEq, exists_eq', true_and,
            List.map_cons, htg, List.filterMap_cons, hmi, colOutput, Option.bind_some, Option.map_some,
            List.append_assoc, List.singleton_append, List.reverse_cons]

/-! ### scanArgs -/

theorem scanArgs_ok_iff (tt : TypeTable) (outputs : List Loc) (cols : List Bytes) (dests : List Dest)
    (ts : List Target) :
    scanArgs tt outputs cols dests = .ok ts ↔
      ∃ m, validateOutputs dests [] 0 = .ok m ∧ outputs.length ≤ cols.length ∧
        (∀ c ∈ cols, ∃ t, colTarget tt outputs dests m c = .ok t) ∧
        (∀ k, k < outputs.length → ∃ c ∈ cols, markerIndex c = some k) ∧
        (∀ p ∈ m, ∃ c ∈ cols, ∃ l, colOutput outputs c = some l ∧ l.tid = p.1) ∧
        ts = cols.map (tgt tt outputs dests m) := by
  unfold scanArgs
  cases hv : validateOutputs dests [] 0 with
  | error e => simp
  | ok m =>
    simp only [Except.ok.injEq, exists_eq_left']
    by_cases hlen : cols.length < outputs.length
    · simp only [if_pos hlen, reduceCtorEq, false_iff]
      rintro ⟨h, _⟩; omega
    · rw [if_neg hlen]
      cases hst : scanTargets tt outputs dests m cols [] [] [] with
      | error e =>
        have : ¬ (∀ c ∈ cols, ∃ t, colTarget tt outputs dests m c = .ok t) := by
          intro hall
          have := (scanTargets_ok_iff tt outputs dests m cols [] [] [] _).mpr ⟨hall, rfl⟩
          rw [hst] at this; cases this
        simp only [reduceCtorEq, false_iff]
        rintro ⟨_, h, _⟩; exact this h
      | ok r =>
        obtain ⟨hall, hr⟩ := (scanTargets_ok_iff tt outputs dests m cols [] [] [] r).mp hst
        subst hr
        simp only [List.nil_append, List.append_nil]
        have hA : (List.range outputs.length).all (cols.filterMap markerIndex).reverse.contains = true ↔
            ∀ k, k < outputs.length → ∃ c ∈ cols, markerIndex c = some k := by
          simp [List.all_eq_true, List.mem_range, List.mem_filterMap]
        have hB : (m.all fun p => ((cols.filterMap (fun c => (colOutput outputs c).map Loc.tid)).reverse).contains p.1) = true ↔
            ∀ p ∈ m, ∃ c ∈ cols, ∃ l, colOutput outputs c = some l ∧ l.tid = p.1 := by
          simp [List.all_eq_true, List.mem_filterMap]
        by_cases h1 : (List.range outputs.length).all (cols.filterMap markerIndex).reverse.contains = true
        · by_cases h2 : (m.all fun p => ((cols.filterMap (fun c => (colOutput outputs c).map Loc.tid)).reverse).contains p.1) = true
          · simp only [h1, h2, Bool.not_true, Bool.false_eq_true, if_false, Except.ok.injEq]
            constructor
            · intro e; exact ⟨by omega, hall, hA.mp h1, hB.mp h2, e.symm⟩
            · rintro ⟨_, _, _, _, e⟩; exact e.symm
          · simp only [h1, h2, Bool.not_true, Bool.false_eq_true, if_false, Bool.not_false, if_true,
              reduceCtorEq, false_iff]
            rintro ⟨_, _, _, hb, _⟩; exact h2 (hB.mpr hb)
        · simp only [h1, Bool.not_false, if_true, reduceCtorEq, false_iff]
          rintro ⟨_, _, ha, _⟩; exact h1 (hA.mpr ha)

end Sqlair
