/-
  Typed/Struct: a declarative characterisation of "the struct type `T` is structurally valid"
  (`getStructFields` succeeds): every tagged field, of `T` and of every struct embedded in it
  (transitively), is exported and its tag parses, and there is no embedding cycle.
-/
import SqlairProofs.Typed.Samples

namespace Sqlair

/-! ### vocabulary -/

/-- the type an anonymous field embeds (through at most one pointer) -/
def embTarget (tt : TypeTable) (f : FieldDesc) : Nat :=
  if (tt.get f.ty).kind == .ptr then (tt.get f.ty).elem else f.ty

/-- `f` is an embedding field: anonymous, untagged, exported, of struct or pointer-to-struct type -/
def FieldDesc.Embedding (tt : TypeTable) (f : FieldDesc) : Prop :=
  f.anon = true ∧ f.tag.size = 0 ∧ f.exported = true ∧ (tt.get (embTarget tt f)).kind = .struct

/-- the struct `t` embeds the struct `u` -/
def Embeds (tt : TypeTable) (t u : Nat) : Prop :=
  ∃ f ∈ (tt.get t).fields, f.Embedding tt ∧ embTarget tt f = u

/-- the tagged fields of the struct `t` are exported and their tags parse -/
def TaggedFieldsOK (C : Cls) (tt : TypeTable) (t : Nat) : Prop :=
  ∀ f ∈ (tt.get t).fields, f.tag.size ≠ 0 → f.exported = true ∧ ∃ r, parseTag C f.tag = .ok r

/-- `p` lists the nodes after `t` on an embedding path starting at `t` -/
inductive EmbPath (tt : TypeTable) : Nat → List Nat → Prop
  | nil (t : Nat) : EmbPath tt t []
  | cons {t u : Nat} {p : List Nat} : Embeds tt t u → EmbPath tt u p → EmbPath tt t (u :: p)

/-- Declarative structural validity of the struct type `tid`: on every embedding path from
    `tid` no struct occurs twice (no embedding cycle) and every struct on it has exported,
    parseable tagged fields. -/
def StructOK (C : Cls) (tt : TypeTable) (tid : Nat) : Prop :=
  ∀ p, EmbPath tt tid p → (tid :: p).Nodup ∧ ∀ u ∈ tid :: p, TaggedFieldsOK C tt u

/-! ### the field loop -/

theorem fieldsLoop_ok_iff (C : Cls) (tt : TypeTable) (recur : Nat → Except String (List SField)) :
    ∀ (fds : List FieldDesc) (i : Nat) (acc : List SField),
    (∃ res, fieldsLoop C tt recur fds i acc = .ok res) ↔
      ∀ f ∈ fds, (f.tag.size ≠ 0 → f.exported = true ∧ ∃ r, parseTag C f.tag = .ok r) ∧
        (f.Embedding tt → ∃ fs, recur (embTarget tt f) = .ok fs) := by
  intro fds
  induction fds with
  | nil => intro i acc; simp [fieldsLoop]
  | cons f rest ih =>
    intro i acc
    simp only [fieldsLoop, List.forall_mem_cons]
    by_cases hA : (f.anon && f.tag.size == 0) = true
    · simp only [hA, if_true]
      simp only [Bool.and_eq_true, beq_iff_eq] at hA
      have htag : ¬ f.tag.size ≠ 0 := by simp [hA.2]
      by_cases hexp : f.exported = true
      · simp only [hexp, Bool.not_true, Bool.false_eq_true, if_false]
        have hE : (if ((tt.get f.ty).kind == Kind.ptr) = true then (tt.get f.ty).elem else f.ty) =
            embTarget tt f := rfl
        rw [hE]
        by_cases hk : (tt.get (embTarget tt f)).kind = .struct
        · have hk' : ((tt.get (embTarget tt f)).kind != Kind.struct) = false := by rw [hk]; decide
          simp only [hk', Bool.false_eq_true, if_false]
          have hemb : f.Embedding tt := ⟨hA.1, hA.2, hexp, hk⟩
          cases hrec : recur (embTarget tt f) with
          | error e =>
            simp only [reduceCtorEq, exists_false, false_iff, not_and]
            intro h; exact absurd (h.2 hemb) (by simp)
          | ok nested =>
            simp only
            rw [ih]
            simp [htag, hemb]
        · have hk' : ((tt.get (embTarget tt f)).kind != Kind.struct) = true := by simpa using hk
          simp only [hk', if_true]
          rw [ih]
          have hemb : ¬ f.Embedding tt := fun h => hk h.2.2.2
          simp [htag, hemb]
      · have hexp' : f.exported = false := by simpa using hexp
        simp only [hexp', Bool.not_false, if_true]
        rw [ih]
        have hemb : ¬ f.Embedding tt := fun h => hexp h.2.2.1
        simp [htag, hemb]
    · simp only [hA, Bool.false_eq_true, if_false]
      have hemb : ¬ f.Embedding tt := by
        intro h; apply hA; simp [h.1, h.2.1]
      by_cases htag : f.tag.size = 0
      · simp only [htag, beq_self_eq_true, if_true]
        rw [ih]
        simp [hemb]
      · have htag' : (f.tag.size == 0) = false := by simpa using htag
        simp only [htag', Bool.false_eq_true, if_false]
        by_cases hexp : f.exported = true
        · simp only [hexp, Bool.not_true, Bool.false_eq_true, if_false]
          cases hp : parseTag C f.tag with
          | error e => simp [htag]
          | ok r =>
            obtain ⟨tag, om⟩ := r
            simp only
            rw [ih]
            simp [htag, hemb]
        · have hexp' : f.exported = false := by simpa using hexp
          simp [hexp', htag]

/-! ### `getStructFields` -/

theorem getStructFields_ok_iff_step (C : Cls) (tt : TypeTable) (fuel : Nat) (visiting : List Nat) (tid : Nat) :
    (∃ fs, getStructFields C tt (fuel + 1) visiting tid = .ok fs) ↔
      tid ∉ visiting ∧ TaggedFieldsOK C tt tid ∧
        ∀ u, Embeds tt tid u → ∃ fs, getStructFields C tt fuel (tid :: visiting) u = .ok fs := by
  simp only [getStructFields]
  by_cases hv : visiting.contains tid = true
  · simp only [hv, if_true, reduceCtorEq, exists_false, false_iff, not_and]
    intro h; exact absurd (by simpa using hv) h
  · simp only [hv, Bool.false_eq_true, if_false]
    rw [fieldsLoop_ok_iff]
    have hv' : tid ∉ visiting := by simpa using hv
    simp only [hv', not_false_eq_true, true_and]
    unfold TaggedFieldsOK Embeds
    constructor
    · intro h
      refine ⟨fun f hf => (h f hf).1, ?_⟩
      rintro u ⟨f, hf, hemb, rfl⟩
      exact (h f hf).2 hemb
    · rintro ⟨h1, h2⟩ f hf
      exact ⟨h1 f hf, fun hemb => h2 _ ⟨f, hf, hemb, rfl⟩⟩

/-- soundness: success implies the declarative condition, relative to `visiting` -/
theorem getStructFields_sound (C : Cls) (tt : TypeTable) : ∀ (fuel : Nat) (visiting : List Nat) (tid : Nat),
    (∃ fs, getStructFields C tt fuel visiting tid = .ok fs) →
    ∀ p, EmbPath tt tid p →
      (tid :: p).Nodup ∧ (∀ u ∈ tid :: p, u ∉ visiting) ∧ ∀ u ∈ tid :: p, TaggedFieldsOK C tt u := by
  intro fuel
  induction fuel with
  | zero => intro visiting tid h; simp [getStructFields] at h
  | succ fuel ih =>
    intro visiting tid h p hp
    obtain ⟨h1, h2, h3⟩ := (getStructFields_ok_iff_step C tt fuel visiting tid).1 h
    cases hp with
    | nil => simp [h1, h2]
    | @cons _ u p' he hp' =>
      obtain ⟨i1, i2, i3⟩ := ih (tid :: visiting) u (h3 u he) p' hp'
      refine ⟨?_, ?_, ?_⟩
      · rw [List.nodup_cons]
        refine ⟨?_, i1⟩
        intro hm
        exact i2 tid hm (by simp)
      · intro w hw
        rcases List.mem_cons.1 hw with rfl | hw
        · exact h1
        · intro hwv; exact i2 w hw (List.mem_cons_of_mem _ hwv)
      · intro w hw
        rcases List.mem_cons.1 hw with rfl | hw
        · exact h2
        · exact i3 w hw

theorem TypeTable.get_default_of_size_le {tt : TypeTable} {s : Nat} (h : tt.size ≤ s) : tt.get s = default := by
  simp [TypeTable.get, Array.getD, Nat.not_lt.2 h]

theorem lt_size_of_embeds {tt : TypeTable} {t u : Nat} (h : Embeds tt t u) : t < tt.size := by
  obtain ⟨f, hf, _⟩ := h
  apply Classical.byContradiction
  intro hn
  rw [TypeTable.get_default_of_size_le (Nat.not_lt.1 hn)] at hf
  cases hf

/-- completeness: the declarative condition (relative to `visiting`) implies success, with
    enough fuel -/
theorem getStructFields_complete (C : Cls) (tt : TypeTable) : ∀ (fuel : Nat) (visiting : List Nat) (tid : Nat),
    visiting.Nodup → (∀ v ∈ visiting, v < tt.size) → tt.size + 1 ≤ visiting.length + fuel →
    (∀ p, EmbPath tt tid p →
      (tid :: p).Nodup ∧ (∀ u ∈ tid :: p, u ∉ visiting) ∧ ∀ u ∈ tid :: p, TaggedFieldsOK C tt u) →
    ∃ fs, getStructFields C tt fuel visiting tid = .ok fs := by
  intro fuel
  induction fuel with
  | zero =>
    intro visiting tid hn hlt hlen _
    exfalso
    have : visiting.length ≤ (List.range tt.size).length :=
      hn.length_le_of_subset (fun v hv => List.mem_range.2 (hlt v hv))
    simp at this
    omega
  | succ fuel ih =>
    intro visiting tid hn hlt hlen H
    rw [getStructFields_ok_iff_step]
    obtain ⟨_, h2, h3⟩ := H [] (.nil tid)
    refine ⟨h2 tid (by simp), h3 tid (by simp), ?_⟩
    intro u he
    apply ih
    · rw [List.nodup_cons]; exact ⟨h2 tid (by simp), hn⟩
    · intro v hv
      rcases List.mem_cons.1 hv with rfl | hv
      · exact lt_size_of_embeds he
      · exact hlt v hv
    · simp only [List.length_cons]; omega
    · intro p' hp'
      obtain ⟨g1, g2, g3⟩ := H (u :: p') (.cons he hp')
      rw [List.nodup_cons] at g1
      refine ⟨g1.2, ?_, fun w hw => g3 w (List.mem_cons_of_mem _ hw)⟩
      intro w hw hwv
      rcases List.mem_cons.1 hwv with rfl | hwv
      · exact g1.1 hw
      · exact g2 w (List.mem_cons_of_mem _ hw) hwv

/-- `getStructFields` (as `getArgInfo` calls it) succeeds iff the struct is structurally valid -/
theorem getStructFields_ok_iff_structOK_core {C : Cls} {tt : TypeTable} {tid : Nat} :
    (∃ fs, getStructFields C tt (tt.size + 1) [] tid = .ok fs) ↔ StructOK C tt tid := by
  constructor
  · intro h p hp
    obtain ⟨h1, _, h3⟩ := getStructFields_sound C tt _ _ _ h p hp
    exact ⟨h1, h3⟩
  · intro h
    apply getStructFields_complete C tt _ _ _ List.nodup_nil (by simp) (by simp)
    intro p hp
    obtain ⟨h1, h3⟩ := h p hp
    exact ⟨h1, by simp, h3⟩

/-- a struct sample is accepted iff it is structurally valid and no two of its (possibly
    embedded) tagged fields carry the same db tag -/
theorem sampleInfo_struct_iff {C : Cls} {tt : TypeTable} {tid : Nat} (hk : (tt.get tid).kind = .struct) :
    (∃ info, SampleInfo C tt tid info) ↔
      StructOK C tt tid ∧ ∀ fields, getStructFields C tt (tt.size + 1) [] tid = .ok fields →
        (fields.map (·.tag)).Nodup := by
  unfold SampleInfo
  simp only [hk, reduceCtorEq, false_and, false_or, true_and]
  rw [← getStructFields_ok_iff_structOK_core]
  constructor
  · rintro ⟨info, fields, h1, h2, _⟩
    refine ⟨⟨fields, h1⟩, ?_⟩
    intro fields' h'
    rw [h1] at h'; cases h'; exact h2
  · rintro ⟨⟨fields, h1⟩, h2⟩
    exact ⟨_, fields, h1, h2 fields h1, rfl⟩

end Sqlair
