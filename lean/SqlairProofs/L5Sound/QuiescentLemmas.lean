/-
  L5Sound/QuiescentLemmas: the C11 conclusion (`L5sReleased`, L5Sound/CloseOut) for the
  collection of ANY reachable quiescent state with ANY sufficient fuel - not only for the
  states of sequential histories and the fuel `runHistory` gives `gc`; and the bound on the
  open statements, read off the log, for any reachable state without open iterators.
-/
import SqlairProofs.L5Sound.General

namespace Sqlair.Cache

/-- a reachable quiescent state, collected with at least `gcMeasure` fuel, is reachable,
    quiescent, and no finalizer is enabled in it -/
theorem l5q_gc_fixpoint {st : St} (hr : Reachable st) (hq : Quiescent st) {fuel : Nat}
    (hf : gcMeasure st ≤ fuel) :
    Reachable (gc fuel st) ∧ Quiescent (gc fuel st) ∧ enabledFinalizers (gc fuel st) = [] ∧
      (gc fuel st).ds.length = st.ds.length := by
  obtain ⟨steps, h1, h2, h3, h4, h5, h6, h7⟩ := gc_spec fuel st hr.inv hf
  refine ⟨by rw [h1]; exact hr.runs steps, ?_, h2, h7⟩
  refine ⟨h4.trans hq.1, h5.trans hq.2.1, h6.trans hq.2.2.1, ?_⟩
  intro p hp
  exact hq.2.2.2 p (by rw [← h3]; exact hp)

/-- a reachable quiescent state in which no finalizer is enabled is released: every driver
    statement that was prepared has exactly one `close` event, nothing else has one, both
    cache maps are empty -/
theorem l5q_fixpoint_released {st : St} (hr : Reachable st) (hq : Quiescent st)
    (he : enabledFinalizers st = []) : L5sReleased st := by
  obtain ⟨hs, hd, hall⟩ := quiescent_final hr.inv hq he
  refine ⟨?_, ?_, hs, hd⟩
  · intro ds
    rw [l5s_closes_eq_count]
    cases hp : l5s_prepared st.log ds with
    | true =>
      obtain ⟨x, hx⟩ := (l5s_prepared_iff hr ds).1 hp
      obtain ⟨hid, hm⟩ := dsGet_some hx
      have := (driverClosed_iff_logged hr hm).1 (hall x hm).2.2.1
      rw [hid] at this
      rw [if_pos rfl]
      exact this
    | false =>
      simp only [Bool.false_eq_true, if_false]
      rw [List.count_eq_zero]
      intro hm
      obtain ⟨x, hx, _⟩ := hr.inv.log.close ds hm
      have := (l5s_prepared_iff hr ds).2 ⟨x, hx⟩
      rw [hp] at this; cases this
  · unfold St.pairs
    rw [hs]
    rfl

/-- `l5s_quiescent_released` for any sufficient fuel -/
theorem l5q_quiescent_released {st : St} (hr : Reachable st) (hq : Quiescent st) {fuel : Nat}
    (hf : gcMeasure st ≤ fuel) : L5sReleased (gc fuel st) := by
  obtain ⟨hr', hq', he, _⟩ := l5q_gc_fixpoint hr hq hf
  exact l5q_fixpoint_released hr' hq' he

/-- `l5s_openStmts_le` without the sequential-history hypothesis: in any reachable state
    without open iterators, a driver statement without `close` event is one on which `Close`
    was not called -/
theorem l5q_openStmts_le {st : St} (hr : Reachable st) (hit : st.iters = []) :
    l5s_openStmts st ≤ openCount st := by
  have hi := hr.inv
  unfold l5s_openStmts openCount
  apply l5s_filter_length_le
  intro x hx hc
  simp only [beq_iff_eq] at hc
  cases hcc : x.closeCalled with
  | false => rfl
  | true =>
    exfalso
    have hg := hi.dsOK.ids.get_of_mem hx
    have hdc : x.driverClosed = true := by
      cases hdc : x.driverClosed with
      | true => rfl
      | false =>
        obtain ⟨hd, hm⟩ := hi.iters.waiting x.id x hg hcc hdc
        rw [hit] at hm; simp at hm
    have hm := hi.log.logged x.id x hg hdc
    rw [l5s_closes_eq_count] at hc
    exact absurd hm (List.count_eq_zero.1 hc)

/-- `gc` with any fuel is a run of steps (so it preserves reachability) -/
theorem gc_is_run : ∀ (fuel : Nat) (st : St), ∃ steps, gc fuel st = run st steps := by
  intro fuel
  induction fuel with
  | zero => intro st; exact ⟨[], rfl⟩
  | succ f ih =>
    intro st
    unfold gc
    cases he : enabledFinalizers st with
    | nil => exact ⟨[], rfl⟩
    | cons x rest =>
      obtain ⟨steps, hs⟩ := ih ((step st x).getD st)
      exact ⟨x :: steps, by simp only [hs]; rfl⟩

/-- the driver statements that were prepared and have no `close` event, read off the log
    alone (what the harness counts as `openStmts`) -/
def l5q_openLog (log : List Ev) : Nat :=
  (log.filter fun e => match e with
    | .prepare ds _ _ => l5s_closes log ds == 0
    | _ => false).length

/-- in a released state every `prepare` event of the log is matched by a `close` event -/
theorem l5q_openLog_zero {st : St} (h : L5sReleased st) : l5q_openLog st.log = 0 := by
  unfold l5q_openLog
  rw [List.length_eq_zero_iff, List.filter_eq_nil_iff]
  intro e he
  cases e with
  | prepare ds d q =>
    have hp : l5s_prepared st.log ds = true := by
      unfold l5s_prepared
      rw [List.any_eq_true]
      exact ⟨_, he, by simp [l5s_isPrepareOf]⟩
    have := h.1 ds
    rw [hp, if_pos rfl] at this
    simp [this]
  | exec _ _ _ => simp
  | close _ => simp
  | execClosed _ => simp

end Sqlair.Cache
