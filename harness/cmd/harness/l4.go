package main

import (
	"context"
	"database/sql"
	"database/sql/driver"
	"encoding/json"
	"errors"
	"flag"
	"fmt"
	"io"
	"runtime"
	"strings"
	"sync"
	"time"

	"github.com/canonical/sqlair"

	"verifharness/internal/fakedrv"
	"verifharness/internal/lean"
	"verifharness/internal/rng"
)

// RawM receives the columns as the driver's bytes.
type RawM map[string]sql.RawBytes

// Row is the output type of the runtime layer's statements.
type Row struct {
	A int64  `db:"a"`
	B string `db:"b"`
	// L is scanned by a Scanner that reuses the memory its receiver already holds (as
	// json.Unmarshal into a slice does): rows decoded into a fresh struct each never share it.
	L StrList `db:"l"`
	// Extra has no db tag: no statement ever writes it.  An element GetAll appends must
	// carry its zero value, whatever the spare capacity of the caller's slice held.
	Extra int
}

// StrList keeps the single string of its column, written into the backing array it has.
type StrList []string

func (l *StrList) Scan(v any) error {
	var s string
	switch x := v.(type) {
	case string:
		s = x
	case []byte:
		s = string(x)
	case nil:
		*l = (*l)[:0]
		return nil
	default:
		return fmt.Errorf("StrList: cannot scan %T", v)
	}
	*l = append((*l)[:0], s)
	return nil
}

var rowCols = []string{"_sqlair_0", "_sqlair_1", "_sqlair_2"}

// faithful reports whether an appended element is the freshly decoded row number id.
func isPrior(r Row) bool { return r.A == 100 && r.B == "prior" && r.Extra == 0 && len(r.L) == 0 }

func faithful(r Row, id int64) bool {
	return r.Extra == 0 && r.B == fmt.Sprintf("r%d", id) && len(r.L) == 1 && r.L[0] == fmt.Sprintf("l%d", id)
}

// DeepRow reaches the same three columns through three levels of embedding (destination
// form "validdeep").
type DeepLeaf struct {
	A int64  `db:"a"`
	B string `db:"b"`
	L string `db:"l"`
}
type DeepIn struct{ DeepLeaf }
type DeepMid struct{ DeepIn }
type DeepRow struct {
	DeepMid
	Extra int
}

func deepFaithful(r DeepRow, id int64) bool {
	return r.Extra == 0 && r.B == fmt.Sprintf("r%d", id) && r.L == fmt.Sprintf("l%d", id)
}

// Unrelated is a destination the statements do not use.
type Unrelated struct {
	Z int `db:"z"`
}

const (
	l4OutSQL   = "SELECT &Row.* FROM t WHERE id IN ($IDs[:])"
	l4NoOutSQL = "UPDATE t SET x = 1 WHERE id IN ($IDs[:])"
	// the same three columns into the keys of a map (destination forms "validmap")
	l4MapSQL = "SELECT (a, b, l) AS (&M.*) FROM t WHERE id IN ($IDs[:])"
	// ... and of a map of sql.RawBytes (destination form "validraw")
	l4RawSQL = "SELECT (a, b, l) AS (&RawM.*) FROM t WHERE id IN ($IDs[:])"
	// ... and of a struct that reaches them through three levels of embedding ("validdeep")
	l4DeepSQL = "SELECT &DeepRow.* FROM t WHERE id IN ($IDs[:])"
)

// l4Case is one scripted operation (DESIGN §4 G-F / G-H, runtime layer).
type l4Case struct {
	HasOutputs bool   `json:"hasOutputs"`
	Path       string `json:"path"` // db | dbcached | tx | txcached
	Ctx        string `json:"ctx"`  // marker | nil | cancelled-before | cancelled-between | deadline
	NRows      int    `json:"nrows"`
	BadRow     int    `json:"badRow"`     // index of a row that does not convert (-1 none)
	FetchErrAt int    `json:"fetchErrAt"` // driver Next call index that fails (-1 none)
	CloseErr   bool   `json:"closeErr"`
	PrepareErr bool   `json:"prepareErr"`
	RunErr     bool   `json:"runErr"`
	// TX only: when the transaction is finished relative to the operation
	TxEnd       string   `json:"txEnd"`     // after | before-query | between (Query created, then tx ended, then run)
	Finishers   []string `json:"finishers"` // commit / rollback calls after the operation
	Concurrent  int      `json:"concurrent"`
	Op          string   `json:"op"`          // get | getall | run | iter
	Dests       string   `json:"dests"`       // valid | invalid | none | outcome+valid | niloutcome+valid | outcome | outcome+invalid
	Calls       []string `json:"calls"`       // iter: next get getoutcome getniloutcome getinvalid close
	CancelAt    int      `json:"cancelAt"`    // iter: cancel the context before this call index (-1 never)
	PreDeadline bool     `json:"preDeadline"` // the preliminary run's done context is an expired deadline
	CtxCause    bool     `json:"ctxCause"`    // the context is ended with an explicit cause
	NullL       bool     `json:"nullL"`       // map destinations: the third column is NULL in every row
	TxOpts      int      `json:"txOpts"`      // Begin with nil options, empty options, ReadOnly
	ErrWrap     int      `json:"errWrap"`     // which sentinel the injected driver errors wrap (0 none)
	// PreCtx: a preliminary Run() of the same Statement on the same DB/TX before the
	// operation proper: "" none, "live", "cancelled" (its context is already cancelled)
	PreCtx string `json:"preCtx"`
	// ExtraSets: the driver answers the query with further (empty) result sets
	ExtraSets int `json:"extraSets"`
	// FewCols: the result set has fewer columns than the statement has outputs
	FewCols bool `json:"fewCols"`
	// Op == "pair": two goroutines run the same uncached Statement on one DB, each with
	// its own context; A (Run) is held inside the driver's Prepare while B (PairOp, context
	// Ctx = marker | nil | deadline-live) runs; AEnd = cancel | deadline | release.
	// OtherShape: the runs before the operation proper (cache warm-up, preliminary run) use
	// another slice length, i.e. other SQL: the operation proper misses the cache
	OtherShape bool `json:"otherShape,omitempty"`
	// BeginCancel: the context given to Begin is cancelled after the operation and
	// database/sql has rolled the transaction back on its own before Commit / Rollback are
	// called: they must all report that the transaction is over
	BeginCancel bool `json:"beginCancel,omitempty"`
	// GAOutcome (getall only): a non-nil *Outcome is passed in front of the slice arguments;
	// GetAll clears it and goes on exactly as without it
	GAOutcome bool   `json:"gaOutcome,omitempty"`
	PairOp    string `json:"pairOp,omitempty"`
	AEnd      string `json:"aEnd,omitempty"`
}

// IDs is the slice input of the layer's statements: its length decides the generated SQL,
// so that a run with another length leaves a statement with other SQL in the cache.
type IDs []int64

var idsProper = IDs{1, 2}

// idsBefore: the argument of the runs that precede the operation proper
func (c *l4Case) idsBefore() IDs {
	if c.OtherShape {
		return IDs{1}
	}
	return idsProper
}

func genL4Pair(r *rng.R) *l4Case {
	c := &l4Case{BadRow: -1, FetchErrAt: -1, CancelAt: -1, Op: "pair", Path: "db"}
	c.HasOutputs = r.Chance(2, 3)
	c.NRows = r.Intn(3)
	c.Ctx = r.Pick([]string{"marker", "marker", "nil", "deadline-live"})
	c.PairOp = r.Pick([]string{"run", "get", "getall"})
	if !c.HasOutputs {
		c.PairOp = "run"
	}
	c.AEnd = r.Pick([]string{"cancel", "cancel", "deadline", "release"})
	return c
}

// pairBlocked is set once B has been seen waiting for A: later pair cases then wait only
// briefly before ending A, so that a tree on which B always waits does not take minutes.
var pairBlocked bool

func runL4Pair(c *l4Case) (obs *l4Obs) {
	obs = &l4Obs{Returns: []string{}, Events: []string{}, EventCtx: []string{}, EventConn: []int{}, Appended: []int64{}, Finish: []string{}, RowsFaithful: true}
	sqldb, st := fakedrv.Open()
	sqldb.SetMaxOpenConns(4)
	defer sqldb.Close()
	db := sqlair.NewDB(sqldb)
	q := l4NoOutSQL
	samples := []any{IDs{}}
	if c.HasOutputs {
		q = l4OutSQL
		samples = []any{IDs{}, Row{}}
	}
	stmt, err := sqlair.Prepare(q, samples...)
	if err != nil {
		obs.Panic = "prepare failed: " + err.Error()
		return obs
	}
	gate := fakedrv.NewGate()
	sc := fakedrv.Script{Columns: rowCols, RowsAffected: 7,
		Faults: []fakedrv.Fault{{Kind: "prepare", N: 0, Gate: gate}}}
	for i := 0; i < c.NRows; i++ {
		sc.Rows = append(sc.Rows, []driver.Value{int64(i + 1), fmt.Sprintf("r%d", i+1), fmt.Sprintf("l%d", i+1)})
	}
	st.SetScript(sc)
	st.Reset()
	ctxA, cancelA := context.WithCancel(context.WithValue(context.Background(), fakedrv.CtxKey{}, "MARK-A"))
	defer cancelA()
	if c.AEnd == "deadline" {
		// a context carrying a (far) deadline, ended by its cancel function: no timing
		// dependence, and the driver sees that the context has a deadline
		ctxA, cancelA = context.WithTimeout(ctxA, time.Hour)
		defer cancelA()
	}
	var ctxB context.Context
	switch c.Ctx {
	case "nil":
	case "deadline-live":
		var cdl context.CancelFunc
		ctxB, cdl = context.WithTimeout(context.WithValue(context.Background(), fakedrv.CtxKey{}, "MARK-B"), time.Hour)
		defer cdl()
	default:
		ctxB = context.WithValue(context.Background(), fakedrv.CtxKey{}, "MARK-B")
	}
	var retA, retB string
	doneA, doneB := make(chan struct{}), make(chan struct{})
	go func() {
		defer close(doneA)
		defer func() {
			if p := recover(); p != nil {
				retA = "panic: " + fmt.Sprint(p)
			}
		}()
		retA = errText(db.Query(ctxA, stmt, idsProper).Run())
	}()
	select {
	case <-gate.Entered:
	case <-time.After(10 * time.Second):
		obs.Panic = "A never reached the driver's Prepare"
		return obs
	}
	var row Row
	rows := []Row{}
	go func() {
		defer close(doneB)
		defer func() {
			if p := recover(); p != nil {
				retB = "panic: " + fmt.Sprint(p)
			}
		}()
		qr := db.Query(ctxB, stmt, idsProper)
		switch c.PairOp {
		case "get":
			retB = errText(qr.Get(&row))
		case "getall":
			retB = errText(qr.GetAll(&rows))
		default:
			retB = errText(qr.Run())
		}
	}()
	// B does not depend on A: it finishes while A is still held.  If it does not, A is ended
	// anyway and what B then returns is observed.
	wait := 3 * time.Second
	if pairBlocked {
		wait = 30 * time.Millisecond
	}
	select {
	case <-doneB:
	case <-time.After(wait):
		pairBlocked = true
		obs.Extra = map[string]any{"bWaitedForA": true}
	}
	switch c.AEnd {
	case "cancel", "deadline":
		cancelA()
	case "release":
		close(gate.Release)
	}
	<-doneA
	<-doneB
	obs.Returns = []string{retA, retB}
	obs.Stored = row.A
	for _, x := range rows {
		obs.Appended = append(obs.Appended, x.A)
	}
	obs.Prior = true
	for _, e := range st.Events() {
		if k, ok := modelledEvents[e.Kind]; ok {
			obs.Events = append(obs.Events, k)
			if k == "prepare" || k == "exec" || k == "query" {
				obs.EventCtx = append(obs.EventCtx, k+"@"+e.Ctx)
			}
		}
	}
	obs.InUse = sqldb.Stats().InUse
	obs.OpenRows = st.OpenRows()
	obs.DoubleClose = st.DoubleClose
	obs.ClosedUse = st.ClosedStmtUse
	runtime.KeepAlive(stmt)
	runtime.KeepAlive(db)
	return obs
}

func genL4(r *rng.R) *l4Case {
	c := &l4Case{BadRow: -1, FetchErrAt: -1, CancelAt: -1}
	c.HasOutputs = r.Chance(3, 4)
	c.Path = r.Pick([]string{"db", "db", "dbcached", "tx", "txcached"})
	c.Ctx = r.Pick([]string{"marker", "marker", "marker", "marker", "nil", "cancelled-before", "cancelled-between", "deadline"})
	c.NRows = r.Intn(4)
	if c.HasOutputs {
		if r.Chance(1, 3) && c.NRows > 0 {
			c.BadRow = r.Intn(c.NRows)
		}
		if r.Chance(1, 4) {
			c.FetchErrAt = r.Intn(c.NRows + 1)
		}
		c.CloseErr = r.Chance(1, 5)
	}
	c.PrepareErr = r.Chance(1, 10)
	c.RunErr = r.Chance(1, 8)
	if strings.HasPrefix(c.Path, "tx") {
		c.TxEnd = r.Pick([]string{"after", "after", "after", "before-query", "between"})
		n := 1 + r.Intn(3)
		for i := 0; i < n; i++ {
			c.Finishers = append(c.Finishers, r.Pick([]string{"commit", "rollback"}))
		}
		if r.Chance(1, 5) {
			c.Concurrent = 2 + r.Intn(6)
		}
	}
	c.Op = r.Pick([]string{"get", "get", "getall", "run", "iter", "iter"})
	if r.Chance(1, 4) && !(strings.HasPrefix(c.Path, "tx") && c.TxEnd == "before-query") {
		c.PreCtx = r.Pick([]string{"live", "cancelled", "cancelled"})
	}
	if c.HasOutputs && c.Op != "iter" && r.Chance(1, 5) {
		c.ExtraSets = 1 + r.Intn(2)
	}
	switch c.Op {
	case "get":
		c.Dests = r.Pick([]string{"valid", "valid", "valid", "invalid", "none", "outcome+valid", "niloutcome+valid", "outcome", "outcome+invalid", "validmap", "validdeep"})
	case "getall":
		c.Dests = r.Pick([]string{"valid", "valid", "validptr", "validcap", "validmap", "validnil", "validdeep", "invalid", "none", "nonptr", "nilptr", "ptrnonslice", "sliceint", "sliceptrint"})
	case "iter":
		n := 1 + r.Intn(8)
		for i := 0; i < n; i++ {
			c.Calls = append(c.Calls, r.Pick([]string{"next", "next", "next", "get", "get", "getoutcome", "getniloutcome", "getinvalid", "getnone", "close"}))
		}
		if r.Chance(2, 3) {
			c.Calls = append(c.Calls, "close")
		}
		if c.Ctx == "marker" && c.HasOutputs && r.Chance(1, 5) {
			c.CancelAt = r.Intn(len(c.Calls))
		}
		if c.HasOutputs && r.Chance(1, 4) {
			c.Dests = "validmap" // the rows are read into a map; the invalid argument is a pointer to a nil map
		}
	}
	if c.Op == "getall" && r.Chance(1, 4) {
		c.GAOutcome = true
	}
	if c.Dests == "validdeep" && !c.HasOutputs {
		c.Dests = "valid"
	}
	if c.Dests == "validmap" {
		if !c.HasOutputs {
			c.Dests = "valid"
		}
		c.BadRow = -1 // any value fits a map element
	}
	if c.HasOutputs && r.Chance(1, 8) {
		c.FewCols = true
	}
	if (strings.HasSuffix(c.Path, "cached") || c.PreCtx == "live") && r.Chance(1, 3) {
		c.OtherShape = true
	}
	if strings.HasPrefix(c.Path, "tx") && c.TxEnd == "after" && c.Concurrent == 0 && r.Chance(1, 5) {
		c.BeginCancel = true
	}
	if r.Chance(1, 2) {
		c.ErrWrap = 1 + r.Intn(5)
	}
	c.TxOpts = r.Intn(3)
	if c.Op == "iter" && c.HasOutputs && c.Ctx == "marker" && r.Chance(1, 60) {
		// a row read into a map of sql.RawBytes (database/sql keeps the row's memory locked
		// until the next call on the rows), then the context is cancelled, then Close: the
		// result set is closed when Close returns, and Close reports the cancellation
		c.Dests = "validraw"
		c.Calls = []string{"next", "get", "close", "close"}
		c.CancelAt = 2
		if c.NRows == 0 {
			c.NRows = 1
		}
		c.BadRow, c.FetchErrAt, c.FewCols, c.ExtraSets = -1, -1, false, 0
		c.CloseErr, c.RunErr, c.PrepareErr = false, false, false
	}
	c.PreDeadline = r.Chance(1, 2)
	c.NullL = r.Chance(1, 2)
	c.CtxCause = r.Chance(1, 3)
	return c
}

// errText maps an error to the symbolic form shared with the Lean model.
func errText(err error) string {
	if err == nil {
		return ""
	}
	msg := err.Error()
	if strings.HasPrefix(msg, "cannot get result: ") {
		return "wrapped(" + errText(errors.New(strings.TrimPrefix(msg, "cannot get result: "))) + ")"
	}
	if i := strings.Index(msg, "INJ"); i >= 0 {
		n := 0
		fmt.Sscanf(msg[i+3:], "%d", &n)
		return fmt.Sprintf("inj:%d", n)
	}
	switch {
	case errors.Is(err, sql.ErrNoRows) || msg == sql.ErrNoRows.Error():
		return "noRows"
	case errors.Is(err, sql.ErrTxDone) || msg == sql.ErrTxDone.Error():
		return "txDone"
	case errors.Is(err, context.Canceled) || errors.Is(err, context.DeadlineExceeded) ||
		msg == context.Canceled.Error() || msg == context.DeadlineExceeded.Error():
		return "ctx"
	case msg == "sql: Rows are closed":
		return "rowsClosed"
	case strings.Contains(msg, "Scan error") || strings.Contains(msg, "converting driver.Value"):
		return "scan"
	case strings.Contains(msg, "cannot call Get before Next"):
		return "sqlair:get-before-next"
	case strings.Contains(msg, "iteration ended"):
		return "sqlair:iteration-ended"
	case strings.Contains(msg, "output variables provided but not referenced"):
		return "sqlair:outputs-not-referenced"
	case strings.Contains(msg, "need pointer to slice"):
		return "sqlair:getall-args"
	case strings.Contains(msg, "need slice of structs/maps"):
		return "sqlair:getall-elem"
	case strings.Contains(msg, "nil pointer to Outcome"):
		return "sqlair:nil-outcome"
	case strings.Contains(msg, "Scan called without calling Next"):
		return "sqlair:scan-without-next"
	default:
		return "sqlair:scan-args"
	}
}

func inj(n int) error { return fmt.Errorf("INJ%d", n) }

// injWrap is an injected error that wraps one of the sentinel errors the library or
// database/sql compare against: a driver failure stays a failure whatever it wraps.
func injWrap(n, flavour int) error {
	switch flavour {
	case 1:
		return fmt.Errorf("INJ%d: %w", n, context.Canceled)
	case 2:
		return fmt.Errorf("INJ%d: %w", n, context.DeadlineExceeded)
	case 3:
		return fmt.Errorf("INJ%d: %w", n, sql.ErrNoRows)
	case 4:
		return fmt.Errorf("INJ%d: %w", n, sql.ErrTxDone)
	case 5:
		return fmt.Errorf("INJ%d: %w", n, io.EOF)
	}
	return inj(n)
}

var modelledEvents = map[string]string{"prepare": "prepare", "exec": "exec", "query": "query", "next": "next",
	"rowsclose": "rowsClose", "stmtclose": "stmtClose", "begin": "begin", "commit": "commit", "rollback": "rollback"}

type l4Obs struct {
	Returns          []string       `json:"returns"` // per call / per operation result, symbolic
	Events           []string       `json:"events"`
	EventCtx         []string       `json:"eventCtx"`  // ctx info of prepare/exec/query events
	EventConn        []int          `json:"eventConn"` // conn of every modelled event
	InUse            int            `json:"inUse"`
	OpenRows         int            `json:"openRows"`
	OpenRowsAtReturn int            `json:"openRowsAtReturn"`
	DoubleClose      int            `json:"doubleClose"`
	ClosedUse        int            `json:"closedUse"`
	Stored           int64          `json:"stored"`    // Get: Row.A after the call
	Prior            bool           `json:"priorKept"` // GetAll: prior elements unchanged
	Appended         []int64        `json:"appended"`
	Outcome          string         `json:"outcome"` // "" none, "nil", "r:<rows affected>"
	Finish           []string       `json:"finish"`
	Winners          int            `json:"winners"`
	PreReturn        string         `json:"preReturn"`
	RowsFaithful     bool           `json:"rowsFaithful"`
	BeginConn        int            `json:"beginConn"`
	Panic            string         `json:"panic,omitempty"`
	Extra            map[string]any `json:"extra,omitempty"`
}

func waitFor(cond func() bool) {
	for i := 0; i < 2000 && !cond(); i++ {
		time.Sleep(time.Millisecond)
	}
}

func runL4Case(c *l4Case) (obs *l4Obs) {
	obs = &l4Obs{Returns: []string{}, Events: []string{}, EventCtx: []string{}, EventConn: []int{}, Appended: []int64{}, Finish: []string{}, RowsFaithful: true}
	defer func() {
		if p := recover(); p != nil {
			obs.Panic = fmt.Sprint(p)
		}
	}()
	sqldb, st := fakedrv.Open()
	sqldb.SetMaxOpenConns(1)
	if strings.HasPrefix(c.Path, "tx") {
		// a second connection is available but must never be needed: everything a TX runs
		// is on the transaction's connection (a statement that strays is then observed on
		// another connection instead of deadlocking)
		sqldb.SetMaxOpenConns(2)
	}
	defer sqldb.Close()
	db := sqlair.NewDB(sqldb)
	q := l4NoOutSQL
	if c.HasOutputs {
		q = l4OutSQL
	}
	samples := []any{IDs{}}
	if c.HasOutputs {
		samples = []any{IDs{}, Row{}}
	}
	if c.Dests == "validmap" {
		q = l4MapSQL
		samples = []any{IDs{}, sqlair.M{}}
	}
	if c.Dests == "validraw" {
		q = l4RawSQL
		samples = []any{IDs{}, RawM{}}
	}
	if c.Dests == "validdeep" {
		q = l4DeepSQL
		samples = []any{IDs{}, DeepRow{}}
	}
	stmt, err := sqlair.Prepare(q, samples...)
	if err != nil {
		obs.Panic = "prepare failed: " + err.Error()
		return obs
	}
	cached := strings.HasSuffix(c.Path, "cached")
	onTx := strings.HasPrefix(c.Path, "tx")
	if cached {
		st.SetScript(fakedrv.Script{Columns: rowCols})
		db.Query(context.Background(), stmt, c.idsBefore()).Run()
	}
	// the script of the operation proper
	sc := fakedrv.Script{Columns: rowCols, RowsAffected: 7}
	for i := 0; i < c.NRows; i++ {
		var a driver.Value = int64(i + 1)
		if i == c.BadRow {
			a = "abc"
		}
		var l driver.Value = fmt.Sprintf("l%d", i+1)
		if c.Dests == "validmap" && c.NullL {
			l = nil // NULL: the key is there, holding nil
		}
		sc.Rows = append(sc.Rows, []driver.Value{a, fmt.Sprintf("r%d", i+1), l})
	}
	if c.FewCols {
		sc.Columns = sc.Columns[:1]
		for i := range sc.Rows {
			sc.Rows[i] = sc.Rows[i][:1]
		}
	}
	if c.PrepareErr {
		sc.Faults = append(sc.Faults, fakedrv.Fault{Kind: "prepare", N: 0, Err: injWrap(1, c.ErrWrap)})
	}
	if c.RunErr {
		sc.Faults = append(sc.Faults, fakedrv.Fault{Kind: "exec", N: 0, Err: injWrap(2, c.ErrWrap)}, fakedrv.Fault{Kind: "query", N: 0, Err: injWrap(2, c.ErrWrap)})
	}
	if c.FetchErrAt >= 0 {
		sc.Faults = append(sc.Faults, fakedrv.Fault{Kind: "next", N: c.FetchErrAt, Err: injWrap(3, c.ErrWrap)})
	}
	if c.CloseErr {
		sc.Faults = append(sc.Faults, fakedrv.Fault{Kind: "rowsclose", N: 0, Err: injWrap(4, c.ErrWrap)})
	}
	sc.ExtraResultSets = c.ExtraSets

	var ctx context.Context
	var cancel context.CancelFunc = func() {}
	base := context.WithValue(context.Background(), fakedrv.CtxKey{}, "MARK")
	switch c.Ctx {
	case "nil":
		ctx = nil
	case "cancelled-before":
		ctx, cancel = context.WithCancel(base)
		cancel()
	case "cancelled-between":
		ctx, cancel = context.WithCancel(base)
	case "deadline":
		ctx, cancel = context.WithDeadline(base, time.Now().Add(-time.Second))
	default:
		ctx, cancel = context.WithCancel(base)
	}
	if c.CtxCause && c.Ctx != "nil" {
		// the same, ended with an explicit cause: the context's error is still ctx.Err()
		switch c.Ctx {
		case "deadline":
			ctx, cancel = context.WithDeadlineCause(base, time.Now().Add(-time.Second), errors.New("budget used up"))
		default:
			cctx, ccancel := context.WithCancelCause(base)
			ctx, cancel = cctx, func() { ccancel(errors.New("shutting down")) }
			if c.Ctx == "cancelled-before" {
				cancel()
			}
		}
	}
	defer cancel()

	var tx *sqlair.TX
	cancelBegin := func() {}
	st.Reset()
	if onTx {
		// the transaction's own context carries another marker than any query's: a query
		// must never be run under it (a nil query context is Background, not this one)
		bctx, bcancel := context.WithCancel(context.WithValue(context.Background(), fakedrv.CtxKey{}, "BEGIN"))
		defer bcancel()
		cancelBegin = bcancel
		tx, err = db.Begin(bctx, []*sqlair.TXOptions{nil, {}, {ReadOnly: true}}[c.TxOpts%3])
		if err != nil {
			obs.Panic = "begin failed: " + err.Error()
			return obs
		}
		for _, e := range st.Events() {
			if e.Kind == "begin" {
				obs.BeginConn = e.Conn
			}
		}
	}
	finish := func() {
		if tx == nil {
			return
		}
		if c.Concurrent > 0 {
			var wg sync.WaitGroup
			res := make([]error, c.Concurrent)
			for i := 0; i < c.Concurrent; i++ {
				wg.Add(1)
				go func(i int) {
					defer wg.Done()
					if i%2 == 0 {
						res[i] = tx.Commit()
					} else {
						res[i] = tx.Rollback()
					}
				}(i)
			}
			wg.Wait()
			for _, e := range res {
				if errText(e) != "txDone" {
					obs.Winners++
				}
			}
			return
		}
		for _, f := range c.Finishers {
			var e error
			if f == "commit" {
				e = tx.Commit()
			} else {
				e = tx.Rollback()
			}
			obs.Finish = append(obs.Finish, errText(e))
		}
	}
	if c.PreCtx != "" {
		// preliminary run with a clean script; its events are not part of the case's log
		st.SetScript(fakedrv.Script{Columns: rowCols})
		pctx, pcancel := context.WithCancel(context.Background())
		if c.PreCtx == "cancelled" {
			if c.PreDeadline {
				// (done because its deadline has passed, not because it was cancelled)
				pctx, pcancel = context.WithDeadline(context.Background(), time.Now().Add(-time.Second))
			} else {
				pcancel()
			}
		}
		var perr error
		if onTx {
			perr = tx.Query(pctx, stmt, c.idsBefore()).Run()
		} else {
			perr = db.Query(pctx, stmt, c.idsBefore()).Run()
		}
		pcancel()
		obs.PreReturn = errText(perr)
	}
	st.SetScript(sc)
	// keep only what happens from here on (the TX begin is re-inserted when the log is read)
	st.Reset()
	stmtsBefore := st.StmtCount()
	if onTx && c.TxEnd == "before-query" {
		finish()
	}
	var qr *sqlair.Query
	if onTx {
		qr = tx.Query(ctx, stmt, idsProper)
	} else {
		qr = db.Query(ctx, stmt, idsProper)
	}
	if c.Ctx == "cancelled-between" {
		cancel()
	}
	if onTx && c.TxEnd == "between" {
		finish()
	}

	switch c.Op {
	case "run":
		obs.Returns = append(obs.Returns, errText(qr.Run()))
	case "get":
		var row Row
		var deep DeepRow
		var oc sqlair.Outcome
		var nilOC *sqlair.Outcome
		var args []any
		withOutcome := false
		m := sqlair.M{}
		switch c.Dests {
		case "valid":
			args = []any{&row}
		case "validmap":
			args = []any{m}
		case "validdeep":
			args = []any{&deep}
		case "invalid":
			args = []any{&Unrelated{}}
		case "none":
		case "outcome+valid":
			args = []any{&oc, &row}
			withOutcome = true
		case "niloutcome+valid":
			args = []any{nilOC, &row}
		case "outcome":
			args = []any{&oc}
			withOutcome = true
		case "outcome+invalid":
			args = []any{&oc, &Unrelated{}}
			withOutcome = true
		}
		if c.Dests == "validmap" && c.NullL {
			m["l"] = "stale" // the map is reused: the row replaces what it held
		}
		gErr := qr.Get(args...)
		obs.Returns = append(obs.Returns, errText(gErr))
		obs.Stored = row.A
		if c.Dests == "validdeep" {
			obs.Stored = deep.A
			if gErr == nil && !deepFaithful(deep, deep.A) {
				obs.RowsFaithful = false
			}
		}
		if c.Dests == "validmap" {
			obs.Stored, _ = m["a"].(int64)
			if v, ok := m["l"]; gErr == nil && c.NullL && (!ok || v != nil || len(m) != 3) {
				obs.RowsFaithful = false
			}
		}
		if withOutcome {
			if oc.Result() == nil {
				obs.Outcome = "nil"
			} else {
				n, _ := oc.Result().RowsAffected()
				obs.Outcome = fmt.Sprintf("r:%d", n)
			}
		}
	case "getall":
		rows := []Row{{A: 100, B: "prior"}}
		prows := []*Row{{A: 100, B: "prior"}}
		if c.Dests == "validcap" {
			// spare capacity: the hidden part of the backing array may be written, the
			// visible slice must not change on error
			backing := make([]Row, 8)
			for i := range backing {
				backing[i] = Row{A: int64(700 + i), B: "stale", Extra: 99}
			}
			rows = backing[:1]
			rows[0] = Row{A: 100, B: "prior"}
		}
		ms := []sqlair.M{{"a": int64(100), "b": "prior"}}
		var nilRows []Row // stays nil unless GetAll succeeds
		deeps := []DeepRow{{DeepMid: DeepMid{DeepIn{DeepLeaf{A: 100, B: "prior"}}}}}
		var args []any
		switch c.Dests {
		case "validnil":
			args = []any{&nilRows}
		case "validdeep":
			args = []any{&deeps}
		case "validmap":
			args = []any{&ms}
		case "valid", "validcap":
			args = []any{&rows}
		case "validptr":
			args = []any{&prows}
		case "invalid":
			args = []any{&[]Unrelated{}}
		case "nonptr":
			args = []any{rows}
		case "nilptr":
			args = []any{(*[]Row)(nil)}
		case "ptrnonslice":
			args = []any{&rows, &Row{}}
		case "sliceint":
			args = []any{&[]int{}}
		case "sliceptrint":
			args = []any{&rows, &[]*int{}}
		}
		if c.GAOutcome {
			args = append([]any{&sqlair.Outcome{}}, args...)
		}
		gaErr := qr.GetAll(args...)
		obs.Returns = append(obs.Returns, errText(gaErr))
		if c.Dests == "validdeep" {
			obs.Prior = len(deeps) >= 1 && deeps[0].A == 100 && deeps[0].B == "prior" && deeps[0].L == "" && deeps[0].Extra == 0
			for _, r := range deeps[1:] {
				obs.Appended = append(obs.Appended, r.A)
				if !deepFaithful(r, r.A) {
					obs.RowsFaithful = false
				}
			}
		} else if c.Dests == "validnil" {
			// nothing was there before: on any error the slice is still nil (not an empty
			// slice), on success it holds exactly the rows
			obs.Prior = gaErr == nil || nilRows == nil
			for _, r := range nilRows {
				obs.Appended = append(obs.Appended, r.A)
				if !faithful(r, r.A) {
					obs.RowsFaithful = false
				}
			}
		} else if c.Dests == "validmap" {
			obs.Prior = len(ms) >= 1 && len(ms[0]) == 2 && ms[0]["a"] == int64(100) && ms[0]["b"] == "prior"
			for _, m := range ms[1:] {
				id, _ := m["a"].(int64)
				obs.Appended = append(obs.Appended, id)
				var wantL any = fmt.Sprintf("l%d", id)
				if c.NullL {
					wantL = nil
				}
				if len(m) != 3 || m["b"] != fmt.Sprintf("r%d", id) || m["l"] != wantL {
					// not the row the driver delivered at this position (e.g. every element is
					// the same map, holding the last row)
					obs.RowsFaithful = false
				}
			}
		} else if c.Dests == "validptr" {
			obs.Prior = len(prows) >= 1 && prows[0] != nil && isPrior(*prows[0])
			for _, r := range prows[1:] {
				if r == nil {
					obs.Appended = append(obs.Appended, -1)
				} else {
					obs.Appended = append(obs.Appended, r.A)
					if !faithful(*r, r.A) {
						obs.RowsFaithful = false
					}
				}
			}
		} else {
			obs.Prior = len(rows) >= 1 && isPrior(rows[0])
			for _, r := range rows[1:] {
				obs.Appended = append(obs.Appended, r.A)
				if !faithful(r, r.A) {
					// not a freshly decoded row: something of the old backing array, or of
					// another row, shows
					obs.RowsFaithful = false
				}
			}
		}
	case "iter":
		it := qr.Iter()
		for i, call := range c.Calls {
			if i == c.CancelAt {
				before := st.OpenRows()
				cancel()
				if before > 0 && c.Dests == "validraw" {
					// (database/sql cannot close these rows by itself while the caller holds
					// RawBytes of the current row: it notes the cancellation and waits)
					time.Sleep(50 * time.Millisecond)
				} else if before > 0 {
					waitFor(func() bool { return st.OpenRows() == 0 })
				}
			}
			switch call {
			case "next":
				obs.Returns = append(obs.Returns, fmt.Sprint(it.Next()))
			case "get":
				var row Row
				var e error
				if c.Dests == "validraw" {
					m := RawM{}
					e = it.Get(m)
					fmt.Sscan(string(m["a"]), &row.A)
				} else if c.Dests == "validmap" {
					m := sqlair.M{}
					if c.NullL {
						m["l"] = "stale"
					}
					e = it.Get(m)
					row.A, _ = m["a"].(int64)
					if v, ok := m["l"]; e == nil && c.NullL && (!ok || v != nil || len(m) != 3) {
						obs.RowsFaithful = false
					}
				} else {
					e = it.Get(&row)
				}
				if e == nil {
					obs.Returns = append(obs.Returns, fmt.Sprintf("row:%d", row.A))
				} else {
					obs.Returns = append(obs.Returns, errText(e))
				}
			case "getoutcome":
				var oc sqlair.Outcome
				e := it.Get(&oc)
				if e == nil {
					if oc.Result() == nil {
						obs.Returns = append(obs.Returns, "outcome:nil")
					} else {
						n, _ := oc.Result().RowsAffected()
						obs.Returns = append(obs.Returns, fmt.Sprintf("outcome:%d", n))
					}
				} else {
					obs.Returns = append(obs.Returns, errText(e))
				}
			case "getniloutcome":
				var oc *sqlair.Outcome
				obs.Returns = append(obs.Returns, errText(it.Get(oc)))
			case "getinvalid":
				if c.Dests == "validmap" {
					var nm sqlair.M
					obs.Returns = append(obs.Returns, errText(it.Get(&nm)))
				} else {
					obs.Returns = append(obs.Returns, errText(it.Get(&Unrelated{})))
				}
			case "getnone":
				obs.Returns = append(obs.Returns, errText(it.Get()))
			case "close":
				obs.Returns = append(obs.Returns, errText(it.Close()))
			}
		}
	}
	// the result set the call opened is closed when the call returns (Get, GetAll, Run) or
	// when Close returns - also inside a transaction, which keeps its connection
	if c.Op != "iter" || (len(c.Calls) > 0 && c.Calls[len(c.Calls)-1] == "close") {
		obs.OpenRowsAtReturn = st.OpenRows()
	}
	if onTx && c.TxEnd == "after" {
		if c.BeginCancel {
			cancelBegin()
			// database/sql rolls back in the background; wait for the driver to see it
			waitFor(func() bool {
				for _, e := range st.Events() {
					if e.Kind == "rollback" {
						return true
					}
				}
				return false
			})
			// ... and for the pool to have taken the discarded connection back: the rollback
			// event is recorded before database/sql releases the connection
			waitFor(func() bool { return sqldb.Stats().InUse == 0 })
		}
		finish()
	}
	if onTx {
		obs.Events = append(obs.Events, "begin")
		obs.EventConn = append(obs.EventConn, obs.BeginConn)
	}
	for _, e := range st.Events() {
		if k, ok := modelledEvents[e.Kind]; ok {
			if (c.OtherShape || c.BeginCancel) && k == "stmtClose" && e.Stmt <= stmtsBefore {
				// the statement of the other shape, evicted from the cache by the operation
				// proper, is closed by a finalizer whenever the collector runs: not an event
				// of this operation (C10/C11's subject).  When database/sql rolls back
				// because the Begin context ended it discards the connection, closing every
				// statement that lived on it: the environment's doing, not the library's.
				continue
			}
			obs.Events = append(obs.Events, k)
			obs.EventConn = append(obs.EventConn, e.Conn)
			if k == "prepare" || k == "exec" || k == "query" {
				obs.EventCtx = append(obs.EventCtx, e.Ctx)
			}
		}
	}
	// keep the handles reachable until the log has been read: a finalizer closing the
	// cached statement is C10/C11's subject, not this layer's
	runtime.KeepAlive(stmt)
	runtime.KeepAlive(db)
	runtime.KeepAlive(tx)
	obs.InUse = sqldb.Stats().InUse
	obs.OpenRows = st.OpenRows()
	obs.DoubleClose = st.DoubleClose
	obs.ClosedUse = st.ClosedStmtUse
	return obs
}

var l4Props = []string{"C05", "C06", "C09", "C12", "C13", "C14", "C15", "C20"}

func runL4(args []string) {
	fs := flag.NewFlagSet("l4", flag.ExitOnError)
	n := fs.Int("n", 600, "number of generated cases")
	seed := fs.Uint64("seed", 1, "seed")
	tier := fs.String("tier", "quick", "tier")
	drv := fs.String("driver", "/verif/lean/.lake/build/bin/driver", "lean driver")
	out := fs.String("out", "", "report file")
	fs.String("repo", "/repo", "repository")
	replay := fs.String("replay", "", "replay one case (JSON)")
	fs.Parse(args)

	cl, err := lean.Start(*drv)
	if err != nil {
		fatalf("cannot start driver: %v", err)
	}
	defer cl.Close()
	rep := newReport("l4", *seed, *tier)
	rep.Rule = "scripted operations: statement with/without outputs x DB/TX x cached/uncached x context kind x result size 0-3 x " +
		"faults (prepare, exec/query, fetch at any position, rows close, unconvertible row) x retrieval method (Get/GetAll/Run/Iter with a random call sequence) " +
		"x transaction end placement and finisher sequences (sequential, concurrent, after the Begin context was cancelled) x preliminary runs (live / cancelled context, same or other argument shape) " +
		"x destination forms (struct, struct three levels deep, map (NULL into a reused map), map of RawBytes under cancellation, nil slice, spare capacity with stale data, Outcome) x fewer columns than outputs x further result sets " +
		"x injected errors wrapping sentinel errors x done contexts by cancellation, expired deadline or explicit cause x Begin options (nil, empty, ReadOnly); one case in 25 is a pair of goroutines with two contexts on one " +
		"uncached statement (the first held inside the driver's Prepare); non-trivial = at least one driver event or a returned error; distinct by hash of the case"
	r := rng.New(*seed)
	dist := map[string]int{}

	process := func(c *l4Case) {
		var obs *l4Obs
		cb, _ := json.Marshal(c)
		run := runL4Case
		if c.Op == "pair" {
			run = runL4Pair
		}
		if withWatchdog(15*time.Second, func() { obs = run(c) }) {
			rep.countCase(string(cb), true)
			f := Finding{Case: map[string]any{"case": c, "replay": string(cb)}, Kind: "crash",
				Detail: "the operation did not return within 15 s (deadlock / exhausted connection pool: the pool has one connection)"}
			rep.addCrash(f)
			rep.addHolds("C13", f)
			if strings.HasPrefix(c.Path, "tx") {
				rep.addHolds("C12", f)
			}
			if c.Op == "pair" {
				// the first of the two is held inside the driver's Prepare until its context
				// ends: if it never returns, the end of its context did not reach the driver
				f.Detail = "the pair did not return within 15 s: the operation held inside the driver's Prepare is ended by cancelling its context (or passing its deadline), which has to reach the driver"
				rep.addHolds("C20", f)
			}
			return
		}
		nontrivial := len(obs.Events) > 0
		for _, x := range obs.Returns {
			if x != "" && x != "true" && x != "false" {
				nontrivial = true
			}
		}
		rep.countCase(string(cb), nontrivial)
		dist["op:"+c.Op]++
		dist["path:"+c.Path]++
		dist["ctx:"+c.Ctx]++
		if c.FetchErrAt >= 0 {
			dist["fault:fetch"]++
		}
		if c.CloseErr {
			dist["fault:close"]++
		}
		if c.RunErr {
			dist["fault:run"]++
		}
		if c.PrepareErr {
			dist["fault:prepare"]++
		}
		if c.BadRow >= 0 {
			dist["fault:badrow"]++
		}
		if c.CancelAt >= 0 {
			dist["fault:cancel-during"]++
		}
		if c.FewCols {
			dist["fault:few-columns"]++
		}
		if c.TxEnd == "between" || c.TxEnd == "before-query" {
			dist["tx:ended-"+c.TxEnd]++
		}
		caseJSON := map[string]any{"case": c, "replay": string(cb)}
		if obs.Panic != "" {
			f := Finding{Case: caseJSON, Kind: "crash", Detail: "panic: " + obs.Panic}
			rep.addCrash(f)
			if c.Op == "iter" {
				rep.addHolds("C14", f) // "for every sequence of Next, Get and Close calls an Iterator never panics"
			}
			if c.Ctx == "nil" {
				// "a nil context behaves as context.Background()": it does not crash the call
				rep.addHolds("C20", Finding{Case: caseJSON, Kind: "holds", Detail: "a call made with a nil context panicked (a nil context behaves as context.Background()): " + obs.Panic})
			}
			return
		}
		resp, err := cl.Call(map[string]any{"k": "rt", "sub": "l4", "case": c, "obs": obs})
		if err != nil {
			fatalf("driver: %v (case %s)", err, cb)
		}
		if len(rep.Samples) < 6 && nontrivial && r.Chance(1, 20) {
			rep.Samples = append(rep.Samples, map[string]any{"case": c, "impl": obs})
		}
		holds := map[string]bool{}
		for _, p := range l4Props {
			holds[p] = getBool(resp, strings.ToLower(p))
		}
		for p, ok := range holds {
			if !ok {
				rep.addHolds(p, Finding{Case: caseJSON, Kind: "holds", Detail: fmt.Sprint("property predicate false on the implementation's observation: ", resp["why"]),
					Holds: holds, Impl: obs, Model: resp["model"]})
			}
		}
		if !getBool(resp, "agree") {
			var aff []string
			if a, ok := resp["affects"].([]any); ok {
				for _, x := range a {
					aff = append(aff, fmt.Sprint(x))
				}
			}
			rep.Mismatches = appendMismatch(rep.Mismatches, Finding{Case: caseJSON, Kind: "mismatch",
				Detail: fmt.Sprint("model and implementation disagree: ", resp["diff"]), Holds: holds, Impl: obs, Model: resp["model"]}, aff)
		}
	}
	if *replay != "" {
		var c l4Case
		if err := json.Unmarshal([]byte(*replay), &c); err != nil {
			fatalf("bad replay: %v", err)
		}
		process(&c)
	} else {
		// directed (round 13): a closed Iterator stays closed while other retrievals run
		for _, w := range iterAfterClose() {
			rep.addHolds("C14", Finding{Case: map[string]any{"directed": "closed Iterator touched while and after other retrievals of its Statement"}, Kind: "holds", Detail: w})
		}
		for _, w := range iterSameDest() {
			rep.addHolds("C06", Finding{Case: map[string]any{"directed": "rows of one Iterator read into the same destination, embedded pointer replaced between rows"}, Kind: "holds", Detail: w})
		}
		for _, w := range cancelThenDrain() {
			rep.addHolds("C14", Finding{Case: map[string]any{"directed": "context cancelled, Next called on at once"}, Kind: "holds", Detail: w})
		}
		for _, w := range cancelDuringFetch() {
			rep.addHolds("C13", Finding{Case: map[string]any{"directed": "context cancelled inside the driver's fetch of row k, slow driver Close"}, Kind: "holds", Detail: w})
		}
		for i := 0; i < *n; i++ {
			if hangCount >= maxHangs {
				rep.Notes = append(rep.Notes, fmt.Sprintf("stopped after %d of %d cases: %d operations hung", i, *n, hangCount))
				break
			}
			if i%25 == 24 {
				process(genL4Pair(r.Fork()))
				continue
			}
			process(genL4(r.Fork()))
		}
	}
	rep.Distribution["cases"] = dist
	if *out != "" {
		if err := rep.write(*out); err != nil {
			fatalf("write report: %v", err)
		}
	} else {
		b, _ := json.MarshalIndent(rep, "", " ")
		fmt.Println(string(b))
	}
}
