/-
  Driver: JSON-lines protocol between the Go harness and the executable Lean model.
  One request per line on stdin, one response per line on stdout.  Imports SqlairModel
  only (no Mathlib), so it links as a `lean_exe`.
-/
import Lean.Data.Json
import SqlairModel.Spec.L1
import Driver.Json
import Driver.L2
import Driver.L3
import Driver.Rt

open Lean Sqlair

namespace Driver

def isFuelErr (E : Env) : Bool :=
  match parse E with
  | .error e => e.kind == .fuel
  | .ok _ => false

/-- layer 1 request -/
def handleL1 (j : Json) : Except String Json := do
  let q ← getHex j "q"
  let cls ← parseCls j
  let E := mkEnv q cls
  let model := modelObs E
  let base : List (String × Json) :=
    [("model", obsJson model), ("fuel", Json.bool (isFuelErr E)),
     ("regions", match lexRegions E with
       | .ok rs => Json.arr (rs.map fun r => Json.arr #[r.a, r.b, if r.kind == .lit then "lit" else "comment"]).toArray
       | .error p => Json.mkObj [("unclosed", p)])] ++
    (match lexRegions E with
     | .ok rs => if rs.isEmpty then [] else [("blank", Json.str (blankRegions q rs).toHex)]
     | .error _ => [])
  match j.getObjVal? "obs" with
  | .error _ => pure (Json.mkObj base)
  | .ok oj =>
    if (getBool oj "nosegs").toOption.getD false then
      -- degraded mode: only acceptance is observed
      let modelOk := match parse E with | .ok _ => true | .error _ => false
      let shiftsOk ← (optList j "shifts").toList.mapM fun sj => do
        pure ((getBool (← sj.getObjVal? "obs") "ok").toOption.getD false)
      return (Json.mkObj (base ++
        [("agree", Json.bool modelOk), ("affects", Json.arr #[Json.str "C02", Json.str "C19"]),
         ("c01", Json.bool true),
         ("c02", Json.bool (match lexRegions E with | .error _ => false | .ok _ => true)),
         ("c19", Json.bool (shiftsOk.all id))]))
    let obs ← parseObs oj
    let shifts ← (optList j "shifts").toList.mapM fun sj => do
      pure ((← getNat sj "k"), (← parseObs (← sj.getObjVal? "obs")))
    pure (Json.mkObj (base ++
      [("agree", Json.bool (agreesWithModel E obs)),
       ("affects", Json.arr (match parse E, obs with
          | .ok _, .ok _ => #[Json.str "C01", Json.str "C02"]
          | .error _, .err .. => #[Json.str "C19"]
          | _, _ => #[Json.str "C01", Json.str "C02", Json.str "C19"])),
       ("c01", Json.bool (holdsC01 q obs && exprSpansExact E obs)), ("c02", Json.bool (holdsC02 E obs)),
       ("c19", Json.bool (holdsC19 q obs shifts))]))

def handle (line : String) : Json :=
  match Json.parse line with
  | .error e => Json.mkObj [("error", s!"json: {e}")]
  | .ok j =>
    let id := (j.getObjVal? "id").toOption.getD Json.null
    let r : Except String Json := do
      match ← getStr j "k" with
      | "l1" => handleL1 j
      | "l1op" => do
        let a ← parseObs (← j.getObjVal? "a")
        let b ← parseObs (← j.getObjVal? "b")
        pure (Json.mkObj [("same", Json.bool (holdsC02opaque a b))])
      | "l2" => handleL2 j
      | "l3prep" => handleL3Prep j
      | "l3" => handleL3 j
      | "rt" => handleRt j
      | k => throw s!"unknown layer {k}"
    match r with
    | .ok (.obj kvs) => Json.obj (kvs.insert "id" id)
    | .ok v => Json.mkObj [("id", id), ("result", v)]
    | .error e => Json.mkObj [("id", id), ("error", e)]

partial def loop (hin hout : IO.FS.Stream) : IO Unit := do
  let line ← hin.getLine
  if line.isEmpty then return ()
  let t := line.trimAscii.toString
  if !t.isEmpty then
    hout.putStrLn (handle t).compress
    hout.flush
  loop hin hout

end Driver

def main : IO Unit := do
  Driver.loop (← IO.getStdin) (← IO.getStdout)
