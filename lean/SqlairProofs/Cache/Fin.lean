/-
  The finalizers of Statement (`finS`) and DB (`finD`): their folds are sequences of
  `evictClose` micro-steps followed by `eraseS` / `eraseD`.
-/
import SqlairProofs.Cache.Evict

namespace Sqlair.Cache

/-! ### frame of closeStmt -/

theorem closeStmt_frame (st : St) (id : Nat) : ∃ ds' log', st.closeStmt id = { st with ds := ds', log := log' } := by
  unfold St.closeStmt
  cases hx : st.getDS id with
  | none => exact ⟨st.ds, st.log, rfl⟩
  | some x =>
    simp only [updDS_eq, iterHolds_eq, St.emit]
    by_cases h : (!x.closeCalled && !st.iters.any (·.2 == id)) = true
    · simp only [h]; exact ⟨_, _, rfl⟩
    · simp only [h]; exact ⟨_, _, rfl⟩

theorem closeStmt_with_stmtDB (st : St) (id : Nat) (m : List (Nat × List (Nat × Nat))) :
    ({ st with stmtDB := m } : St).closeStmt id = { st.closeStmt id with stmtDB := m } := by
  unfold St.closeStmt
  simp only [getDS_eq]
  cases hx : dsGet st.ds id with
  | none => rfl
  | some x =>
    simp only [updDS_eq, iterHolds_eq, St.emit]
    by_cases h : (!x.closeCalled && !st.iters.any (·.2 == id)) = true
    · simp only [h]; rfl
    · simp only [h]; rfl

theorem closeStmt_with_dbStmt (st : St) (id : Nat) (m : List (Nat × List Nat)) :
    ({ st with dbStmt := m } : St).closeStmt id = { st.closeStmt id with dbStmt := m } := by
  unfold St.closeStmt
  simp only [getDS_eq]
  cases hx : dsGet st.ds id with
  | none => rfl
  | some x =>
    simp only [updDS_eq, iterHolds_eq, St.emit]
    by_cases h : (!x.closeCalled && !st.iters.any (·.2 == id)) = true
    · simp only [h]; rfl
    · simp only [h]; rfl

theorem evictClose_frame (s d id : Nat) (st : St) :
    (evictClose s d id st).ops = st.ops ∧ (evictClose s d id st).liveS = st.liveS ∧
    (evictClose s d id st).liveD = st.liveD ∧ (evictClose s d id st).iters = st.iters ∧
    (evictClose s d id st).stmtDB = del2 st.stmtDB s d ∧ (evictClose s d id st).dbStmt = delIdx st.dbStmt d s ∧
    (evictClose s d id st).nextS = st.nextS ∧ (evictClose s d id st).nextD = st.nextD := by
  obtain ⟨ds', log', e⟩ := closeStmt_frame st id
  unfold evictClose
  rw [e]
  exact ⟨rfl, rfl, rfl, rfl, rfl, rfl, rfl, rfl⟩

/-! ### finS -/

def finSBody (s : Nat) (st : St) (p : Nat × Nat) : St :=
  { st.closeStmt p.2 with dbStmt := delIdx (st.closeStmt p.2).dbStmt p.1 s }

theorem step_finS {st st' : St} {s : Nat} (h : step st (.finS s) = some st') :
    st.sReachable s = false ∧ (alook st.stmtDB s).isSome ∧
      st' = eraseS s ((getRow st.stmtDB s).foldl (finSBody s) st) := by
  simp only [step] at h
  split at h
  · simp at h
  · rename_i hc
    simp only [Bool.or_eq_true, not_or, Bool.not_eq_true, Bool.not_eq_false'] at hc
    refine ⟨hc.1, ?_, ?_⟩
    · rw [alook_isSome_iff]; exact any_key_iff.1 (by simpa using hc.2)
    · simp only [Option.some.injEq] at h
      rw [← h]
      rfl

theorem erase_del2 (m : List (Nat × List (Nat × Nat))) (s d : Nat) :
    (del2 m s d).filter (·.1 != s) = m.filter (·.1 != s) := by
  rw [del2_eq]
  induction m with
  | nil => rfl
  | cons p m ih =>
    simp only [List.map_cons, List.filter_cons, ih]
    by_cases e : p.1 = s
    · simp [e]
    · simp [e]

theorem erase_foldl_del2 (s : Nat) (row : List (Nat × Nat)) (m : List (Nat × List (Nat × Nat))) :
    (row.foldl (fun m p => del2 m s p.1) m).filter (·.1 != s) = m.filter (·.1 != s) := by
  induction row generalizing m with
  | nil => rfl
  | cons p row ih => simp only [List.foldl_cons]; rw [ih, erase_del2]

theorem foldl_finS_evict (s : Nat) (row : List (Nat × Nat)) (st : St) (m : List (Nat × List (Nat × Nat))) :
    row.foldl (fun st p => evictClose s p.1 p.2 st) { st with stmtDB := m } =
      { row.foldl (finSBody s) st with stmtDB := row.foldl (fun m p => del2 m s p.1) m } := by
  induction row generalizing st m with
  | nil => rfl
  | cons p row ih =>
    simp only [List.foldl_cons]
    have : evictClose s p.1 p.2 { st with stmtDB := m } = { finSBody s st p with stmtDB := del2 m s p.1 } := by
      unfold evictClose finSBody
      rw [closeStmt_with_stmtDB]
    rw [this, ih]

theorem finS_eq_micro (s : Nat) (st : St) :
    eraseS s ((getRow st.stmtDB s).foldl (finSBody s) st) =
      eraseS s ((getRow st.stmtDB s).foldl (fun st p => evictClose s p.1 p.2 st) st) := by
  have := foldl_finS_evict s (getRow st.stmtDB s) st st.stmtDB
  have e : ({ st with stmtDB := st.stmtDB } : St) = st := rfl
  rw [e] at this
  rw [this]
  unfold eraseS
  simp only [erase_foldl_del2]
  have hfr : ∀ (row : List (Nat × Nat)) (st : St), (row.foldl (finSBody s) st).stmtDB = st.stmtDB := by
    intro row
    induction row with
    | nil => intro st; rfl
    | cons p row ih =>
      intro st
      simp only [List.foldl_cons]
      rw [ih]
      obtain ⟨ds', log', e⟩ := closeStmt_frame st p.2
      unfold finSBody; rw [e]
  rw [hfr]

/-- loop invariant of the micro-step fold of `finS` -/
theorem foldl_evictS_inv (s : Nat) (ops0 : List (Nat × Op))
    (hno : ∀ t o, (t, o) ∈ ops0 → o.pc ≠ .done → o.s ≠ s) :
    ∀ (rest : List (Nat × Nat)) (cur : St), Inv cur → cur.ops = ops0 → (rest.map (·.1)).Nodup →
      (∀ p ∈ rest, lookup2 cur.stmtDB s p.1 = some p.2) →
      Inv (rest.foldl (fun st p => evictClose s p.1 p.2 st) cur) ∧
      (rest.foldl (fun st p => evictClose s p.1 p.2 st) cur).ops = ops0 ∧
      (rest.foldl (fun st p => evictClose s p.1 p.2 st) cur).liveS = cur.liveS ∧
      (∀ s' d', lookup2 (rest.foldl (fun st p => evictClose s p.1 p.2 st) cur).stmtDB s' d' =
        if s' = s ∧ d' ∈ rest.map (·.1) then none else lookup2 cur.stmtDB s' d') := by
  intro rest
  induction rest with
  | nil => intro cur hi ho _ _; exact ⟨hi, ho, rfl, by simp⟩
  | cons p rest ih =>
    intro cur hi ho hnd hl
    simp only [List.foldl_cons]
    simp only [List.map_cons, List.nodup_cons] at hnd
    have hfr := evictClose_frame s p.1 p.2 cur
    have hlp := hl p (List.mem_cons_self ..)
    have hi' : Inv (evictClose s p.1 p.2 cur) := by
      apply inv_evictClose hi hlp
      intro t o hm hpc e
      rw [ho] at hm
      exact hno t o hm hpc e.1
    have hl' : ∀ q ∈ rest, lookup2 (evictClose s p.1 p.2 cur).stmtDB s q.1 = some q.2 := by
      intro q hq
      rw [hfr.2.2.2.2.1, lookup2_del2, if_neg]
      · exact hl q (List.mem_cons_of_mem _ hq)
      · rintro ⟨_, e⟩
        apply hnd.1; rw [← e]; exact List.mem_map.2 ⟨q, hq, rfl⟩
    obtain ⟨h1, h2, h3, h4⟩ := ih (evictClose s p.1 p.2 cur) hi' (hfr.1.trans ho) hnd.2 hl'
    refine ⟨h1, h2, h3.trans hfr.2.1, ?_⟩
    intro s' d'
    rw [h4, hfr.2.2.2.2.1, lookup2_del2]
    by_cases e1 : s' = s <;> by_cases e2 : d' = p.1 <;> by_cases e3 : d' ∈ rest.map (·.1) <;>
      simp [e1, e2, e3]
    all_goals simp_all

theorem sReachable_false {st : St} {s : Nat} (h : st.sReachable s = false) :
    s ∉ st.liveS ∧ ∀ t o, (t, o) ∈ st.ops → o.pc ≠ .done → o.s ≠ s := by
  unfold St.sReachable at h
  simp only [Bool.or_eq_false_iff] at h
  refine ⟨by simpa using h.1, ?_⟩
  intro t o hm hpc e
  have := List.any_eq_false.1 h.2 (t, o) hm
  simp [e, hpc] at this

theorem dReachable_false {st : St} {d : Nat} (h : st.dReachable d = false) :
    d ∉ st.liveD ∧ ∀ t o, (t, o) ∈ st.ops → o.pc ≠ .done → o.d ≠ d := by
  unfold St.dReachable at h
  simp only [Bool.or_eq_false_iff] at h
  refine ⟨by simpa using h.1, ?_⟩
  intro t o hm hpc e
  have := List.any_eq_false.1 h.2 (t, o) hm
  simp [e, hpc] at this

theorem inv_finS {st st' : St} {s : Nat} (hi : Inv st) (h : step st (.finS s) = some st') : Inv st' := by
  obtain ⟨hreach, hkey, rfl⟩ := step_finS h
  rw [finS_eq_micro]
  obtain ⟨hlive, hno⟩ := sReachable_false hreach
  obtain ⟨row, hrow⟩ := Option.isSome_iff_exists.1 hkey
  have hgr : getRow st.stmtDB s = row := by unfold getRow; rw [hrow]; rfl
  have hnd : (row.map (·.1)).Nodup := hi.maps.row_nodup (s, row) (alook_some_mem hrow)
  have hl : ∀ p ∈ row, lookup2 st.stmtDB s p.1 = some p.2 := by
    intro p hp
    rw [lookup2_eq, hrow]
    exact alook_of_mem_nodup hnd hp
  rw [hgr]
  obtain ⟨h1, h2, h3, h4⟩ := foldl_evictS_inv s st.ops hno row st hi rfl hnd hl
  apply inv_eraseS h1
  · intro d
    rw [h4]
    split
    · rfl
    · rename_i e
      simp only [true_and] at e
      rw [lookup2_eq, hrow]
      simp only [Option.bind_some]
      rw [alook_none_iff]
      intro p hp e'
      apply e; rw [← e']; exact List.mem_map.2 ⟨p, hp, rfl⟩
  · rw [h3]; exact hlive
  · rw [h2]; exact hno


/-! ### finD -/

def finDBody (d : Nat) (st : St) (s : Nat) : St :=
  match lookup2 st.stmtDB s d with
  | some id => { st.closeStmt id with stmtDB := del2 (st.closeStmt id).stmtDB s d }
  | none => st

def finDMicro (d : Nat) (st : St) (s : Nat) : St :=
  match lookup2 st.stmtDB s d with
  | some id => evictClose s d id st
  | none => st

theorem step_finD {st st' : St} {d : Nat} (h : step st (.finD d) = some st') :
    st.dReachable d = false ∧ (alook st.dbStmt d).isSome ∧
      st' = eraseD d ((getIdx st.dbStmt d).foldl (finDBody d) st) := by
  simp only [step] at h
  split at h
  · simp at h
  · rename_i hc
    simp only [Bool.or_eq_true, not_or, Bool.not_eq_true, Bool.not_eq_false'] at hc
    refine ⟨hc.1, ?_, ?_⟩
    · rw [alook_isSome_iff]; exact any_key_iff.1 (by simpa using hc.2)
    · simp only [Option.some.injEq] at h
      rw [← h]
      rfl

theorem erase_delIdx (m : List (Nat × List Nat)) (d s : Nat) :
    (delIdx m d s).filter (·.1 != d) = m.filter (·.1 != d) := by
  rw [delIdx_eq]
  induction m with
  | nil => rfl
  | cons p m ih =>
    simp only [List.map_cons, List.filter_cons, ih]
    by_cases e : p.1 = d
    · simp [e]
    · simp [e]

theorem foldl_finD_micro (d : Nat) (ss : List Nat) (st : St) (m : List (Nat × List Nat)) :
    ∃ m', ss.foldl (finDMicro d) { st with dbStmt := m } = { ss.foldl (finDBody d) st with dbStmt := m' } ∧
      m'.filter (·.1 != d) = m.filter (·.1 != d) := by
  induction ss generalizing st m with
  | nil => exact ⟨m, rfl, rfl⟩
  | cons s ss ih =>
    simp only [List.foldl_cons]
    cases hl : lookup2 st.stmtDB s d with
    | none =>
      have e1 : finDMicro d { st with dbStmt := m } s = { st with dbStmt := m } := by
        unfold finDMicro; simp only [hl]
      have e2 : finDBody d st s = st := by unfold finDBody; simp only [hl]
      rw [e1, e2]; exact ih st m
    | some id =>
      have e1 : finDMicro d { st with dbStmt := m } s = { finDBody d st s with dbStmt := delIdx m d s } := by
        unfold finDMicro finDBody; simp only [hl]
        unfold evictClose
        rw [closeStmt_with_dbStmt]
      rw [e1]
      obtain ⟨m', h1, h2⟩ := ih (finDBody d st s) (delIdx m d s)
      exact ⟨m', h1, by rw [h2, erase_delIdx]⟩

theorem finD_eq_micro (d : Nat) (st : St) :
    eraseD d ((getIdx st.dbStmt d).foldl (finDBody d) st) =
      eraseD d ((getIdx st.dbStmt d).foldl (finDMicro d) st) := by
  obtain ⟨m', h1, h2⟩ := foldl_finD_micro d (getIdx st.dbStmt d) st st.dbStmt
  have e : ({ st with dbStmt := st.dbStmt } : St) = st := rfl
  rw [e] at h1
  rw [h1]
  unfold eraseD
  simp only [h2]
  have hfr : ∀ (ss : List Nat) (st : St), (ss.foldl (finDBody d) st).dbStmt = st.dbStmt := by
    intro ss
    induction ss with
    | nil => intro st; rfl
    | cons s ss ih =>
      intro st
      simp only [List.foldl_cons]
      rw [ih]
      unfold finDBody
      split
      · rename_i id _
        obtain ⟨ds', log', e⟩ := closeStmt_frame st id
        rw [e]
      · rfl
  rw [hfr]

/-- loop invariant of the micro-step fold of `finD` -/
theorem foldl_evictD_inv (d : Nat) (ops0 : List (Nat × Op))
    (hno : ∀ t o, (t, o) ∈ ops0 → o.pc ≠ .done → o.d ≠ d) :
    ∀ (rest : List Nat) (cur : St), Inv cur → cur.ops = ops0 →
      Inv (rest.foldl (finDMicro d) cur) ∧
      (rest.foldl (finDMicro d) cur).ops = ops0 ∧
      (rest.foldl (finDMicro d) cur).liveD = cur.liveD ∧
      (∀ s' d', lookup2 (rest.foldl (finDMicro d) cur).stmtDB s' d' =
        if d' = d ∧ s' ∈ rest then none else lookup2 cur.stmtDB s' d') := by
  intro rest
  induction rest with
  | nil => intro cur hi ho; exact ⟨hi, ho, rfl, by simp⟩
  | cons s rest ih =>
    intro cur hi ho
    simp only [List.foldl_cons]
    cases hl : lookup2 cur.stmtDB s d with
    | none =>
      have e1 : finDMicro d cur s = cur := by unfold finDMicro; simp only [hl]
      rw [e1]
      obtain ⟨h1, h2, h3, h4⟩ := ih cur hi ho
      refine ⟨h1, h2, h3, ?_⟩
      intro s' d'
      rw [h4]
      by_cases e1 : d' = d <;> by_cases e2 : s' = s <;> by_cases e3 : s' ∈ rest <;> simp [e1, e2, e3]
      all_goals simp_all
    | some id =>
      have e1 : finDMicro d cur s = evictClose s d id cur := by unfold finDMicro; simp only [hl]
      rw [e1]
      have hfr := evictClose_frame s d id cur
      have hi' : Inv (evictClose s d id cur) := by
        apply inv_evictClose hi hl
        intro t o hm hpc e
        rw [ho] at hm
        exact hno t o hm hpc e.2
      obtain ⟨h1, h2, h3, h4⟩ := ih (evictClose s d id cur) hi' (hfr.1.trans ho)
      refine ⟨h1, h2, h3.trans hfr.2.2.1, ?_⟩
      intro s' d'
      rw [h4, hfr.2.2.2.2.1, lookup2_del2]
      by_cases e1 : d' = d <;> by_cases e2 : s' = s <;> by_cases e3 : s' ∈ rest <;> simp [e1, e2, e3]

theorem inv_finD {st st' : St} {d : Nat} (hi : Inv st) (h : step st (.finD d) = some st') : Inv st' := by
  obtain ⟨hreach, hkey, rfl⟩ := step_finD h
  rw [finD_eq_micro]
  obtain ⟨hlive, hno⟩ := dReachable_false hreach
  obtain ⟨h1, h2, h3, h4⟩ := foldl_evictD_inv d st.ops hno (getIdx st.dbStmt d) st hi rfl
  apply inv_eraseD h1
  · apply List.eq_nil_iff_forall_not_mem.2
    intro s hs
    have := (h1.maps.index s d).1 hs
    apply this
    rw [h4]
    split
    · rfl
    · rename_i e
      simp only [true_and] at e
      cases hl : lookup2 st.stmtDB s d with
      | none => rfl
      | some id => exact absurd ((hi.maps.index s d).2 (by simp [hl])) e
  · rw [h3]; exact hlive
  · rw [h2]; exact hno

end Sqlair.Cache
