/-
  Bind: port of /repo/internal/expr/{bindtypes,typedexprbuilder,bindinputs,querybuilder}.go
  and /repo/internal/typeinfo/{validate,valuelocator}.go (input side), repaired tree.

  Go maps are association lists (DESIGN §3): `argInfos` is keyed by type name,
  `typeToValue` by type id; both have unique keys, so look-ups do not depend on order.
-/
import SqlairModel.Types
import SqlairModel.Spec.L1

namespace Sqlair

/-! ## bindTypes -/

/-- value locators (typeinfo.Input / typeinfo.Output) -/
inductive Loc where
  | field (tid : Nat) (tyName : Bytes) (f : SField)
  | mapKey (tid : Nat) (tyName : Bytes) (key : Bytes)
  | slice (tid : Nat) (tyName : Bytes)
deriving Repr, Inhabited

def Loc.tid : Loc → Nat
  | .field t .. => t | .mapKey t .. => t | .slice t _ => t
def Loc.tyName : Loc → Bytes
  | .field _ n _ => n | .mapKey _ n _ => n | .slice _ n => n

def dot : Bytes := #[46]

/-- `Identifier()` -/
def Loc.ident : Loc → Bytes
  | .field _ n f => n ++ dot ++ f.tag
  | .mapKey _ n k => n ++ dot ++ k
  | .slice _ n => n ++ "[:]".toUTF8.data

inductive TCol where
  | insert (loc : Loc) (column : Bytes) (explicit : Bool)
  | literal (column : Bytes) (lit : Bytes)
deriving Repr, Inhabited

inductive TExpr where
  | bypass (chunk : Bytes)
  | input (loc : Loc)
  | insert (cols : List TCol)
  | output (cols : List (Bytes × Loc))
deriving Repr, Inhabited

/-- typedExprBuilder state -/
structure TEB where
  argInfos : List (Bytes × ArgInfo)
  argUsed : List Bytes := []       -- names of used samples
  outputUsed : List Bytes := []
  exprs : List TExpr := []
deriving Repr

/-- results of builder operations: a value and the new builder state, or an error class -/
abbrev TR (α : Type) := Except String (α × TEB)

/-- `getArg`: look the sample up by name and mark it used -/
def getArg (st : TEB) (typeName : Bytes) : TR ArgInfo :=
  match st.argInfos.find? (fun p => p.1 == typeName) with
  | none => .error "type-missing"
  | some (_, a) =>
    .ok (a, { st with argUsed := if st.argUsed.contains typeName then st.argUsed else typeName :: st.argUsed })

/-- `ArgInfo.GetMember` -/
def ArgInfo.getMember (a : ArgInfo) (member : Bytes) : Except String Loc :=
  match a with
  | .struct tid n fields _ =>
    match fields.find? (fun f => f.tag == member) with
    | some f => .ok (.field tid n f)
    | none => .error "no-such-tag"
  | .map tid n => .ok (.mapKey tid n member)
  | .slice _ _ => .error "member-of-slice"

/-- `ArgInfo.GetAllStructMembers` -/
def ArgInfo.getAll (a : ArgInfo) : Except String (List (Loc × Bytes)) :=
  match a with
  | .struct tid n fields tags =>
    if tags.isEmpty then .error "no-tags" else
    .ok (tags.filterMap fun t => (fields.find? (fun f => f.tag == t)).map fun f => (Loc.field tid n f, t))
  | .map _ _ => .error "map-with-asterisk"
  | .slice _ _ => .error "slice-with-asterisk"

def ArgInfo.getSlice (a : ArgInfo) : Except String Loc :=
  match a with
  | .slice tid n => .ok (.slice tid n)
  | .struct .. => .error "slice-syntax-on-struct"
  | .map .. => .error "slice-syntax-on-map"

/-- `InputMember` -/
def inputMember (st : TEB) (ty member : Bytes) : TR Loc :=
  match getArg st ty with
  | .error e => .error e
  | .ok (a, st) =>
    match a.getMember member with
    | .error e => .error e
    | .ok l => .ok (l, st)

/-- the `outputUsed` check-and-mark of OutputMember / AllStructOutputs -/
def markOutput (st : TEB) (l : Loc) : Except String TEB :=
  if st.outputUsed.contains l.ident then .error "output-used-twice"
  else .ok { st with outputUsed := l.ident :: st.outputUsed }

/-- `OutputMember` -/
def outputMember (st : TEB) (ty member : Bytes) : TR Loc :=
  match getArg st ty with
  | .error e => .error e
  | .ok (a, st) =>
    match a.getMember member with
    | .error e => .error e
    | .ok l =>
      match markOutput st l with
      | .error e => .error e
      | .ok st => .ok (l, st)

/-- `AllStructInputs` -/
def allStructInputs (st : TEB) (ty : Bytes) : TR (List (Loc × Bytes)) :=
  match getArg st ty with
  | .error e => .error e
  | .ok (a, st) =>
    match a.getAll with
    | .error e => .error e
    | .ok ms => .ok (ms, st)

def markOutputs : TEB → List (Loc × Bytes) → Except String TEB
  | st, [] => .ok st
  | st, (l, _) :: rest =>
    match markOutput st l with
    | .error e => .error e
    | .ok st => markOutputs st rest

/-- `AllStructOutputs` -/
def allStructOutputs (st : TEB) (ty : Bytes) : TR (List (Loc × Bytes)) :=
  match getArg st ty with
  | .error e => .error e
  | .ok (a, st) =>
    match a.getAll with
    | .error e => .error e
    | .ok ms =>
      match markOutputs st ms with
      | .error e => .error e
      | .ok st => .ok (ms, st)

def TEB.add (st : TEB) (e : TExpr) : TEB := { st with exprs := st.exprs ++ [e] }

/-- `basicColumn.String()` / `sqlFunctionCall.String()` -/
def Col.str (c : Col) : Bytes := if c.func || c.table.size == 0 then c.column else c.table ++ dot ++ c.column
/-- `tableName()` -/
def Col.tableName (c : Col) : Bytes := if c.func then #[] else c.table

def newOutputColumn (table column : Bytes) (l : Loc) : Bytes × Loc :=
  if table.size == 0 then (column, l) else (table ++ dot ++ column, l)

def starCountCols (cs : List Col) : Nat := (cs.filter (fun c => c.column == star)).length

/-- provider table of `columnsInsertExpr.bindTypes`: an explicit member *assigns*, an
    asterisk struct *appends* -/
def provAssign (m : List (Bytes × List Loc)) (k : Bytes) (l : Loc) : List (Bytes × List Loc) :=
  if m.any (·.1 == k) then m.map (fun p => if p.1 == k then (k, [l]) else p) else m ++ [(k, [l])]
def provAppend (m : List (Bytes × List Loc)) (k : Bytes) (l : Loc) : List (Bytes × List Loc) :=
  if m.any (·.1 == k) then m.map (fun p => if p.1 == k then (k, p.2 ++ [l]) else p) else m ++ [(k, [l])]

/-- the source loop of `asteriskInsertExpr.bindTypes` -/
def astInsertCols : TEB → List Acc → List TCol → TR (List TCol)
  | st, [], cols => .ok (cols, st)
  | st, src :: rest, cols =>
    if src.member == star then
      match allStructInputs st src.ty with
      | .error e => .error e
      | .ok (ms, st) => astInsertCols st rest (cols ++ ms.map (fun (l, tag) => TCol.insert l tag false))
    else
      match inputMember st src.ty src.member with
      | .error e => .error e
      | .ok (l, st) => astInsertCols st rest (cols ++ [TCol.insert l src.member true])

/-- step 1 of `columnsInsertExpr.bindTypes`: providers and the asterisk map -/
def colInsertProviders : TEB → List Acc → List (Bytes × List Loc) → Option Bytes →
    TR (List (Bytes × List Loc) × Option Bytes)
  | st, [], prov, remaining => .ok ((prov, remaining), st)
  | st, src :: rest, prov, remaining =>
    if src.member == star then
      match getArg st src.ty with          -- repaired `Kind`: marks the sample used
      | .error e => .error e
      | .ok (.map .., st) =>
        if remaining.isSome then .error "more-than-one-asterisk-map"
        else colInsertProviders st rest prov (some src.ty)
      | .ok (_, st) =>
        match allStructInputs st src.ty with
        | .error e => .error e
        | .ok (ms, st) =>
          colInsertProviders st rest (ms.foldl (fun pr (l, tag) => provAppend pr tag l) prov) remaining
    else
      match inputMember st src.ty src.member with
      | .error e => .error e
      | .ok (l, st) => colInsertProviders st rest (provAssign prov src.member l) remaining

/-- step 2 of `columnsInsertExpr.bindTypes`: the listed columns -/
def colInsertCols (prov : List (Bytes × List Loc)) (remaining : Option Bytes) :
    TEB → List Col → List TCol → TR (List TCol)
  | st, [], cols => .ok (cols, st)
  | st, c :: rest, cols =>
    let cs := c.str
    match prov.find? (·.1 == cs), remaining with
    | some (_, [l]), _ => colInsertCols prov remaining st rest (cols ++ [TCol.insert l cs true])
    | some (_, _), _ => .error "more-than-one-provider"
    | none, some m =>
      match inputMember st m cs with
      | .error e => .error e
      | .ok (l, st) => colInsertCols prov remaining st rest (cols ++ [TCol.insert l cs true])
    | none, none => .error "missing-provider"

/-- the pair loop of `basicInsertExpr.bindTypes` -/
def basicInsertCols : TEB → List (Col × Val) → List TCol → TR (List TCol)
  | st, [], cols => .ok (cols, st)
  | st, (c, v) :: rest, cols =>
    match v with
    | .lit t => basicInsertCols st rest (cols ++ [TCol.literal c.column t])
    | .acc a =>
      match inputMember st a.ty a.member with
      | .error e => .error e
      | .ok (l, st) => basicInsertCols st rest (cols ++ [TCol.insert l c.column true])

/-- case 1 of `outputExpr.bindTypes`: generated columns -/
def outGenerated (pref : Bytes) : TEB → List Acc → List (Bytes × Loc) → TR (List (Bytes × Loc))
  | st, [], ocs => .ok (ocs, st)
  | st, t :: rest, ocs =>
    if t.member == star then
      match allStructOutputs st t.ty with
      | .error e => .error e
      | .ok (ms, st) => outGenerated pref st rest (ocs ++ ms.map (fun (l, tag) => newOutputColumn pref tag l))
    else
      match outputMember st t.ty t.member with
      | .error e => .error e
      | .ok (l, st) => outGenerated pref st rest (ocs ++ [newOutputColumn pref t.member l])

/-- case 2: explicit columns into one asterisk type -/
def outIntoStar (ty : Bytes) : TEB → List Col → List (Bytes × Loc) → TR (List (Bytes × Loc))
  | st, [], ocs => .ok (ocs, st)
  | st, c :: rest, ocs =>
    match outputMember st ty c.column with
    | .error e => .error e
    | .ok (l, st) => outIntoStar ty st rest (ocs ++ [newOutputColumn c.tableName c.column l])

/-- case 3: columns and types pairwise -/
def outPairwise : TEB → List (Col × Acc) → List (Bytes × Loc) → TR (List (Bytes × Loc))
  | st, [], ocs => .ok (ocs, st)
  | st, (c, t) :: rest, ocs =>
    match outputMember st t.ty t.member with
    | .error e => .error e
    | .ok (l, st) => outPairwise st rest (ocs ++ [newOutputColumn c.tableName c.column l])

/-- `expression.bindTypes` for every node kind -/
def bindSeg (st : TEB) (s : OSeg) : Except String TEB :=
  match s.kind with
  | .bypass => .ok (st.add (.bypass s.raw))
  | .member =>
    match s.types with
    | [a] =>
      match inputMember st a.ty a.member with
      | .error e => .error e
      | .ok (l, st) => .ok (st.add (.input l))
    | _ => .error "malformed-ast"
  | .slice =>
    match s.types with
    | [a] =>
      match getArg st a.ty with
      | .error e => .error e
      | .ok (ai, st) =>
        match ai.getSlice with
        | .error e => .error e
        | .ok l => .ok (st.add (.input l))
    | _ => .error "malformed-ast"
  | .astInsert =>
    match astInsertCols st s.types [] with
    | .error e => .error e
    | .ok (cols, st) => .ok (st.add (.insert cols))
  | .colInsert =>
    match colInsertProviders st s.types [] none with
    | .error e => .error e
    | .ok ((prov, remaining), st) =>
      match colInsertCols prov remaining st s.cols [] with
      | .error e => .error e
      | .ok (cols, st) => .ok (st.add (.insert cols))
  | .basicInsert =>
    if s.cols.length != s.vals.length then .error "mismatched-columns-values" else
    match basicInsertCols st (s.cols.zip s.vals) [] with
    | .error e => .error e
    | .ok (cols, st) => .ok (st.add (.insert cols))
  | .output =>
    let numTypes := s.types.length
    let numColumns := s.cols.length
    let starTypes := starCountTypes s.types
    let starColumns := starCountCols s.cols
    if numColumns == 0 || (numColumns == 1 && starColumns == 1) then
      let pref := match s.cols with | c :: _ => c.tableName | [] => #[]
      match outGenerated pref st s.types [] with
      | .error e => .error e
      | .ok (ocs, st) => .ok (st.add (.output ocs))
    else if numColumns > 1 && starColumns > 0 then .error "invalid-asterisk-in-columns"
    else if starTypes == 1 && numTypes == 1 then
      match outIntoStar (s.types.headD default).ty st s.cols [] with
      | .error e => .error e
      | .ok (ocs, st) => .ok (st.add (.output ocs))
    else if starTypes > 0 && numTypes > 1 then .error "invalid-asterisk-in-types"
    else if numColumns == numTypes then
      match outPairwise st (s.cols.zip s.types) [] with
      | .error e => .error e
      | .ok (ocs, st) => .ok (st.add (.output ocs))
    else .error "mismatched-columns-types"

/-- the node loop of BindTypes -/
def bindSegs : TEB → List OSeg → Except String TEB
  | st, [] => .ok st
  | st, s :: rest =>
    match bindSeg st s with
    | .error e => .error e
    | .ok st => bindSegs st rest

/-- `ParsedExpr.BindTypes` -/
def bindTypes (C : Cls) (tt : TypeTable) (segs : List OSeg) (samples : List (Option Nat)) : Except String (List TExpr) :=
  match generateArgInfo C tt samples [] with
  | .error e => .error e
  | .ok infos =>
    match bindSegs { argInfos := infos } segs with
    | .error e => .error e
    | .ok st =>
      -- checkAllArgsUsed
      if infos.all (fun p => st.argUsed.contains p.1) then .ok st.exprs else .error "sample-not-used"

/-! ## bindInputs -/

abbrev TypeToValue := List (Nat × GoVal)

def ttvGet (m : TypeToValue) (t : Nat) : Option GoVal := (m.find? (·.1 == t)).map (·.2)

/-- is `s` the type `[]t` (reflect.SliceOf(t))? -/
def isSliceOf (tt : TypeTable) (s t : Nat) : Bool :=
  let sd := tt.get s
  sd.kind == .slice && sd.name.size == 0 && sd.elem == t

/-- is `s` the type `[]*t`? -/
def isSliceOfPtr (tt : TypeTable) (s t : Nat) : Bool :=
  let sd := tt.get s
  let ed := tt.get sd.elem
  sd.kind == .slice && sd.name.size == 0 && ed.kind == .ptr && ed.name.size == 0 && ed.elem == t

/-- `validateValue` -/
def validateValue (v : GoVal) : Except String Unit :=
  match v with
  | .invalid => .error "nil-argument"
  | .ptr _ none => .error "nil-pointer"
  | .map _ none => .error "nil-map"
  | _ => .ok ()

def indirect (v : GoVal) : GoVal :=
  match v with
  | .ptr _ (some p) => p
  | v => v

/-- `ValidateInputs` -/
def validateInputs (tt : TypeTable) : List GoVal → TypeToValue → Except String TypeToValue
  | [], m => .ok m
  | arg :: rest, m =>
    match validateValue arg with
    | .error e => .error e
    | .ok _ =>
      let v := indirect arg
      let t := v.tid
      let td := tt.get t
      let chk : Except String Unit :=
        match td.kind with
        | .map | .struct =>
          if td.name.size == 0 then .error "anonymous-struct-or-map"
          else if m.any (fun p => isSliceOf tt p.1 t) then .error "type-and-slice"
          else if m.any (fun p => isSliceOfPtr tt p.1 t) then .error "type-and-slice"
          else .ok ()
        | .slice =>
          let ed := tt.get td.elem
          match ed.kind with
          | .map | .struct =>
            if td.name.size == 0 && (ttvGet m td.elem).isSome then .error "type-and-slice" else .ok ()
          | .ptr =>
            if td.name.size == 0 && (ttvGet m ed.elem).isSome then .error "type-and-slice" else .ok ()
          | _ => if td.name.size == 0 then .error "anonymous-slice" else .ok ()
        | _ => .error "unsupported-kind"
      match chk with
      | .error e => .error e
      | .ok _ =>
        if (ttvGet m t).isSome then .error "type-provided-twice"
        else validateInputs tt rest (m ++ [(t, v)])

/-- `Params` -/
structure Params where
  vals : List String
  om : Bool
  bulk : Bool
  argType : Nat
deriving Repr

/-- `locateBulkType` -/
def locateBulk (tt : TypeTable) (m : TypeToValue) (t : Nat) : Option GoVal :=
  match m.find? (fun p => isSliceOf tt p.1 t) with
  | some p => some p.2
  | none => (m.find? (fun p => isSliceOfPtr tt p.1 t)).map (·.2)

/-- `valueNotFoundError`: only its class matters -/
def valueNotFound (tt : TypeTable) (m : TypeToValue) (t : Nat) : String :=
  if m.any (fun p => (tt.get p.1).name == (tt.get t).name) then "same-name-different-type" else "value-missing"

/-- map look-up with the key converted to the map's key type (repaired) -/
def mapIndex (kv : Option (List (Bytes × GoVal))) (key : Bytes) : Option GoVal :=
  match kv with
  | none => none
  | some l => (l.find? (·.1 == key)).map (·.2)

/-- element `i` of a bulk slice as a struct/map value: dereferences `[]*T` elements -/
def bulkElem (v : GoVal) : Except String GoVal :=
  match v with
  | .ptr _ none => .error "nil-pointer-in-slice"
  | .ptr _ (some p) => .ok p
  | v => .ok v

/-- the element loop of `mapKey.LocateParams` for a bulk slice -/
def bulkMapVals (key : Bytes) : List GoVal → List String → Except String (List String)
  | [], acc => .ok acc
  | e :: rest, acc =>
    match bulkElem e with
    | .error x => .error x
    | .ok (.map _ none) => .error "nil-map-in-slice"
    | .ok (.map _ kv) =>
      match mapIndex kv key with
      | none => .error "map-key-missing"
      | some v => bulkMapVals key rest (acc ++ [v.h.r])
    | .ok _ => .error "panic-not-a-map"

/-- the element loop of `structField.LocateParams` for a bulk slice: row 0 decides the
    omitempty flag, every other row must agree -/
def bulkFieldVals (f : SField) : List GoVal → Bool → Bool → List String → Except String (List String × Bool)
  | [], _, om, acc => .ok (acc, om)
  | e :: rest, first, om, acc =>
    match bulkElem e with
    | .error x => .error x
    | .ok s =>
      match fieldByIndex s f.index true with
      | .error x => .error x
      | .ok v =>
        if f.omitEmpty then
          if first && v.h.zero then bulkFieldVals f rest false true (acc ++ [v.h.r])
          else if v.h.zero != om then .error "omitempty-mix"
          else bulkFieldVals f rest false om (acc ++ [v.h.r])
        else bulkFieldVals f rest false om (acc ++ [v.h.r])

/-- `LocateParams` of the three locators -/
def locateParams (tt : TypeTable) (m : TypeToValue) (l : Loc) : Except String Params :=
  match l with
  | .slice tid _ =>
    match ttvGet m tid with
    | some (.slice _ els) => .ok { vals := els.map (·.h.r), om := false, bulk := false, argType := tid }
    | some _ => .error "panic-not-a-slice"
    | none => .error (valueNotFound tt m tid)
  | .mapKey tid _ key =>
    match ttvGet m tid with
    | some (.map _ kv) =>
      match mapIndex kv key with
      | none => .error "map-key-missing"
      | some v => .ok { vals := [v.h.r], om := false, bulk := false, argType := tid }
    | some _ => .error "panic-not-a-map"
    | none =>
      match locateBulk tt m tid with
      | some (.slice h els) =>
        if els.isEmpty then .error "empty-slice" else
        match bulkMapVals key els [] with
        | .error x => .error x
        | .ok vals => .ok { vals := vals, om := false, bulk := true, argType := h.t }
      | some _ => .error "panic-not-a-slice"
      | none => .error (valueNotFound tt m tid)
  | .field tid _ f =>
    match ttvGet m tid with
    | some s =>
      match fieldByIndex s f.index true with
      | .error e => .error e
      | .ok v => .ok { vals := [v.h.r], om := v.h.zero && f.omitEmpty, bulk := false, argType := tid }
    | none =>
      match locateBulk tt m tid with
      | some (.slice h els) =>
        if els.isEmpty then .error "empty-slice" else
        match bulkFieldVals f els true false [] with
        | .error x => .error x
        | .ok (vals, om) => .ok { vals := vals, om := om, bulk := true, argType := h.t }
      | some _ => .error "panic-not-a-slice"
      | none => .error (valueNotFound tt m tid)

/-! ### query builder -/

/-- a cell of an insert tuple -/
inductive Cell where
  | lit (text : Bytes)
  | ph (n : Nat)
deriving Repr, Inhabited, DecidableEq

/-- generated SQL, structured -/
inductive Piece where
  | text (b : Bytes)
  | inputs (first : Nat) (num : Nat)                   -- @sqlair_first, …
  | outputs (first : Nat) (cols : List Bytes)          -- col AS _sqlair_first, …
  | insert (cols : List Bytes) (rows : List (List Cell))
deriving Repr, Inhabited

structure QB where
  inputCount : Nat := 0
  outputCount : Nat := 0
  argUsed : List Nat := []
  pieces : List Piece := []
  params : List (Nat × String) := []     -- (n, value) for sqlair_n, in driver order
  outputs : List Loc := []
deriving Repr

/-- `boundInsertColumn` -/
structure BCol where
  vals : List String
  first : Nat
  om : Bool
  bulk : Bool
  argType : Option Nat
  inputName : Bytes
  literal : Bytes
  column : Bytes
deriving Repr

/-- `boundInsertColumn.parameter` -/
def BCol.parameter (bc : BCol) (row : Nat) : Except String (Cell × Option (Nat × String)) :=
  match bc.vals with
  | [] => .ok (.lit bc.literal, none)
  | [v] => .ok (.ph bc.first, if row == 0 then some (bc.first, v) else none)
  | vs =>
    match vs[row]? with
    | some v => .ok (.ph (bc.first + row), some (bc.first + row, v))
    | none => .error "internal-no-bulk-value"

/-- `insertColumn.bindInputs` / `literalColumn.bindInputs` -/
def TCol.bind (tt : TypeTable) (m : TypeToValue) (c : TCol) (inputCount : Nat) : Except String (BCol × Nat) :=
  match c with
  | .literal column lit =>
    .ok ({ vals := [], first := 0, om := false, bulk := false, argType := none, inputName := #[],
           literal := lit, column := column }, inputCount)
  | .insert loc column explicit =>
    match locateParams tt m loc with
    | .error e => .error e
    | .ok p =>
      if !p.bulk && p.vals.length > 1 then .error "internal-multiple-values"
      else if p.om && explicit then .error "omitempty-explicit-zero"
      else
        let (first, ic) := if !p.om then (inputCount, inputCount + p.vals.length) else (0, inputCount)
        .ok ({ vals := p.vals, first := first, om := p.om, bulk := p.bulk, argType := some p.argType,
               inputName := loc.tyName, literal := #[], column := column }, ic)

def markUsed (used : List Nat) (t : Nat) : List Nat := if used.contains t then used else t :: used

/-- the column loop of `typedInsertExpr.addToQuery` -/
def bindCols (tt : TypeTable) (m : TypeToValue) :
    List TCol → QB → List BCol → Bool → Nat → Except String (QB × List BCol × Nat)
  | [], qb, acc, _, numRows => .ok (qb, acc, numRows)
  | c :: rest, qb, acc, bulk, numRows =>
    match c.bind tt m qb.inputCount with
    | .error e => .error e
    | .ok (bc, ic) =>
      let qb := { qb with inputCount := ic }
      if bc.bulk && bulk && bc.vals.length != numRows then .error "mismatched-bulk-lengths" else
      let (bulk', numRows') := if bc.bulk && !bulk then (true, bc.vals.length) else (bulk, numRows)
      let qb := match bc.argType with | some t => { qb with argUsed := markUsed qb.argUsed t } | none => qb
      bindCols tt m rest qb (acc ++ [bc]) bulk' numRows'

/-- one row of `addInsert` -/
def insertRow (cols : List BCol) (row : Nat) : Except String (List Cell × List (Nat × String)) :=
  cols.foldlM (fun (acc : List Cell × List (Nat × String)) bc =>
    if bc.om then pure acc else
    match bc.parameter row with
    | .error e => .error e
    | .ok (cell, np) => pure (acc.1 ++ [cell], match np with | some p => acc.2 ++ [p] | none => acc.2)) ([], [])

/-- the row loop of `addInsert` (row-major) -/
def insertRows (cols : List BCol) : List Nat → Except String (List (List Cell) × List (Nat × String))
  | [] => .ok ([], [])
  | r :: rest =>
    match insertRow cols r with
    | .error e => .error e
    | .ok (cells, ps) =>
      match insertRows cols rest with
      | .error e => .error e
      | .ok (rows, ps') => .ok (cells :: rows, ps ++ ps')

/-- `addInsert` -/
def addInsert (qb : QB) (cols : List BCol) (numRows : Nat) : Except String QB :=
  match insertRows cols (List.range numRows) with
  | .error e => .error e
  | .ok (rows, ps) =>
    let names := (cols.filter (fun bc => !bc.om)).map (·.column)
    .ok { qb with params := qb.params ++ ps, pieces := qb.pieces ++ [.insert names rows] }

/-- `addToQuery` of every typed expression -/
def addToQuery (tt : TypeTable) (m : TypeToValue) (qb : QB) (te : TExpr) : Except String QB :=
  match te with
  | .bypass chunk => .ok { qb with pieces := qb.pieces ++ [.text chunk] }
  | .input loc =>
    match locateParams tt m loc with
    | .error e => .error e
    | .ok p =>
      if p.om then .error "omitempty-explicit-zero"
      else if p.bulk then .error "bulk-outside-insert"
      else
        let first := qb.inputCount
        .ok { qb with
          argUsed := markUsed qb.argUsed p.argType
          inputCount := qb.inputCount + p.vals.length
          params := qb.params ++ ((List.range p.vals.length).zip p.vals).map (fun (i, v) => (first + i, v))
          pieces := qb.pieces ++ [.inputs first p.vals.length] }
  | .insert cols =>
    match bindCols tt m cols qb [] false 1 with
    | .error e => .error e
    | .ok (qb, bcs, numRows) => addInsert qb bcs numRows
  | .output cols =>
    .ok { qb with
      pieces := qb.pieces ++ [.outputs qb.outputCount (cols.map (·.1))]
      outputCount := qb.outputCount + cols.length
      outputs := qb.outputs ++ cols.map (·.2) }

/-- the result of BindInputs -/
structure Primed where
  pieces : List Piece
  params : List (Nat × String)
  outputs : List Loc
deriving Repr

/-- `TypeBoundExpr.BindInputs` -/
def bindInputs (tt : TypeTable) (tes : List TExpr) (args : List GoVal) : Except String Primed :=
  match validateInputs tt args [] with
  | .error e => .error e
  | .ok m =>
    match tes.foldlM (addToQuery tt m) ({} : QB) with
    | .error e => .error e
    | .ok qb =>
      if m.all (fun p => qb.argUsed.contains p.1) then
        .ok { pieces := qb.pieces, params := qb.params, outputs := qb.outputs }
      else .error "argument-not-used"

/-! ### rendering (sqlBuilder) -/

def natBytes (n : Nat) : Bytes := (toString n).toUTF8.data
def bs (s : String) : Bytes := s.toUTF8.data

def joinComma (l : List Bytes) : Bytes :=
  match l with
  | [] => #[]
  | x :: xs => xs.foldl (fun acc y => acc ++ bs ", " ++ y) x

def Cell.render : Cell → Bytes
  | .lit t => t
  | .ph n => bs "@sqlair_" ++ natBytes n

def Piece.render : Piece → Bytes
  | .text b => b
  | .inputs first num => joinComma ((List.range num).map fun i => bs "@sqlair_" ++ natBytes (first + i))
  | .outputs first cols =>
    joinComma ((List.range cols.length).zip cols |>.map fun (i, c) => c ++ bs " AS _sqlair_" ++ natBytes (first + i))
  | .insert cols rows =>
    bs "(" ++ joinComma cols ++ bs ") VALUES " ++
      joinComma (rows.map fun r => bs "(" ++ joinComma (r.map Cell.render) ++ bs ")")

def renderSQL (ps : List Piece) : Bytes := ps.foldl (fun acc p => acc ++ p.render) #[]

end Sqlair
