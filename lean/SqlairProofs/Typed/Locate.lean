/-
  Typed/Locate: a declarative (relational) semantics `Located` of the value locators against
  the validated arguments, and its equivalence with `locateParams` (C08, part 4).
-/
import SqlairProofs.Bind.Perm
import SqlairProofs.Bind.LocDefs

namespace Sqlair

/-! ### what one element of a bulk slice contributes -/

/-- the value a bulk element holds under `key`: the element (dereferenced if it is a non-nil
    pointer) is a non-nil map holding the key -/
def mapElemVal (key : Bytes) (e : GoVal) : Option GoVal :=
  match bulkElem e with
  | .ok (.map _ kv) => mapIndex kv key
  | _ => none

/-- the value of field `f` of a bulk element: the element (dereferenced if it is a non-nil
    pointer) has a value at the field path (no nil embedded pointer on the way) -/
def fieldElemVal (f : SField) (e : GoVal) : Option GoVal :=
  match bulkElem e with
  | .ok s =>
    match fieldByIndex s f.index true with
    | .ok v => some v
    | .error _ => none
  | .error _ => none

def mapElemR (key : Bytes) (e : GoVal) : String := ((mapElemVal key e).getD default).h.r
def fieldElemR (f : SField) (e : GoVal) : String := ((fieldElemVal f e).getD default).h.r
def fieldElemZero (f : SField) (e : GoVal) : Bool := ((fieldElemVal f e).getD default).h.zero

theorem bulkMapVals_ok_iff (key : Bytes) : ∀ (els : List GoVal) (acc vals : List String),
    bulkMapVals key els acc = .ok vals ↔
      (∀ e ∈ els, (mapElemVal key e).isSome = true) ∧ vals = acc ++ els.map (mapElemR key) := by
  intro els
  induction els with
  | nil =>
    intro acc vals
    simp only [bulkMapVals, Except.ok.injEq, List.not_mem_nil, false_imp_iff, implies_true, true_and,
      List.map_nil, List.append_nil]
    exact eq_comm
  | cons e rest ih =>
    intro acc vals
    simp only [bulkMapVals, List.forall_mem_cons, List.map_cons]
    cases hbe : bulkElem e with
    | error x => simp [mapElemVal, hbe]
    | ok s =>
      cases s with
      | map h kv =>
        cases kv with
        | none => simp [mapElemVal, hbe, mapIndex]
        | some l =>
          cases hmi : mapIndex (some l) key with
          | none => simp [mapElemVal, hbe, hmi]
          | some v =>
            simp only [hmi]
            rw [ih]
            have h1 : mapElemVal key e = some v := by simp [mapElemVal, hbe, hmi]
            simp [h1, mapElemR]
      | _ => simp [mapElemVal, hbe]

theorem bulkFieldVals_false_ok_iff (f : SField) : ∀ (els : List GoVal) (om : Bool) (acc vals : List String) (om' : Bool),
    bulkFieldVals f els false om acc = .ok (vals, om') ↔
      (∀ e ∈ els, (fieldElemVal f e).isSome = true ∧ (f.omitEmpty = true → fieldElemZero f e = om)) ∧
        om' = om ∧ vals = acc ++ els.map (fieldElemR f) := by
  intro els
  induction els with
  | nil =>
    intro om acc vals om'
    simp only [bulkFieldVals, Except.ok.injEq, Prod.mk.injEq, List.not_mem_nil, false_imp_iff, implies_true,
      true_and, List.map_nil, List.append_nil]
    constructor
    · rintro ⟨rfl, rfl⟩; exact ⟨rfl, rfl⟩
    · rintro ⟨rfl, rfl⟩; exact ⟨rfl, rfl⟩
  | cons e rest ih =>
    intro om acc vals om'
    simp only [bulkFieldVals, List.forall_mem_cons, List.map_cons]
    cases hbe : bulkElem e with
    | error x => simp [fieldElemVal, hbe]
    | ok s =>
      simp only []
      cases hfi : fieldByIndex s f.index true with
      | error x => simp [fieldElemVal, hbe, hfi]
      | ok v =>
        have h1 : fieldElemVal f e = some v := by simp [fieldElemVal, hbe, hfi]
        have hz : fieldElemZero f e = v.h.zero := by simp [fieldElemZero, h1]
        have hr : fieldElemR f e = v.h.r := by simp [fieldElemR, h1]
        simp only [Bool.false_and, Bool.false_eq_true, if_false, h1, Option.isSome_some, true_and, hz, hr]
        by_cases hoe : f.omitEmpty = true
        · simp only [hoe, if_true, true_imp_iff]
          by_cases hzo : v.h.zero = om
          · subst hzo
            simp only [bne_self_eq_false, Bool.false_eq_true, if_false, true_and]
            rw [ih]; simp [hoe]
          · have : (v.h.zero != om) = true := by simpa using hzo
            simp [this, hzo]
        · simp only [hoe, Bool.false_eq_true, if_false, false_imp_iff, true_and]
          rw [ih]; simp [hoe]

theorem bulkFieldVals_true_ok_iff (f : SField) (els : List GoVal) (acc vals : List String) (om' : Bool) :
    bulkFieldVals f els true false acc = .ok (vals, om') ↔
      (∀ e ∈ els, (fieldElemVal f e).isSome = true) ∧
      (f.omitEmpty = true → ∀ e ∈ els, fieldElemZero f e = fieldElemZero f (els.headD default)) ∧
        om' = (f.omitEmpty && (!els.isEmpty && fieldElemZero f (els.headD default))) ∧
        vals = acc ++ els.map (fieldElemR f) := by
  cases els with
  | nil =>
    simp only [bulkFieldVals, Except.ok.injEq, Prod.mk.injEq, List.not_mem_nil, false_imp_iff, implies_true,
      true_and, List.map_nil, List.append_nil, List.isEmpty_nil, Bool.not_true, Bool.false_and, Bool.and_false]
    constructor
    · rintro ⟨rfl, rfl⟩; exact ⟨rfl, rfl⟩
    · rintro ⟨rfl, rfl⟩; exact ⟨rfl, rfl⟩
  | cons e rest =>
    simp only [bulkFieldVals, List.forall_mem_cons, List.map_cons, List.headD_cons, List.isEmpty_cons,
      Bool.not_false, Bool.true_and]
    cases hbe : bulkElem e with
    | error x => simp [fieldElemVal, hbe]
    | ok s =>
      simp only []
      cases hfi : fieldByIndex s f.index true with
      | error x => simp [fieldElemVal, hbe, hfi]
      | ok v =>
        have h1 : fieldElemVal f e = some v := by simp [fieldElemVal, hbe, hfi]
        have hz : fieldElemZero f e = v.h.zero := by simp [fieldElemZero, h1]
        have hr : fieldElemR f e = v.h.r := by simp [fieldElemR, h1]
        simp only [h1, Option.isSome_some, true_and, hz, hr]
        by_cases hoe : f.omitEmpty = true
        · simp only [hoe, if_true, true_imp_iff, Bool.true_and]
          by_cases hzo : v.h.zero = true
          · simp only [hzo, if_true]
            rw [bulkFieldVals_false_ok_iff]
            simp only [hoe, true_imp_iff, List.append_assoc, List.singleton_append]
            constructor
            · rintro ⟨h, rfl, rfl⟩; exact ⟨fun e he => (h e he).1, fun e he => (h e he).2, rfl, rfl⟩
            · rintro ⟨h1, h2, rfl, rfl⟩; exact ⟨fun e he => ⟨h1 e he, h2 e he⟩, rfl, rfl⟩
          · have hzo' : v.h.zero = false := by simpa using hzo
            simp only [hzo', Bool.false_eq_true, if_false, bne_self_eq_false]
            rw [bulkFieldVals_false_ok_iff]
            simp only [hoe, true_imp_iff, List.append_assoc, List.singleton_append]
            constructor
            · rintro ⟨h, rfl, rfl⟩; exact ⟨fun e he => (h e he).1, fun e he => (h e he).2, rfl, rfl⟩
            · rintro ⟨h1, h2, rfl, rfl⟩; exact ⟨fun e he => ⟨h1 e he, h2 e he⟩, rfl, rfl⟩
        · have hoe' : f.omitEmpty = false := by simpa using hoe
          simp only [hoe', Bool.false_eq_true, if_false, false_imp_iff, true_and, Bool.false_and]
          rw [bulkFieldVals_false_ok_iff]
          simp only [hoe', Bool.false_eq_true, false_imp_iff, and_true, List.append_assoc,
            List.singleton_append]

/-! ### the relational semantics of locators -/

/-- `Located tt m l p`: against the validated arguments `m` (type id ↦ value), the locator `l`
    finds the parameters `p`.
    * a slice locator needs an argument of its (named slice) type, and yields its elements;
    * a map-key / field locator needs an argument of its type (passed as `T` or `*T`;
      `validateInputs` has dereferenced it) holding the key / a value at the field path;
    * or, when there is no such argument, a BULK argument (`[]T`, else `[]*T`) that is
      non-empty and all of whose elements hold the key / a value at the field path; for an
      omitempty field the rows must be all zero or all non-zero. -/
inductive Located (tt : TypeTable) (m : TypeToValue) : Loc → Params → Prop
  | slice {tid : Nat} {n : Bytes} {h : VH} {els : List GoVal}
      (hg : ttvGet m tid = some (.slice h els)) :
      Located tt m (.slice tid n) { vals := els.map (·.h.r), om := false, bulk := false, argType := tid }
  | mapKey {tid : Nat} {n key : Bytes} {h : VH} {kv : Option (List (Bytes × GoVal))} {v : GoVal}
      (hg : ttvGet m tid = some (.map h kv)) (hk : mapIndex kv key = some v) :
      Located tt m (.mapKey tid n key) { vals := [v.h.r], om := false, bulk := false, argType := tid }
  | mapKeyBulk {tid : Nat} {n key : Bytes} {h : VH} {els : List GoVal}
      (hg : ttvGet m tid = none) (hb : locateBulk tt m tid = some (.slice h els)) (hne : els ≠ [])
      (hall : ∀ e ∈ els, (mapElemVal key e).isSome = true) :
      Located tt m (.mapKey tid n key)
        { vals := els.map (mapElemR key), om := false, bulk := true, argType := h.t }
  | field {tid : Nat} {n : Bytes} {f : SField} {s v : GoVal}
      (hg : ttvGet m tid = some s) (hv : fieldByIndex s f.index true = .ok v) :
      Located tt m (.field tid n f)
        { vals := [v.h.r], om := v.h.zero && f.omitEmpty, bulk := false, argType := tid }
  | fieldBulk {tid : Nat} {n : Bytes} {f : SField} {h : VH} {els : List GoVal}
      (hg : ttvGet m tid = none) (hb : locateBulk tt m tid = some (.slice h els)) (hne : els ≠ [])
      (hall : ∀ e ∈ els, (fieldElemVal f e).isSome = true)
      (hom : f.omitEmpty = true → ∀ e ∈ els, fieldElemZero f e = fieldElemZero f (els.headD default)) :
      Located tt m (.field tid n f)
        { vals := els.map (fieldElemR f), om := f.omitEmpty && fieldElemZero f (els.headD default),
          bulk := true, argType := h.t }

theorem locateParams_ok_iff {tt : TypeTable} {m : TypeToValue} {l : Loc} {p : Params} :
    locateParams tt m l = .ok p ↔ Located tt m l p := by
  constructor
  · intro h
    cases l with
    | slice tid n =>
      simp only [locateParams] at h
      split at h
      · cases h; exact .slice (by assumption)
      · cases h
      · cases h
    | mapKey tid n key =>
      simp only [locateParams] at h
      split at h
      · rename_i hd kv hg
        split at h
        · cases h
        · rename_i v hk
          cases h; exact .mapKey hg hk
      · cases h
      · rename_i hg
        split at h
        · rename_i hd els hb
          split at h
          · cases h
          · rename_i hne
            split at h
            · cases h
            · rename_i vals hv
              cases h
              obtain ⟨h1, h2⟩ := (bulkMapVals_ok_iff key els [] vals).1 hv
              simp only [List.nil_append] at h2
              subst h2
              exact .mapKeyBulk hg hb (by simpa using hne) h1
        · cases h
        · cases h
    | field tid n f =>
      simp only [locateParams] at h
      split at h
      · rename_i s hg
        split at h
        · cases h
        · rename_i v hv
          cases h; exact .field hg hv
      · rename_i hg
        split at h
        · rename_i hd els hb
          split at h
          · cases h
          · rename_i hne
            split at h
            · cases h
            · rename_i vals om hv
              cases h
              have hne' : els ≠ [] := by simpa using hne
              obtain ⟨h1, h2, h3, h4⟩ := (bulkFieldVals_true_ok_iff f els [] vals om).1 hv
              simp only [List.nil_append] at h4
              subst h4
              have : els.isEmpty = false := by simpa using hne'
              simp only [this, Bool.not_false, Bool.true_and] at h3
              subst h3
              exact .fieldBulk hg hb hne' h1 h2
        · cases h
        · cases h
  · intro h
    cases h with
    | slice hg => simp [locateParams, hg]
    | mapKey hg hk => simp [locateParams, hg, hk]
    | @mapKeyBulk tid n key h els hg hb hne hall =>
      have hv := (bulkMapVals_ok_iff key els [] (els.map (mapElemR key))).2 ⟨hall, by simp⟩
      have : els.isEmpty = false := by simpa using hne
      simp [locateParams, hg, hb, this, hv]
    | field hg hv => simp [locateParams, hg, hv]
    | @fieldBulk tid n f h els hg hb hne hall hom =>
      have : els.isEmpty = false := by simpa using hne
      have hv := (bulkFieldVals_true_ok_iff f els [] (els.map (fieldElemR f))
        (f.omitEmpty && fieldElemZero f (els.headD default))).2 ⟨hall, hom, by simp [this], by simp⟩
      simp [locateParams, hg, hb, this, hv]

/-- `Located` is functional -/
theorem Located.unique {tt : TypeTable} {m : TypeToValue} {l : Loc} {p p' : Params}
    (h : Located tt m l p) (h' : Located tt m l p') : p = p' := by
  have h1 := locateParams_ok_iff.2 h
  have h2 := locateParams_ok_iff.2 h'
  rw [h1] at h2
  cases h2; rfl

end Sqlair
