/-
  Typed/NodeDefs: the declarative well-typedness of ONE parsed node (`NodeOK`) with respect to
  the table of sample infos and the set of output destinations already used (C07, part 2),
  and the simple projections it refers to (type names of a node, destination identifiers).
-/
import SqlairModel.Bind

namespace Sqlair

/-! ### projections -/

/-- the info of the sample named `T` (names are matched exactly, case-sensitively) -/
def lookupInfo (infos : List (Bytes × ArgInfo)) (T : Bytes) : Option ArgInfo :=
  (infos.find? (fun p => p.1 == T)).map (·.2)

/-- `m` is a member of the sample: a db tag of a struct; any key of a map; never of a slice -/
def ArgInfo.HasMember : ArgInfo → Bytes → Prop
  | .struct _ _ fields _, m => ∃ f ∈ fields, f.tag = m
  | .map _ _, _ => True
  | .slice _ _, _ => False

/-- the tags `T.*` expands to: the listed tags that name a field (for the infos produced by
    Prepare: all tags of the struct, sorted) -/
def ArgInfo.starTags : ArgInfo → List Bytes
  | .struct _ _ fields tags => tags.filter (fun t => fields.any (fun f => f.tag == t))
  | _ => []

/-- `T.m` is well-typed: `T` has a sample and `m` is a member of it -/
def MemberOK (infos : List (Bytes × ArgInfo)) (T m : Bytes) : Prop :=
  ∃ ai, lookupInfo infos T = some ai ∧ ai.HasMember m

/-- `T.*` (outside a columns insert) is well-typed: `T` has a struct sample with at least one tag -/
def StarOK (infos : List (Bytes × ArgInfo)) (T : Bytes) : Prop :=
  ∃ tid n fields tags, lookupInfo infos T = some (.struct tid n fields tags) ∧ tags ≠ []

/-- an accessor `T.*` or `T.m` is well-typed -/
def AccessorOK (infos : List (Bytes × ArgInfo)) (a : Acc) : Prop :=
  (a.member = star → StarOK infos a.ty) ∧ (a.member ≠ star → MemberOK infos a.ty a.member)

/-- the identifier of the destination `T.m` (`Identifier()` of the locator) -/
def memDests (infos : List (Bytes × ArgInfo)) (T m : Bytes) : List Bytes :=
  match lookupInfo infos T with
  | some ai => [ai.name ++ dot ++ m]
  | none => []

/-- the identifiers of the destinations of `T.*` -/
def starDests (infos : List (Bytes × ArgInfo)) (T : Bytes) : List Bytes :=
  match lookupInfo infos T with
  | some ai => ai.starTags.map (fun t => ai.name ++ dot ++ t)
  | none => []

/-- the identifiers of the destinations of an output accessor -/
def accDests (infos : List (Bytes × ArgInfo)) (a : Acc) : List Bytes :=
  if a.member = star then starDests infos a.ty else memDests infos a.ty a.member

/-- the accessors among the values of a basic insert -/
def OSeg.valAccs (s : OSeg) : List Acc :=
  s.vals.filterMap fun v => match v with | .acc a => some a | .lit _ => none

/-- the type names occurring in a node -/
def nodeTypes (s : OSeg) : List Bytes :=
  match s.kind with
  | .bypass => []
  | .basicInsert => s.valAccs.map (·.ty)
  | _ => s.types.map (·.ty)

/-- the output node has the form `(c1, …, cn) AS (&T.*)`: explicit (non-asterisk) columns into
    one asterisk type -/
def OSeg.IntoStar (s : OSeg) : Prop :=
  s.cols ≠ [] ∧ (∀ c ∈ s.cols, c.column ≠ star) ∧ s.types.length = 1 ∧ ∀ t ∈ s.types, t.member = star

instance (s : OSeg) : Decidable s.IntoStar := by unfold OSeg.IntoStar; infer_instance

/-- the identifiers of the destinations of the output columns of a node, in column order -/
def nodeDests (infos : List (Bytes × ArgInfo)) (s : OSeg) : List Bytes :=
  match s.kind with
  | .output =>
    if s.IntoStar then s.cols.flatMap (fun c => memDests infos (s.types.headD default).ty c.column)
    else s.types.flatMap (accDests infos)
  | _ => []

/-- the destinations `l` are pairwise distinct and none of them is in `used` -/
def Fresh (used l : List Bytes) : Prop := l.Nodup ∧ ∀ d ∈ l, d ∉ used

/-! ### columns insert: the provider rule -/

def isMapInfo : Option ArgInfo → Bool
  | some (.map _ _) => true
  | _ => false

/-- the sources `$M.*` of a columns insert whose sample is a map -/
def starMaps (infos : List (Bytes × ArgInfo)) (srcs : List Acc) : List Acc :=
  srcs.filter fun a => a.member == star && isMapInfo (lookupInfo infos a.ty)

/-- a source of a columns insert is well-typed: `$T.*` needs a map or a struct with at least
    one tag, `$T.m` a member -/
def SrcOK (infos : List (Bytes × ArgInfo)) (a : Acc) : Prop :=
  (a.member = star → isMapInfo (lookupInfo infos a.ty) = true ∨ StarOK infos a.ty) ∧
  (a.member ≠ star → MemberOK infos a.ty a.member)

/-- the tags `T.*` contributes as a provider -/
def starTagsOf (infos : List (Bytes × ArgInfo)) (T : Bytes) : List Bytes :=
  match lookupInfo infos T with
  | some ai => ai.starTags
  | none => []

/-- the provider rule of the code, for ONE column `k`, processing one source: an explicit
    `$T.k` ASSIGNS the provider list of `k`, a `$T.*` struct source APPENDS itself once per
    tag `k` it has (a map contributes nothing here) -/
def provStep (infos : List (Bytes × ArgInfo)) (k : Bytes) (acc : List Acc) (src : Acc) : List Acc :=
  if src.member = star then acc ++ ((starTagsOf infos src.ty).filter (· == k)).map (fun _ => src)
  else if src.member = k then [src] else acc

/-- the providers of column `k` after all sources, in source order (order matters) -/
def providers (infos : List (Bytes × ArgInfo)) (srcs : List Acc) (k : Bytes) : List Acc :=
  srcs.foldl (provStep infos k) []

/-! ### well-typedness of one node -/

/-- the three forms of an output node, with their count / asterisk rules -/
def OutputFormOK (infos : List (Bytes × ArgInfo)) (s : OSeg) : Prop :=
  -- generated columns: `&T.*`, `&T.m`, or `* AS (&T.*, &U.m, …)` / `t.* AS (…)`
  ((s.cols = [] ∨ ∃ c, s.cols = [c] ∧ c.column = star) ∧ ∀ t ∈ s.types, AccessorOK infos t) ∨
  -- explicit columns into one asterisk type: `(c1, …, cn) AS (&T.*)`
  (s.IntoStar ∧ ∀ c ∈ s.cols, MemberOK infos (s.types.headD default).ty c.column) ∨
  -- explicit columns and types pairwise: `(c1, …, cn) AS (&T1.m1, …, &Tn.mn)`
  (s.cols ≠ [] ∧ (∀ c ∈ s.cols, c.column ≠ star) ∧ (∀ t ∈ s.types, t.member ≠ star) ∧
    s.cols.length = s.types.length ∧ ∀ t ∈ s.types, MemberOK infos t.ty t.member)

/-- Declarative well-typedness of ONE node with respect to the sample infos and the output
    destinations used by the earlier nodes. -/
def NodeOK (infos : List (Bytes × ArgInfo)) (used : List Bytes) (s : OSeg) : Prop :=
  match s.kind with
  | .bypass => True
  | .member => ∃ a, s.types = [a] ∧ MemberOK infos a.ty a.member
  | .slice => ∃ a, s.types = [a] ∧ ∃ tid n, lookupInfo infos a.ty = some (.slice tid n)
  | .astInsert => ∀ a ∈ s.types, AccessorOK infos a
  | .colInsert =>
    (∀ a ∈ s.types, SrcOK infos a) ∧ (starMaps infos s.types).length ≤ 1 ∧
    ∀ c ∈ s.cols, (providers infos s.types c.str).length = 1 ∨
      (providers infos s.types c.str = [] ∧ starMaps infos s.types ≠ [])
  | .basicInsert =>
    s.cols.length = s.vals.length ∧ ∀ a ∈ s.valAccs, MemberOK infos a.ty a.member
  | .output => OutputFormOK infos s ∧ Fresh used (nodeDests infos s)

/-! ### how the builder state grows -/

/-- `st'` is `st` with the samples `tys` marked used and the destinations `ds` marked used -/
structure Grows (st st' : TEB) (tys ds : List Bytes) : Prop where
  infos : st'.argInfos = st.argInfos
  used : ∀ n, n ∈ st'.argUsed ↔ n ∈ st.argUsed ∨ n ∈ tys
  outs : ∀ d, d ∈ st'.outputUsed ↔ d ∈ st.outputUsed ∨ d ∈ ds

theorem Grows.refl (st : TEB) : Grows st st [] [] := ⟨rfl, by simp, by simp⟩

theorem Grows.trans {a b c : TEB} {t1 t2 d1 d2 : List Bytes} (h1 : Grows a b t1 d1)
    (h2 : Grows b c t2 d2) : Grows a c (t1 ++ t2) (d1 ++ d2) := by
  refine ⟨h2.infos.trans h1.infos, ?_, ?_⟩
  · intro n; rw [h2.used, h1.used, List.mem_append, or_assoc]
  · intro d; rw [h2.outs, h1.outs, List.mem_append, or_assoc]

theorem Grows.congr {a b : TEB} {t1 t2 d1 d2 : List Bytes} (h : Grows a b t1 d1)
    (ht : ∀ n, n ∈ t1 ↔ n ∈ t2) (hd : ∀ d, d ∈ d1 ↔ d ∈ d2) : Grows a b t2 d2 :=
  ⟨h.infos, fun n => by rw [h.used, ht], fun d => by rw [h.outs, hd]⟩

theorem Grows.add {a b : TEB} {t d : List Bytes} (h : Grows a b t d) (e : TExpr) : Grows a (b.add e) t d :=
  ⟨h.infos, h.used, h.outs⟩

theorem Fresh.nil (used : List Bytes) : Fresh used [] := ⟨List.nodup_nil, by simp⟩

theorem Fresh.congr {u u' l : List Bytes} (h : ∀ d, d ∈ u ↔ d ∈ u') : Fresh u l ↔ Fresh u' l := by
  unfold Fresh; simp only [h]

theorem Fresh.append {u u' l1 l2 : List Bytes} (h : ∀ d, d ∈ u' ↔ d ∈ u ∨ d ∈ l1) :
    Fresh u (l1 ++ l2) ↔ Fresh u l1 ∧ Fresh u' l2 := by
  unfold Fresh
  rw [List.nodup_append]
  simp only [List.mem_append, h, not_or]
  constructor
  · rintro ⟨⟨h1, h2, h3⟩, h4⟩
    exact ⟨⟨h1, fun d hd => h4 d (Or.inl hd)⟩, h2, fun d hd => ⟨h4 d (Or.inr hd), fun hd' => h3 d hd' d hd rfl⟩⟩
  · rintro ⟨⟨h1, h2⟩, h3, h4⟩
    refine ⟨⟨h1, h3, ?_⟩, ?_⟩
    · intro a ha b hb hab
      subst hab
      exact (h4 a hb).2 ha
    · intro d hd
      rcases hd with hd | hd
      · exact h2 d hd
      · exact (h4 d hd).1

theorem Fresh.singleton {u : List Bytes} {d : Bytes} : Fresh u [d] ↔ d ∉ u := by
  simp [Fresh]

end Sqlair
