/-
  The Go-faithful UTF-8 decoder `decodeRune` is local (`ExaDecLocal`): a rune that lies inside
  an extracted range decodes there as it does in the whole input.
-/
import SqlairProofs.Utf8
import SqlairProofs.Exact.Defs

namespace Sqlair

/-- two-byte class of `decodeRune`: `n` bytes remain, `s1` is the second byte -/
def exa_dec2 (n s0 s1 : Nat) : Nat × Nat :=
  if n < 2 then (0xFFFD, 1) else
  if s1 < 0x80 ∨ 0xBF < s1 then (0xFFFD, 1)
  else ((s0 % 0x20) * 64 + (s1 % 0x40), 2)

/-- three-byte class -/
def exa_dec3 (lo hi n s0 s1 s2 : Nat) : Nat × Nat :=
  if n < 3 then (0xFFFD, 1) else
  if s1 < lo ∨ hi < s1 then (0xFFFD, 1) else
  if s2 < 0x80 ∨ 0xBF < s2 then (0xFFFD, 1)
  else ((s0 % 0x10) * 4096 + (s1 % 0x40) * 64 + (s2 % 0x40), 3)

/-- four-byte class -/
def exa_dec4 (lo hi n s0 s1 s2 s3 : Nat) : Nat × Nat :=
  if n < 4 then (0xFFFD, 1) else
  if s1 < lo ∨ hi < s1 then (0xFFFD, 1) else
  if s2 < 0x80 ∨ 0xBF < s2 then (0xFFFD, 1) else
  if s3 < 0x80 ∨ 0xBF < s3 then (0xFFFD, 1)
  else ((s0 % 0x08) * 262144 + (s1 % 0x40) * 4096 + (s2 % 0x40) * 64 + (s3 % 0x40), 4)

/-- the decision tree of `decodeRune` on the number of remaining bytes and the four bytes read -/
def exa_decCore (n s0 s1 s2 s3 : Nat) : Nat × Nat :=
  if s0 < 0x80 then (s0, 1)
  else if s0 < 0xC2 then (0xFFFD, 1)
  else if s0 < 0xE0 then exa_dec2 n s0 s1
  else if s0 < 0xF0 then
    exa_dec3 (if s0 = 0xE0 then 0xA0 else 0x80) (if s0 = 0xED then 0x9F else 0xBF) n s0 s1 s2
  else if s0 < 0xF5 then
    exa_dec4 (if s0 = 0xF0 then 0x90 else 0x80) (if s0 = 0xF4 then 0x8F else 0xBF) n s0 s1 s2 s3
  else (0xFFFD, 1)

theorem exa_decodeRune_core (s : Bytes) (p : Nat) (hp : p < s.size) :
    decodeRune s p =
      exa_decCore (s.size - p) (bAt s p) (bAt s (p + 1)) (bAt s (p + 2)) (bAt s (p + 3)) := by
  unfold decodeRune exa_decCore exa_dec2 exa_dec3 exa_dec4
  rw [if_neg (by omega)]

theorem exa_dec2_local (m n s0 s1 t1 : Nat) (hmn : m ≤ n) (h1 : 2 ≤ m → t1 = s1)
    (hr : (exa_dec2 n s0 s1).2 ≤ m) : exa_dec2 m s0 t1 = exa_dec2 n s0 s1 := by
  by_cases hm : m < 2
  · generalize hd : exa_dec2 n s0 s1 = d at hr ⊢
    unfold exa_dec2 at hd ⊢
    rw [if_pos hm]
    repeat' split at hd
    all_goals subst hd
    all_goals first | rfl | (exfalso; simp only at hr; omega)
  · rw [h1 (by omega)]
    unfold exa_dec2
    rw [if_neg hm, if_neg (show ¬ n < 2 by omega)]

theorem exa_dec3_local (lo hi m n s0 s1 s2 t1 t2 : Nat) (hmn : m ≤ n) (h1 : 2 ≤ m → t1 = s1)
    (h2 : 3 ≤ m → t2 = s2)
    (hr : (exa_dec3 lo hi n s0 s1 s2).2 ≤ m) :
    exa_dec3 lo hi m s0 t1 t2 = exa_dec3 lo hi n s0 s1 s2 := by
  by_cases hm : m < 3
  · generalize hd : exa_dec3 lo hi n s0 s1 s2 = d at hr ⊢
    unfold exa_dec3 at hd ⊢
    rw [if_pos hm]
    repeat' split at hd
    all_goals subst hd
    all_goals first | rfl | (exfalso; simp only at hr; omega)
  · rw [h1 (by omega), h2 (by omega)]
    unfold exa_dec3
    rw [if_neg hm, if_neg (show ¬ n < 3 by omega)]

theorem exa_dec4_local (lo hi m n s0 s1 s2 s3 t1 t2 t3 : Nat) (hmn : m ≤ n) (h1 : 2 ≤ m → t1 = s1)
    (h2 : 3 ≤ m → t2 = s2) (h3 : 4 ≤ m → t3 = s3)
    (hr : (exa_dec4 lo hi n s0 s1 s2 s3).2 ≤ m) :
    exa_dec4 lo hi m s0 t1 t2 t3 = exa_dec4 lo hi n s0 s1 s2 s3 := by
  by_cases hm : m < 4
  · generalize hd : exa_dec4 lo hi n s0 s1 s2 s3 = d at hr ⊢
    unfold exa_dec4 at hd ⊢
    rw [if_pos hm]
    repeat' split at hd
    all_goals subst hd
    all_goals first | rfl | (exfalso; simp only at hr; omega)
  · rw [h1 (by omega), h2 (by omega), h3 (by omega)]
    unfold exa_dec4
    rw [if_neg hm, if_neg (show ¬ n < 4 by omega)]

/-- the decision tree is local: with fewer bytes available (`m ≤ n`), but all bytes of the
    decoded rune available and unchanged, the result is the same -/
theorem exa_decCore_local (m n s0 s1 s2 s3 t1 t2 t3 : Nat) (hmn : m ≤ n)
    (h1 : 2 ≤ m → t1 = s1) (h2 : 3 ≤ m → t2 = s2) (h3 : 4 ≤ m → t3 = s3)
    (hr : (exa_decCore n s0 s1 s2 s3).2 ≤ m) :
    exa_decCore m s0 t1 t2 t3 = exa_decCore n s0 s1 s2 s3 := by
  unfold exa_decCore at hr ⊢
  by_cases c1 : s0 < 0x80
  · simp only [if_pos c1]
  simp only [if_neg c1] at hr ⊢
  by_cases c2 : s0 < 0xC2
  · simp only [if_pos c2]
  simp only [if_neg c2] at hr ⊢
  by_cases c3 : s0 < 0xE0
  · simp only [if_pos c3] at hr ⊢
    exact exa_dec2_local m n s0 s1 t1 hmn h1 hr
  simp only [if_neg c3] at hr ⊢
  by_cases c4 : s0 < 0xF0
  · simp only [if_pos c4] at hr ⊢
    exact exa_dec3_local _ _ m n s0 s1 s2 t1 t2 hmn h1 h2 hr
  simp only [if_neg c4] at hr ⊢
  by_cases c5 : s0 < 0xF5
  · simp only [if_pos c5] at hr ⊢
    exact exa_dec4_local _ _ m n s0 s1 s2 s3 t1 t2 t3 hmn h1 h2 h3 hr
  simp only [if_neg c5]

/-- a rune that lies inside the range `[a, b)` decodes in the extracted text as it does in
    the whole text -/
theorem exa_decodeRune_extract (s : Bytes) (a b p : Nat) (hap : a ≤ p) (hpb : p < b)
    (hb : b ≤ s.size) (hfit : p + (decodeRune s p).2 ≤ b) :
    decodeRune (s.extract a b) (p - a) = decodeRune s p := by
  have hsz : (s.extract a b).size = b - a := by rw [Array.size_extract, Nat.min_eq_left hb]
  have hbyte : ∀ j, p + j < b → bAt (s.extract a b) (p - a + j) = bAt s (p + j) := by
    intro j hj
    rw [exa_bAt s a b (p - a + j) (by omega) hb]
    congr 1; omega
  have e0 := hbyte 0 (by omega)
  simp only [Nat.add_zero] at e0
  rw [exa_decodeRune_core s p (by omega)] at hfit ⊢
  rw [exa_decodeRune_core _ _ (by omega), hsz, e0]
  exact exa_decCore_local _ _ _ _ _ _ _ _ _ (by omega)
    (fun h => hbyte 1 (by omega)) (fun h => hbyte 2 (by omega)) (fun h => hbyte 3 (by omega))
    (by omega)

theorem decodeRune_ExaDecLocal (inp : Bytes) (letter digit : Nat → Bool) :
    ExaDecLocal { inp := inp, dec := decodeRune, letter := letter, digit := digit } where
  sub_ok := fun a b => decodeRune_DecOK (inp.extract a b) letter digit
  sub_dec := fun a b p hap hpb hb hfit => exa_decodeRune_extract inp a b p hap hpb hb hfit

end Sqlair
