/-
  Driver/Json: shared JSON helpers of the protocol.
-/
import Lean.Data.Json
import SqlairModel.Spec.L1

open Lean Sqlair

namespace Driver

def getStr (j : Json) (k : String) : Except String String := j.getObjValAs? String k
def getNat (j : Json) (k : String) : Except String Nat := j.getObjValAs? Nat k
def getBool (j : Json) (k : String) : Except String Bool := j.getObjValAs? Bool k
def getArr (j : Json) (k : String) : Except String (Array Json) := j.getObjValAs? (Array Json) k

def getHex (j : Json) (k : String) : Except String Bytes := do
  let s ← getStr j k
  match Bytes.ofHex s with
  | some b => pure b
  | none => throw s!"bad hex in {k}"

def optHex (j : Json) (k : String) : Except String Bytes :=
  match j.getObjVal? k with
  | .ok _ => getHex j k
  | .error _ => pure #[]

/-! ### classifier: ASCII built in, non-ASCII from the request -/
def asciiLetter (c : Nat) : Bool := (65 ≤ c && c ≤ 90) || (97 ≤ c && c ≤ 122)
def asciiDigit (c : Nat) : Bool := 48 ≤ c && c ≤ 57

def mkEnv (q : Bytes) (cls : Array (Nat × Nat)) : Env :=
  { inp := q
    dec := decodeRune
    letter := fun c => if c < 128 then asciiLetter c else cls.any (fun (r, k) => r == c && k == 1)
    digit := fun c => if c < 128 then asciiDigit c else cls.any (fun (r, k) => r == c && k == 2) }

def parseCls (j : Json) : Except String (Array (Nat × Nat)) := do
  match j.getObjVal? "cls" with
  | .error _ => pure #[]
  | .ok (.arr a) =>
    a.mapM fun e => do
      match e with
      | .arr #[r, k] => pure ((← r.getNat?), (← k.getNat?))
      | _ => throw "bad cls entry"
  | .ok _ => throw "bad cls"

/-! ### segments -/
def kindOfStr : String → Except String SegKind
  | "bypass" => pure .bypass | "output" => pure .output | "member" => pure .member
  | "slice" => pure .slice | "astinsert" => pure .astInsert | "colinsert" => pure .colInsert
  | "basicinsert" => pure .basicInsert | s => throw s!"bad kind {s}"

def strOfKind : SegKind → String
  | .bypass => "bypass" | .output => "output" | .member => "member" | .slice => "slice"
  | .astInsert => "astinsert" | .colInsert => "colinsert" | .basicInsert => "basicinsert"

def parseCol (j : Json) : Except String Col := do
  pure { table := ← optHex j "t", column := ← optHex j "c", func := (getBool j "f").toOption.getD false }

def parseAcc (j : Json) : Except String Acc := do
  pure { ty := ← optHex j "t", member := ← optHex j "m" }

def parseVal (j : Json) : Except String Val := do
  match j.getObjVal? "lit" with
  | .ok _ => pure (.lit (← getHex j "lit"))
  | .error _ => pure (.acc (← parseAcc j))

def optList (j : Json) (k : String) : Array Json :=
  match j.getObjVal? k with
  | .ok (.arr a) => a
  | _ => #[]

def parseOSeg (j : Json) : Except String OSeg := do
  let kind ← kindOfStr (← getStr j "k")
  let raw ← getHex j "raw"
  let cols ← (optList j "cols").toList.mapM parseCol
  let types ← (optList j "types").toList.mapM parseAcc
  let vals ← (optList j "vals").toList.mapM parseVal
  pure { kind, raw, cols, types, vals }

def optNat (j : Json) (k : String) : Option Nat :=
  match j.getObjVal? k with
  | .ok v => v.getNat?.toOption
  | .error _ => none

def parseObs (j : Json) : Except String ParseObs := do
  if ← getBool j "ok" then
    let segs ← (← getArr j "segs").toList.mapM parseOSeg
    pure (.ok segs)
  else
    pure (.err (optNat j "line") (optNat j "col") (← optHex j "msg"))

def colJson (c : Col) : Json :=
  Json.mkObj [("t", c.table.toHex), ("c", c.column.toHex), ("f", c.func)]
def accJson (a : Acc) : Json := Json.mkObj [("t", a.ty.toHex), ("m", a.member.toHex)]
def valJson : Val → Json
  | .lit t => Json.mkObj [("lit", t.toHex)]
  | .acc a => accJson a

def osegJson (s : OSeg) : Json :=
  Json.mkObj [("k", strOfKind s.kind), ("raw", s.raw.toHex),
    ("cols", Json.arr (s.cols.map colJson).toArray),
    ("types", Json.arr (s.types.map accJson).toArray),
    ("vals", Json.arr (s.vals.map valJson).toArray)]

def obsJson : ParseObs → Json
  | .ok segs => Json.mkObj [("ok", true), ("segs", Json.arr (segs.map osegJson).toArray)]
  | .err line col msg =>
    Json.mkObj ([("ok", Json.bool false), ("msg", Json.str msg.toHex)] ++
      (match line with | some l => [("line", Json.num l)] | none => []) ++
      (match col with | some c => [("col", Json.num c)] | none => []))

end Driver
