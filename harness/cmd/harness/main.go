// Command harness runs the real sqlair code and the Lean model on the same cases.
package main

import (
	"fmt"
	"os"
)

func main() {
	if len(os.Args) < 2 {
		fmt.Fprintln(os.Stderr, "usage: harness <l1|l2|l3|l4|l5|sqlite|zoo> [flags]")
		os.Exit(3)
	}
	switch os.Args[1] {
	case "l1":
		runL1(os.Args[2:])
	case "l2":
		runL2(os.Args[2:])
	case "l3":
		runL3(os.Args[2:])
	case "l4":
		runL4(os.Args[2:])
	case "l5":
		runL5(os.Args[2:])
	case "zoo":
		runZoo(os.Args[2:])
	case "sqlite":
		runSQLite(os.Args[2:])
	default:
		fmt.Fprintln(os.Stderr, "unknown layer", os.Args[1])
		os.Exit(3)
	}
}
