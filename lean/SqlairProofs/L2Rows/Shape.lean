/-
  L2Rows/Shape: a statement whose only expression is an insert: the typed expressions are
  bypass chunks around one `.insert`, the parameters of the query are the parameters of that
  insert, and the typed columns of `(cols) VALUES ($T.*)` / `(*) VALUES ($T.*)` over a struct
  sample are `fieldColsE` of a selection of the fields of `T`.
-/
import SqlairProofs.L2Rows.Assemble

namespace Sqlair

def AllBypass (es : List TExpr) : Prop := ∀ e ∈ es, ∃ c, e = TExpr.bypass c

theorem AllBypass.nil : AllBypass [] := fun _ he => nomatch he

theorem bindSeg_bypass_ok {st : TEB} {x : OSeg} (hx : x.kind = .bypass) :
    bindSeg st x = .ok (st.add (.bypass x.raw)) := by
  unfold bindSeg
  rw [hx]

theorem bindSegs_bypass : ∀ (segs : List OSeg) (st st' : TEB), (∀ x ∈ segs, x.kind = .bypass) →
    bindSegs st segs = .ok st' → ∃ new, st'.exprs = st.exprs ++ new ∧ AllBypass new := by
  intro segs
  induction segs with
  | nil => intro st st' _ h; simp only [bindSegs] at h; cases h; exact ⟨[], by simp, by intro e he; cases he⟩
  | cons x rest ih =>
    intro st st' hall h
    simp only [bindSegs, bindSeg_bypass_ok (hall x List.mem_cons_self)] at h
    obtain ⟨new, h1, h2⟩ := ih _ _ (fun y hy => hall y (List.mem_cons_of_mem _ hy)) h
    refine ⟨.bypass x.raw :: new, by rw [h1]; simp [TEB.add], ?_⟩
    intro e he
    rcases List.mem_cons.1 he with rfl | he
    · exact ⟨_, rfl⟩
    · exact h2 e he

/-- the node loop over a statement with exactly one expression `s` -/
theorem bindSegs_single : ∀ (segs : List OSeg) (s : OSeg) (st st' : TEB),
    segs.filter (·.kind != .bypass) = [s] → bindSegs st segs = .ok st' →
    ∃ pre post st1 st2, AllBypass pre ∧ AllBypass post ∧ st1.argInfos = st.argInfos ∧
      st1.exprs = st.exprs ++ pre ∧ bindSeg st1 s = .ok st2 ∧ st'.exprs = st2.exprs ++ post := by
  intro segs
  induction segs with
  | nil => intro s st st' hf; simp at hf
  | cons x rest ih =>
    intro s st st' hf h
    by_cases hx : x.kind = .bypass
    · have hf' : rest.filter (·.kind != .bypass) = [s] := by
        rw [List.filter_cons] at hf
        simpa [hx] using hf
      simp only [bindSegs, bindSeg_bypass_ok hx] at h
      obtain ⟨pre, post, st1, st2, h1, h2, h3, h4, h5, h6⟩ := ih s _ st' hf' h
      refine ⟨.bypass x.raw :: pre, post, st1, st2, ?_, h2, h3, by rw [h4]; simp [TEB.add], h5, h6⟩
      intro e he
      rcases List.mem_cons.1 he with rfl | he
      · exact ⟨_, rfl⟩
      · exact h1 e he
    · have hx' : (x.kind != .bypass) = true := by simpa using hx
      rw [List.filter_cons, if_pos hx'] at hf
      simp only [List.cons.injEq] at hf
      obtain ⟨rfl, hrest⟩ := hf
      simp only [bindSegs] at h
      split at h
      · cases h
      · rename_i st2 hs
        have hall : ∀ y ∈ rest, y.kind = .bypass := by
          intro y hy
          have := List.filter_eq_nil_iff.1 hrest y hy
          simpa using this
        obtain ⟨post, h1, h2⟩ := bindSegs_bypass _ _ _ hall h
        exact ⟨[], post, st, st2, AllBypass.nil, h2, rfl, (List.append_nil _).symm, hs, h1⟩

theorem foldlM_bypass_params {tt : TypeTable} {m : TypeToValue} : ∀ (es : List TExpr) (qb qb' : QB),
    AllBypass es → es.foldlM (addToQuery tt m) qb = .ok qb' → qb'.params = qb.params := by
  intro es
  induction es with
  | nil => intro qb qb' _ h; cases h; rfl
  | cons e rest ih =>
    intro qb qb' hall h
    obtain ⟨c, rfl⟩ := hall e List.mem_cons_self
    rw [foldlM_except_cons] at h
    simp only [addToQuery] at h
    have := ih _ qb' (fun y hy => hall y (List.mem_cons_of_mem _ hy)) h
    exact this

/-- the parameters of a query whose typed expressions are bypass chunks around one insert -/
theorem bindInputs_single_insert {tt : TypeTable} {pre post : List TExpr} {cols : List TCol} {args : List GoVal}
    {pq : Primed} (hpre : AllBypass pre) (hpost : AllBypass post)
    (h : bindInputs tt (pre ++ .insert cols :: post) args = .ok pq) :
    ∃ m q1 q2, validateInputs tt args [] = .ok m ∧ addToQuery tt m q1 (.insert cols) = .ok q2 ∧
      q1.params = [] ∧ pq.params = q2.params := by
  obtain ⟨m, qb, hm, hq, _, rfl⟩ := bindInputs_ok_unfold h
  obtain ⟨q1, q2, h1, h2, h3⟩ := foldlM_except_split _ _ _ _ _ _ hq
  exact ⟨m, q1, q2, hm, h2, foldlM_bypass_params _ _ _ hpre h1, foldlM_bypass_params _ _ _ hpost h3⟩

/-! ### the typed columns of `(cols) VALUES ($T.*)` over a struct sample -/

/-- every provider is a field of `T`, filed under its tag -/
def ProvFields (tid : Nat) (n : Bytes) (fields : List SField) (prov : List (Bytes × List Loc)) : Prop :=
  ∀ p ∈ prov, ∀ l ∈ p.2, ∃ f ∈ fields, l = Loc.field tid n f ∧ f.tag = p.1

theorem ProvFields.append {tid : Nat} {n : Bytes} {fields : List SField} {prov : List (Bytes × List Loc)}
    (h : ProvFields tid n fields prov) {f : SField} (hf : f ∈ fields) :
    ProvFields tid n fields (provAppend prov f.tag (.field tid n f)) := by
  unfold provAppend
  split
  · intro p hp l hl
    obtain ⟨q, hq, rfl⟩ := List.mem_map.1 hp
    by_cases hk : (q.1 == f.tag) = true
    · simp only [hk, if_true] at hl ⊢
      rcases List.mem_append.1 hl with hl | hl
      · obtain ⟨f', hf', e1, e2⟩ := h q hq l hl
        exact ⟨f', hf', e1, by rw [e2]; simpa using hk⟩
      · simp only [List.mem_singleton] at hl
        exact ⟨f, hf, hl, rfl⟩
    · simp only [hk] at hl ⊢
      exact h q hq l hl
  · intro p hp l hl
    rcases List.mem_append.1 hp with hp | hp
    · exact h p hp l hl
    · simp only [List.mem_singleton] at hp
      subst hp
      simp only [List.mem_singleton] at hl
      exact ⟨f, hf, hl, rfl⟩

theorem ProvFields.foldl {tid : Nat} {n : Bytes} {fields : List SField} : ∀ (sel : List SField)
    (prov : List (Bytes × List Loc)), ProvFields tid n fields prov → (∀ f ∈ sel, f ∈ fields) →
    ProvFields tid n fields
      ((sel.map fun f => (Loc.field tid n f, f.tag)).foldl (fun pr (l, tag) => provAppend pr tag l) prov) := by
  intro sel
  induction sel with
  | nil => intro prov h _; exact h
  | cons f rest ih =>
    intro prov h hs
    rw [List.map_cons, List.foldl_cons]
    exact ih _ (h.append (hs f List.mem_cons_self)) (fun g hg => hs g (List.mem_cons_of_mem _ hg))

theorem colInsertCols_fields {tid : Nat} {n : Bytes} {fields : List SField} {prov : List (Bytes × List Loc)}
    (hprov : ProvFields tid n fields prov) : ∀ (cs : List Col) (st st' : TEB) (acc cols : List TCol),
    colInsertCols prov none st cs acc = .ok (cols, st') →
    ∃ sel, cols = acc ++ fieldColsE tid n true sel ∧ sel.map (·.tag) = cs.map (·.str) ∧
      (∀ f ∈ sel, f ∈ fields) ∧ st' = st := by
  intro cs
  induction cs with
  | nil =>
    intro st st' acc cols h
    simp only [colInsertCols] at h
    cases h
    exact ⟨[], by simp [fieldColsE], rfl, by simp, rfl⟩
  | cons c rest ih =>
    intro st st' acc cols h
    unfold colInsertCols at h
    simp only at h
    split at h
    · rename_i k l hfind
      obtain ⟨sel, h1, h2, h3, h4⟩ := ih _ _ _ _ h
      have hmem := List.mem_of_find?_eq_some hfind
      have hkey : k = c.str := by simpa using List.find?_some hfind
      obtain ⟨f, hf, e1, e2⟩ := hprov _ hmem l (by simp)
      simp only at e2
      refine ⟨f :: sel, ?_, by simp [h2, e2, hkey], ?_, h4⟩
      · rw [h1, e1]
        simp [fieldColsE, e2, hkey]
      · intro g hg
        rcases List.mem_cons.1 hg with rfl | hg
        · exact hf
        · exact h3 g hg
    · cases h
    · rename_i heq; cases heq
    · cases h

theorem getArg_find' {st st' : TEB} {ty : Bytes} {a : ArgInfo} (h : getArg st ty = .ok (a, st')) :
    (∃ k, st.argInfos.find? (fun p => p.1 == ty) = some (k, a)) ∧ st'.argInfos = st.argInfos ∧
      st'.exprs = st.exprs :=
  ⟨getArg_find h, (getArg_ok h).2.1, (getArg_ok h).1⟩

/-- the typed expression of `(cols) VALUES ($T.*)`: the sample named `T` is a map, or it is
    a struct and the columns are fields of it, one per written column, found by tag -/
theorem bindSeg_colInsert_shape {st st' : TEB} {s : OSeg} {a : Acc} (h : bindSeg st s = .ok st')
    (hk : s.kind = .colInsert) (ht : s.types = [a]) (hm : a.member = star) :
    ∃ k ai, st.argInfos.find? (fun p => p.1 == a.ty) = some (k, ai) ∧
      ((∃ tid n, ai = .map tid n) ∨
       (∃ tid n fields tags sel, ai = .struct tid n fields tags ∧
          st'.exprs = st.exprs ++ [.insert (fieldColsE tid n true sel)] ∧
          sel.map (·.tag) = s.cols.map (·.str) ∧ ∀ f ∈ sel, f ∈ fields)) := by
  unfold bindSeg at h
  rw [hk, ht] at h
  simp only [colInsertProviders, hm, beq_self_eq_true, if_true] at h
  cases hg : getArg st a.ty with
  | error x => simp [hg] at h
  | ok r =>
    obtain ⟨ai, st1⟩ := r
    obtain ⟨⟨k, hfind⟩, hinf1, hex1⟩ := getArg_find' hg
    refine ⟨k, ai, hfind, ?_⟩
    cases ai with
    | map tid n => exact .inl ⟨tid, n, rfl⟩
    | slice tid n =>
      simp only [hg] at h
      unfold allStructInputs at h
      cases hg2 : getArg st1 a.ty with
      | error x => simp [hg2] at h
      | ok r2 =>
        obtain ⟨ai2, st2⟩ := r2
        obtain ⟨⟨k2, hfind2⟩, _, _⟩ := getArg_find' hg2
        rw [hinf1, hfind] at hfind2
        cases hfind2
        simp [hg2, ArgInfo.getAll] at h
    | struct tid n fields tags =>
      right
      simp only [hg] at h
      unfold allStructInputs at h
      cases hg2 : getArg st1 a.ty with
      | error x => simp [hg2] at h
      | ok r2 =>
        obtain ⟨ai2, st2⟩ := r2
        obtain ⟨⟨k2, hfind2⟩, _, hex2⟩ := getArg_find' hg2
        rw [hinf1, hfind] at hfind2
        cases hfind2
        simp only [hg2] at h
        cases ha : (ArgInfo.struct tid n fields tags).getAll with
        | error x => simp [ha] at h
        | ok ms =>
          obtain ⟨tid', n', fields', tags', e0, rfl⟩ := getAll_eq ha
          cases e0
          simp only [ha] at h
          have hprov : ProvFields tid n fields
              (((starFieldsOf fields tags).map fun f => (Loc.field tid n f, f.tag)).foldl
                (fun pr (l, tag) => provAppend pr tag l) []) := by
            apply ProvFields.foldl _ _ (by intro p hp; cases hp)
            intro f hf
            unfold starFieldsOf at hf
            obtain ⟨t, _, hft⟩ := List.mem_filterMap.1 hf
            exact List.mem_of_find?_eq_some hft
          split at h
          · cases h
          · rename_i cols st3 hc
            cases h
            obtain ⟨sel, h1, h2, h3, h4⟩ := colInsertCols_fields hprov _ _ _ _ _ hc
            subst h4
            refine ⟨tid, n, fields, tags, sel, rfl, ?_, h2, h3⟩
            show st3.exprs ++ _ = _
            rw [hex2, hex1, h1]
            simp

end Sqlair
