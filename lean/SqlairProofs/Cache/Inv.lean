/-
  The invariant of the cache transition system, bundled per group of state components.
-/
import SqlairProofs.Cache.AList

namespace Sqlair.Cache

/-! ### driver-statement table -/

def dsGet (ds : List DStmt) (id : Nat) : Option DStmt := ds.find? (·.id == id)

def dsUpd (ds : List DStmt) (id : Nat) (f : DStmt → DStmt) : List DStmt :=
  ds.map fun x => if x.id == id then f x else x

theorem getDS_eq (st : St) (id : Nat) : st.getDS id = dsGet st.ds id := rfl
theorem updDS_eq (st : St) (id : Nat) (f : DStmt → DStmt) :
    st.updDS id f = { st with ds := dsUpd st.ds id f } := rfl
theorem getOp_eq (st : St) (t : Nat) : st.getOp t = alook st.ops t := rfl
theorem setOp_eq (st : St) (t : Nat) (o : Op) : st.setOp t o = { st with ops := ainsert st.ops t o } := rfl

theorem dsGet_cons (x : DStmt) (ds : List DStmt) (id : Nat) :
    dsGet (x :: ds) id = if x.id = id then some x else dsGet ds id := by
  unfold dsGet
  by_cases h : x.id = id <;> simp [h]

theorem dsGet_some {ds : List DStmt} {id : Nat} {x : DStmt} (h : dsGet ds id = some x) :
    x.id = id ∧ x ∈ ds := by
  unfold dsGet at h
  have := List.find?_some h
  exact ⟨by simpa using this, List.mem_of_find?_eq_some h⟩

theorem dsGet_upd {ds : List DStmt} {id : Nat} {f : DStmt → DStmt} (hf : ∀ x, (f x).id = x.id) (id' : Nat) :
    dsGet (dsUpd ds id f) id' = if id' = id then (dsGet ds id).map f else dsGet ds id' := by
  induction ds with
  | nil => simp [dsGet, dsUpd]
  | cons x ds ih =>
    have e : dsUpd (x :: ds) id f = (if x.id == id then f x else x) :: dsUpd ds id f := rfl
    rw [e, dsGet_cons, dsGet_cons, dsGet_cons, ih]
    by_cases h1 : x.id = id <;> by_cases h2 : x.id = id' <;> by_cases h3 : id' = id <;>
      simp_all

theorem dsGet_append (ds : List DStmt) (x : DStmt) (id : Nat) :
    dsGet (ds ++ [x]) id = (dsGet ds id).or (if x.id = id then some x else none) := by
  unfold dsGet
  rw [List.find?_append]
  congr 1
  by_cases h : x.id = id <;> simp [h]

theorem ids_upd {ds : List DStmt} {id : Nat} {f : DStmt → DStmt} (hf : ∀ x, (f x).id = x.id) :
    (dsUpd ds id f).map (·.id) = ds.map (·.id) := by
  unfold dsUpd
  rw [List.map_map]
  apply List.map_congr_left
  intro x _
  simp only [Function.comp]
  split <;> simp [hf]

theorem length_upd (ds : List DStmt) (id : Nat) (f : DStmt → DStmt) : (dsUpd ds id f).length = ds.length := by
  simp [dsUpd]

/-- ids are exactly `1..length`, in order -/
def IdsOK (ds : List DStmt) : Prop := ds.map (·.id) = List.range' 1 ds.length

theorem IdsOK.get_of_mem {ds : List DStmt} (h : IdsOK ds) {x : DStmt} (hx : x ∈ ds) : dsGet ds x.id = some x := by
  unfold IdsOK at h
  have hn : (ds.map (·.id)).Nodup := by rw [h]; exact List.nodup_range'
  clear h
  induction ds with
  | nil => simp at hx
  | cons y ds ih =>
    simp only [List.map_cons, List.nodup_cons] at hn
    unfold dsGet
    rw [List.find?_cons]
    rcases List.mem_cons.1 hx with rfl | hx
    · simp
    · have : y.id ≠ x.id := by
        intro e; apply hn.1; rw [e]; exact List.mem_map.2 ⟨x, hx, rfl⟩
      have hb : (y.id == x.id) = false := by simp [this]
      rw [hb]
      exact ih hx hn.2

theorem IdsOK.bound {ds : List DStmt} (h : IdsOK ds) {id : Nat} {x : DStmt} (hx : dsGet ds id = some x) :
    1 ≤ id ∧ id ≤ ds.length := by
  obtain ⟨rfl, hm⟩ := dsGet_some hx
  have : x.id ∈ ds.map (·.id) := List.mem_map.2 ⟨x, hm, rfl⟩
  rw [h, List.mem_range'] at this
  omega

theorem IdsOK.fresh {ds : List DStmt} (h : IdsOK ds) : dsGet ds (ds.length + 1) = none := by
  cases hx : dsGet ds (ds.length + 1) with
  | none => rfl
  | some x => have := h.bound hx; omega

theorem IdsOK.upd {ds : List DStmt} (h : IdsOK ds) {id : Nat} {f : DStmt → DStmt} (hf : ∀ x, (f x).id = x.id) :
    IdsOK (dsUpd ds id f) := by
  unfold IdsOK; rw [ids_upd hf, length_upd]; exact h

theorem IdsOK.append {ds : List DStmt} (h : IdsOK ds) {x : DStmt} (hx : x.id = ds.length + 1) :
    IdsOK (ds ++ [x]) := by
  unfold IdsOK at *
  rw [List.map_append, h, List.length_append, List.length_singleton, List.range'_concat]
  simp [hx]; omega

/-! ### the invariant, per group of components -/

structure DsOK (ds : List DStmt) : Prop where
  ids : IdsOK ds
  /-- an evicted statement awaiting its finalizer has not been closed -/
  fin_open : ∀ id x, dsGet ds id = some x → x.finalizer = true → x.closeCalled = false
  calls : ∀ id x, dsGet ds id = some x → x.closeCalls = if x.closeCalled then 1 else 0
  dclosed : ∀ id x, dsGet ds id = some x → x.driverClosed = true → x.closeCalled = true

structure MapsOK (sm : List (Nat × List (Nat × Nat))) (dm : List (Nat × List Nat)) (nS nD : Nat) : Prop where
  sKeys_lt : ∀ p ∈ sm, p.1 < nS
  dKeys_lt : ∀ p ∈ dm, p.1 < nD
  sKeys_nodup : (sm.map (·.1)).Nodup
  dKeys_nodup : (dm.map (·.1)).Nodup
  row_nodup : ∀ p ∈ sm, (p.2.map (·.1)).Nodup
  idx_nodup : ∀ p ∈ dm, p.2.Nodup
  /-- C11: the index `dbStmt` and the cache `stmtDB` agree -/
  index : ∀ s d, s ∈ getIdx dm d ↔ lookup2 sm s d ≠ none

structure CacheOK (sm : List (Nat × List (Nat × Nat))) (ds : List DStmt) : Prop where
  ok : ∀ s d id, lookup2 sm s d = some id →
    ∃ x, dsGet ds id = some x ∧ x.db = d ∧ x.closeCalled = false ∧ x.finalizer = false
  inj : ∀ s d s' d' id, lookup2 sm s d = some id → lookup2 sm s' d' = some id → s = s' ∧ d = d'

structure LiveOK (liveS liveD : List Nat) (sm : List (Nat × List (Nat × Nat))) (dm : List (Nat × List Nat)) : Prop where
  liveS : ∀ s ∈ liveS, (alook sm s).isSome
  liveD : ∀ d ∈ liveD, (alook dm d).isSome

structure OpsOK (ops : List (Nat × Op)) (sm : List (Nat × List (Nat × Nat))) (dm : List (Nat × List Nat))
    (ds : List DStmt) : Prop where
  nodup : (ops.map (·.1)).Nodup
  keys : ∀ t o, (t, o) ∈ ops → o.pc ≠ .done → (alook sm o.s).isSome ∧ (alook dm o.d).isSome
  prepared : ∀ t o id, (t, o) ∈ ops → o.pc = .prepared id →
    ∃ x, dsGet ds id = some x ∧ x.db = o.d ∧ x.sql = o.sql ∧ x.closeCalled = false ∧ x.finalizer = false ∧
      (∀ s d, lookup2 sm s d ≠ some id) ∧
      (∀ t' o', (t', o') ∈ ops → (o'.pc = .prepared id ∨ o'.pc = .ready id) → t' = t)
  ready : ∀ t o id, (t, o) ∈ ops → o.pc = .ready id →
    ∃ x, dsGet ds id = some x ∧ x.db = o.d ∧ x.sql = o.sql ∧ x.closeCalled = false ∧
      (∀ s d, lookup2 sm s d = some id → s = o.s ∧ d = o.d)

structure ItersOK (iters : List (Nat × Nat)) (ds : List DStmt) : Prop where
  nodup : (iters.map (·.1)).Nodup
  /-- C10: the driver-level close waits for the rows -/
  isOpen : ∀ h id, (h, id) ∈ iters → ∃ x, dsGet ds id = some x ∧ x.driverClosed = false
  waiting : ∀ id x, dsGet ds id = some x → x.closeCalled = true → x.driverClosed = false → ∃ h, (h, id) ∈ iters

/-- every driver statement is cached, or evicted and awaiting its finalizer, or held by the
    operation that just prepared it, or has been closed -/
def NoLeak (ds : List DStmt) (sm : List (Nat × List (Nat × Nat))) (ops : List (Nat × Op)) : Prop :=
  ∀ id x, dsGet ds id = some x →
    x.closeCalled = true ∨ x.finalizer = true ∨ (∃ s d, lookup2 sm s d = some id) ∨
      (∃ t o, (t, o) ∈ ops ∧ o.pc = .prepared id)

structure LogOK (log : List Ev) (ds : List DStmt) : Prop where
  prep : ∀ id x, dsGet ds id = some x → Ev.prepare id x.db x.sql ∈ log
  exec : ∀ (i id d q : Nat), log[i]? = some (Ev.exec id d q) → ∃ j : Nat, j < i ∧ log[j]? = some (Ev.prepare id d q)
  noEC : ∀ id, Ev.execClosed id ∉ log
  close : ∀ id, Ev.close id ∈ log → ∃ x, dsGet ds id = some x ∧ x.driverClosed = true
  close1 : ∀ id, log.count (Ev.close id) ≤ 1
  logged : ∀ id x, dsGet ds id = some x → x.driverClosed = true → Ev.close id ∈ log

structure Inv (st : St) : Prop where
  dsOK : DsOK st.ds
  maps : MapsOK st.stmtDB st.dbStmt st.nextS st.nextD
  cache : CacheOK st.stmtDB st.ds
  live : LiveOK st.liveS st.liveD st.stmtDB st.dbStmt
  ops : OpsOK st.ops st.stmtDB st.dbStmt st.ds
  iters : ItersOK st.iters st.ds
  noLeak : NoLeak st.ds st.stmtDB st.ops
  log : LogOK st.log st.ds

theorem inv_init : Inv ({} : St) := by
  refine ⟨⟨?_, ?_, ?_, ?_⟩, ⟨?_, ?_, ?_, ?_, ?_, ?_, ?_⟩, ⟨?_, ?_⟩, ⟨?_, ?_⟩, ⟨?_, ?_, ?_, ?_⟩, ⟨?_, ?_, ?_⟩, ?_, ⟨?_, ?_, ?_, ?_, ?_, ?_⟩⟩ <;>
    simp [IdsOK, dsGet, getIdx, lookup2, NoLeak]

end Sqlair.Cache
