/-
  Property C02, scanner primitives: the bridge between the parser's skippers and the
  reference lexer (`skipStringLiteral_eq_lexer`, `skipComment_eq_lexer`), and the fact that
  every scanner primitive maps a state at a code offset of the lexer to a state at a code
  offset (`LC`).
-/
import SqlairProofs.Parser.LexDefs
import SqlairProofs.Parser.Scan

namespace Sqlair

section
variable {E : Env}

/-! ### states at code offsets -/

/-- a consistent scanner state positioned at a code offset of the reference lexer -/
structure LC (E : Env) (s : Sc) : Prop where
  good : Good E s
  code : LexCode E s.pos

theorem LC.of_eq {α : Type} {r : Sc × α} {s1 : Sc} {x : α} (hl : LC E r.1) (heq : r = (s1, x)) :
    LC E s1 := by
  subst heq; exact hl

/-- a line comment opens at `p` -/
def LineOpen (E : Env) (p : Nat) : Prop := rn E p = 45 ∧ p + sz E p < E.len ∧ rn E (p + sz E p) = 45

/-- a block comment opens at `p` -/
def BlockOpen (E : Env) (p : Nat) : Prop := rn E p = 47 ∧ p + sz E p < E.len ∧ rn E (p + sz E p) = 42

/-- the rune at `p` opens neither a literal nor a comment -/
structure PlainAt (E : Env) (p : Nat) : Prop where
  dquote : rn E p ≠ 34
  squote : rn E p ≠ 39
  line : ¬ LineOpen E p
  block : ¬ BlockOpen E p

theorem LexCode.plain (h : DecOK E) {p : Nat} (hc : LexCode E p) (hp : p < E.len) (hpl : PlainAt E p) :
    LexCode E (p + sz E p) :=
  hc.next hp (lexNext_plain h hp hpl.dquote hpl.squote hpl.line hpl.block)

theorem Good.char_eq {s : Sc} (g : Good E s) (hp : s.pos < E.len) : s.char = rn E s.pos := (g.next hp).2

theorem Good.nextPos_eq {s : Sc} (g : Good E s) (hp : s.pos < E.len) : s.nextPos = s.pos + sz E s.pos :=
  (g.next hp).1

theorem advanceChar_pos_lt {s : Sc} (g : Good E s) (hp : s.pos < E.len) :
    (advanceChar E s).pos = s.pos + sz E s.pos := by
  rw [advanceChar_pos, g.nextPos_eq hp]

theorem advanceChar_pos_eof {s : Sc} (g : Good E s) (hp : ¬ s.pos < E.len) :
    (advanceChar E s).pos = s.pos := by
  rw [advanceChar_pos]
  exact g.next_eof (by have := g.pos_le; omega)

/-- a character other than the quotes, `-` and `/` is plain -/
theorem plainAt_of_char {s : Sc} (g : Good E s) (hp : s.pos < E.len)
    (hc : s.char ≠ 34 ∧ s.char ≠ 39 ∧ s.char ≠ 45 ∧ s.char ≠ 47) : PlainAt E s.pos := by
  rw [g.char_eq hp] at hc
  exact ⟨hc.1, hc.2.1, fun hl => hc.2.2.1 hl.1, fun hb => hc.2.2.2 hb.1⟩

/-- `advanceChar` over a plain rune keeps the state on a code offset -/
theorem advanceChar_lc (h : DecOK E) {s : Sc} (l : LC E s) (hpl : s.pos < E.len → PlainAt E s.pos) :
    LC E (advanceChar E s) := by
  refine ⟨advanceChar_good h l.good, ?_⟩
  by_cases hp : s.pos < E.len
  · rw [advanceChar_pos_lt l.good hp]; exact l.code.plain h hp (hpl hp)
  · rw [advanceChar_pos_eof l.good hp]; exact l.code

theorem advanceChar_lc_char (h : DecOK E) {s : Sc} (l : LC E s)
    (hc : s.char ≠ 34 ∧ s.char ≠ 39 ∧ s.char ≠ 45 ∧ s.char ≠ 47) : LC E (advanceChar E s) :=
  advanceChar_lc h l (fun hp => plainAt_of_char l.good hp hc)

/-! ### skipChar -/

theorem skipChar_pos {c : Nat} {s : Sc} (hp : s.pos < E.len) (hc : s.char = c) :
    skipChar E c s = (advanceChar E s, true) := by
  unfold skipChar; rw [if_pos ⟨hp, hc⟩]

theorem skipChar_neg {c : Nat} {s : Sc} (hn : ¬ (s.pos < E.len ∧ s.char = c)) :
    skipChar E c s = (s, false) := by
  unfold skipChar; rw [if_neg hn]

theorem skipChar_false {c : Nat} {s : Sc} (hf : (skipChar E c s).2 = false) :
    ¬ (s.pos < E.len ∧ s.char = c) := by
  intro hn
  rw [skipChar_pos hn.1 hn.2] at hf
  cases hf

/-- skipping a character other than the quotes, `-` and `/` -/
theorem skipChar_lc (h : DecOK E) {c : Nat} (hc : c ≠ 34 ∧ c ≠ 39 ∧ c ≠ 45 ∧ c ≠ 47) {s : Sc}
    (l : LC E s) : LC E (skipChar E c s).1 := by
  by_cases hn : s.pos < E.len ∧ s.char = c
  · rw [skipChar_pos hn.1 hn.2]
    exact advanceChar_lc_char h l (by rw [hn.2]; exact hc)
  · rw [skipChar_neg hn]; exact l

/-! ### skipString -/

theorem asciiLower_upper {b k : Nat} (hk : 65 ≤ k ∧ k ≤ 90) (h : asciiLower b = asciiLower k) :
    b = k ∨ b = k + 32 := by
  unfold asciiLower at h
  rw [if_pos hk] at h
  split at h <;> omega

/-- a matched ASCII keyword is a sequence of plain runes of size 1 -/
theorem foldEqAt_lc (h : DecOK E) (ha : AsciiDec E) : ∀ (kw : List Nat),
    (∀ k, k ∈ kw → 65 ≤ k ∧ k ≤ 90) → ∀ (p : Nat), p + kw.length ≤ E.len →
    foldEqAt E.inp p kw = true → LexCode E p → LexCode E (p + kw.length) := by
  intro kw
  induction kw with
  | nil => intro _ p _ _ hl; exact hl
  | cons k ks ih =>
    intro hkw p hle hf hl
    unfold foldEqAt at hf
    rw [Bool.and_eq_true, beq_iff_eq] at hf
    have hk := hkw k List.mem_cons_self
    have hb := asciiLower_upper hk hf.1
    simp only [List.length_cons] at hle ⊢
    have hp : p < E.len := by omega
    have hd := ha.ascii p hp (by omega)
    have hrn : rn E p = bAt E.inp p := by show (E.dec E.inp p).1 = _; rw [hd]
    have hsz : sz E p = 1 := by show (E.dec E.inp p).2 = _; rw [hd]
    have hpl : PlainAt E p :=
      ⟨by rw [hrn]; omega, by rw [hrn]; omega, fun hx => by have := hx.1; rw [hrn] at this; omega,
        fun hx => by have := hx.1; rw [hrn] at this; omega⟩
    have hl1 := hl.plain h hp hpl
    rw [hsz] at hl1
    have := ih (fun k hk => hkw k (List.mem_cons_of_mem _ hk)) (p+1) (by omega) hf.2 hl1
    rw [show p + (ks.length + 1) = p + 1 + ks.length by omega]
    exact this

theorem skipString_lc (h : DecOK E) (ha : AsciiDec E) (kw : List Nat) (hne : 0 < kw.length)
    (hkw : ∀ k, k ∈ kw → 65 ≤ k ∧ k ≤ 90) {s : Sc} (l : LC E s) : LC E (skipString E kw s).1 := by
  have hb := skipString_bok kw hne (fun k hk => by have := hkw k hk; omega) l.good
  refine ⟨hb.good, ?_⟩
  unfold skipString
  split
  · next hc => exact foldEqAt_lc h ha kw hkw s.pos hc.1 hc.2 l.code
  · exact l.code

theorem kwAS_upper : ∀ k, k ∈ kwAS → 65 ≤ k ∧ k ≤ 90 := by decide
theorem kwVALUES_upper : ∀ k, k ∈ kwVALUES → 65 ≤ k ∧ k ≤ 90 := by decide

theorem skipString_AS_lc (h : DecOK E) (ha : AsciiDec E) {s : Sc} (l : LC E s) :
    LC E (skipString E kwAS s).1 :=
  skipString_lc h ha kwAS kwAS_ok.1 kwAS_upper l

theorem skipString_VALUES_lc (h : DecOK E) (ha : AsciiDec E) {s : Sc} (l : LC E s) :
    LC E (skipString E kwVALUES s).1 :=
  skipString_lc h ha kwVALUES kwVALUES_ok.1 kwVALUES_upper l

/-! ### skipComment -/

/-- the line-comment loop stops where the lexer's `lineCommentEnd` does -/
theorem commentLoop_line (h : DecOK E) : ∀ (f : Nat) {s : Sc}, Good E s → E.len - s.pos < f →
    ∃ s', commentLoop E 10 f s = some s' ∧ s'.pos = LCE E s.pos := by
  intro f
  induction f with
  | zero => intros; omega
  | succ f ih =>
    intro s g hf
    unfold commentLoop
    by_cases hp : s.pos < E.len
    · rw [if_pos hp]
      by_cases hc : s.char = 10
      · rw [if_pos hc, if_neg (by decide)]
        exact ⟨s, rfl, (LCE_nl hp (by rw [← g.char_eq hp]; exact hc)).symm⟩
      · rw [if_neg hc]
        have hlt := advanceChar_lt h g hp
        obtain ⟨s', hs', hpos⟩ := ih (advanceChar_good h g) (by omega)
        refine ⟨s', hs', ?_⟩
        rw [hpos, advanceChar_pos_lt g hp]
        exact (LCE_skip h hp (by rw [← g.char_eq hp]; exact hc)).symm
    · rw [if_neg hp]
      have := g.pos_le
      exact ⟨s, rfl, by rw [LCE_eof (by omega)]; omega⟩

/-- the block-comment loop stops where the lexer's `blockCommentEnd` does -/
theorem commentLoop_block (h : DecOK E) : ∀ (f : Nat) {s : Sc}, Good E s → E.len - s.pos < f →
    ∃ s', commentLoop E 42 f s = some s' ∧ s'.pos = BCE E s.pos := by
  intro f
  induction f with
  | zero => intros; omega
  | succ f ih =>
    intro s g hf
    unfold commentLoop
    by_cases hp : s.pos < E.len
    · rw [if_pos hp]
      have g1 := advanceChar_good h g
      have hlt := advanceChar_lt h g hp
      have hp1 := advanceChar_pos_lt g hp
      by_cases hc : s.char = 42
      · rw [if_pos hc, if_pos rfl]
        simp only []
        by_cases hn : (advanceChar E s).pos < E.len ∧ (advanceChar E s).char = 47
        · simp only [skipChar_pos hn.1 hn.2, if_true]
          refine ⟨_, rfl, ?_⟩
          rw [advanceChar_pos_lt g1 hn.1, hp1]
          refine (BCE_close hp (by rw [← g.char_eq hp]; exact hc) (by rw [← hp1]; exact hn.1) ?_).symm
          rw [← hp1, ← g1.char_eq hn.1]; exact hn.2
        · simp only [skipChar_neg hn, Bool.false_eq_true, if_false]
          obtain ⟨s', hs', hpos⟩ := ih g1 (by omega)
          refine ⟨s', hs', ?_⟩
          rw [hpos, hp1]
          refine (BCE_skip h hp (fun hx => hn ?_)).symm
          rw [hp1]
          refine ⟨hx.2.1, ?_⟩
          have hlt' : (advanceChar E s).pos < E.len := by rw [hp1]; exact hx.2.1
          rw [g1.char_eq hlt', hp1]; exact hx.2.2
      · rw [if_neg hc]
        obtain ⟨s', hs', hpos⟩ := ih g1 (by omega)
        refine ⟨s', hs', ?_⟩
        rw [hpos, hp1]
        exact (BCE_skip h hp (fun hx => hc (by rw [g.char_eq hp]; exact hx.1))).symm
    · rw [if_neg hp]
      have := g.pos_le
      exact ⟨s, rfl, by rw [BCE_eof (by omega)]; omega⟩

/-- **Bridge lemma (comments).**  `skipComment` succeeds exactly when the lexer sees a comment
    opener at the state's offset, and then stops exactly at the lexer's end of that comment
    (a line comment ends before the newline, an unterminated block comment at the end of
    the input); otherwise it returns the entry state. -/
theorem skipComment_eq_lexer (h : DecOK E) {s : Sc} (g : Good E s) :
    ((skipComment E s).2 = true → s.pos < E.len ∧
      ((LineOpen E s.pos ∧
          (skipComment E s).1.pos = LCE E (s.pos + sz E s.pos + sz E (s.pos + sz E s.pos))) ∨
       (BlockOpen E s.pos ∧
          (skipComment E s).1.pos = BCE E (s.pos + sz E s.pos + sz E (s.pos + sz E s.pos))))) ∧
    ((skipComment E s).2 = false → (skipComment E s).1 = s ∧
      (s.pos < E.len → ¬ LineOpen E s.pos ∧ ¬ BlockOpen E s.pos)) := by
  by_cases hp : s.pos < E.len
  · have g1 := advanceChar_good h g
    have hp1 := advanceChar_pos_lt g hp
    have hch := g.char_eq hp
    have hlt := advanceChar_lt h g hp
    have hsecond : ∀ c, ((advanceChar E s).pos < E.len ∧ (advanceChar E s).char = c) ↔
        (s.pos + sz E s.pos < E.len ∧ rn E (s.pos + sz E s.pos) = c) := by
      intro c
      rw [hp1]
      constructor
      · intro hx
        have hlt' : (advanceChar E s).pos < E.len := by rw [hp1]; exact hx.1
        have := g1.char_eq hlt'
        rw [hp1] at this
        exact ⟨hx.1, by rw [← this]; exact hx.2⟩
      · intro hx
        have hlt' : (advanceChar E s).pos < E.len := by rw [hp1]; exact hx.1
        have := g1.char_eq hlt'
        rw [hp1] at this
        exact ⟨hx.1, by rw [this]; exact hx.2⟩
    by_cases h45 : s.char = 45
    · -- `-`
      have hnb : ¬ BlockOpen E s.pos := fun hb => by have := hb.1; rw [← hch] at this; omega
      unfold skipComment
      simp only [skipChar_pos hp h45, if_true, h45]
      by_cases hn : (advanceChar E s).pos < E.len ∧ (advanceChar E s).char = 45
      · have g2 := advanceChar_good h g1
        have hp2 := advanceChar_pos_lt g1 hn.1
        have hlt2 := advanceChar_lt h g1 hn.1
        obtain ⟨s3, hs3, hpos⟩ := commentLoop_line h (E.len + 1) g2 (by omega)
        simp only [skipChar_pos hn.1 hn.2, if_true, hs3]
        refine ⟨fun _ => ⟨hp, Or.inl ⟨⟨by rw [← hch]; exact h45, ((hsecond 45).mp hn).1,
          ((hsecond 45).mp hn).2⟩, ?_⟩⟩, fun hf => (by cases hf)⟩
        rw [hpos, hp2, hp1]
      · simp only [skipChar_neg hn]
        refine ⟨fun hf => (by cases hf), fun _ => ⟨rfl, fun _ => ⟨fun hl => hn ((hsecond 45).mpr hl.2), hnb⟩⟩⟩
    · by_cases h47 : s.char = 47
      · -- `/`
        have hnl : ¬ LineOpen E s.pos := fun hb => by have := hb.1; rw [← hch] at this; omega
        unfold skipComment
        have hneg : ¬ (s.pos < E.len ∧ s.char = 45) := fun hx => h45 hx.2
        simp only [skipChar_neg hneg, skipChar_pos hp h47, h47, Bool.false_eq_true, if_false, if_true,
          (by decide : ¬ (47 : Nat) = 45)]
        by_cases hn : (advanceChar E s).pos < E.len ∧ (advanceChar E s).char = 42
        · have g2 := advanceChar_good h g1
          have hp2 := advanceChar_pos_lt g1 hn.1
          have hlt2 := advanceChar_lt h g1 hn.1
          obtain ⟨s3, hs3, hpos⟩ := commentLoop_block h (E.len + 1) g2 (by omega)
          simp only [skipChar_pos hn.1 hn.2, hs3, if_true]
          refine ⟨fun _ => ⟨hp, Or.inr ⟨⟨by rw [← hch]; exact h47, ((hsecond 42).mp hn).1,
            ((hsecond 42).mp hn).2⟩, ?_⟩⟩, fun hf => (by cases hf)⟩
          rw [hpos, hp2, hp1]
        · simp only [skipChar_neg hn]
          refine ⟨fun hf => (by cases hf), fun _ => ⟨rfl, fun _ => ⟨hnl, fun hl => hn ((hsecond 42).mpr hl.2)⟩⟩⟩
      · -- neither
        unfold skipComment
        have hneg : ¬ (s.pos < E.len ∧ s.char = 45) := fun hx => h45 hx.2
        have hneg' : ¬ (s.pos < E.len ∧ s.char = 47) := fun hx => h47 hx.2
        simp only [skipChar_neg hneg, skipChar_neg hneg']
        refine ⟨fun hf => (by cases hf), fun _ => ⟨rfl, fun _ => ⟨fun hl => h45 ?_, fun hl => h47 ?_⟩⟩⟩
        · rw [hch]; exact hl.1
        · rw [hch]; exact hl.1
  · unfold skipComment
    have hneg : ∀ c, ¬ (s.pos < E.len ∧ s.char = c) := fun c hx => hp hx.1
    simp only [skipChar_neg (hneg 45), skipChar_neg (hneg 47)]
    exact ⟨fun hf => (by cases hf), fun _ => ⟨rfl, fun hx => (hp hx).elim⟩⟩

/-- `skipComment` in terms of one step of the lexer -/
theorem skipComment_lexNext (h : DecOK E) {s : Sc} (g : Good E s) (ht : (skipComment E s).2 = true) :
    s.pos < E.len ∧ lexNext E s.pos = some (skipComment E s).1.pos := by
  obtain ⟨hp, hor⟩ := (skipComment_eq_lexer h g).1 ht
  refine ⟨hp, ?_⟩
  rcases hor with ⟨hl, hpos⟩ | ⟨hb, hpos⟩
  · rw [hpos]; exact lexNext_line h hp hl.1 hl.2.1 hl.2.2
  · rw [hpos]; exact lexNext_block h hp hb.1 hb.2.1 hb.2.2

theorem skipComment_lc (h : DecOK E) {s : Sc} (l : LC E s) : LC E (skipComment E s).1 := by
  refine ⟨(skipComment_bok h l.good).good, ?_⟩
  cases ht : (skipComment E s).2 with
  | true =>
    obtain ⟨hp, hn⟩ := skipComment_lexNext h l.good ht
    exact l.code.next hp hn
  | false =>
    rw [((skipComment_eq_lexer h l.good).2 ht).1]; exact l.code

/-- when `skipComment` fails on a character that is not a quote, the character is plain -/
theorem plainAt_of_noComment (h : DecOK E) {s : Sc} (g : Good E s) (hf : (skipComment E s).2 = false)
    (hq : ¬ (s.pos < E.len ∧ (s.char = 34 ∨ s.char = 39))) (hp : s.pos < E.len) : PlainAt E s.pos := by
  obtain ⟨hl, hb⟩ := ((skipComment_eq_lexer h g).2 hf).2 hp
  have hch := g.char_eq hp
  exact ⟨fun hx => hq ⟨hp, Or.inl (by rw [hch]; exact hx)⟩, fun hx => hq ⟨hp, Or.inr (by rw [hch]; exact hx)⟩,
    hl, hb⟩

/-- `skipComment` fails on any character other than `-` and `/` -/
theorem skipComment_of_char (h : DecOK E) {s : Sc} (g : Good E s) (hc : s.char ≠ 45 ∧ s.char ≠ 47) :
    skipComment E s = (s, false) := by
  cases ht : (skipComment E s).2 with
  | true =>
    obtain ⟨hp, hor⟩ := (skipComment_eq_lexer h g).1 ht
    have hch := g.char_eq hp
    rcases hor with ⟨hl, _⟩ | ⟨hb, _⟩
    · exact (hc.1 (by rw [hch]; exact hl.1)).elim
    · exact (hc.2 (by rw [hch]; exact hb.1)).elim
  | false =>
    exact Prod.ext ((skipComment_eq_lexer h g).2 ht).1 ht

/-! ### skipStringLiteral -/

theorem skipCharFind_at {c : Nat} {s : Sc} (hp : s.pos < E.len) (hc : s.char = c) :
    skipCharFind E c s = (advanceChar E s, true) := by
  unfold skipCharFind skipCharFindLoop
  rw [if_pos hp, if_pos hc]

/-- `skipCharFind` finds the first rune `c` at or after the state's offset -/
theorem skipCharFindLoop_lex (h : DecOK E) (c : Nat) : ∀ (f : Nat) {s : Sc}, Good E s →
    E.len - s.pos < f →
    (∃ s' p', skipCharFindLoop E c f s = some (some s') ∧ Good E s' ∧ s.pos ≤ p' ∧ p' < E.len ∧
      rn E p' = c ∧ s'.pos = p' + sz E p' ∧ LE E c s.pos = LE E c p') ∨
    (skipCharFindLoop E c f s = some none ∧ LE E c s.pos = none) := by
  intro f
  induction f with
  | zero => intros; omega
  | succ f ih =>
    intro s g hf
    unfold skipCharFindLoop
    by_cases hp : s.pos < E.len
    · rw [if_pos hp]
      have g1 := advanceChar_good h g
      have hp1 := advanceChar_pos_lt g hp
      have hlt := advanceChar_lt h g hp
      by_cases hc : s.char = c
      · rw [if_pos hc]
        exact Or.inl ⟨_, s.pos, rfl, g1, Nat.le_refl _, hp, by rw [← g.char_eq hp]; exact hc, hp1, rfl⟩
      · rw [if_neg hc]
        have hskip : LE E c s.pos = LE E c (advanceChar E s).pos := by
          rw [hp1]; exact LE_skip h hp (by rw [← g.char_eq hp]; exact hc)
        rcases ih g1 (by omega) with ⟨s', p', hs', g', hle, hlt', hrn, hpos, hLE⟩ | ⟨hs', hLE⟩
        · exact Or.inl ⟨s', p', hs', g', by omega, hlt', hrn, hpos, by rw [hskip, hLE]⟩
        · exact Or.inr ⟨hs', by rw [hskip, hLE]⟩
    · rw [if_neg hp]
      exact Or.inr ⟨rfl, LE_eof c (by omega)⟩

theorem skipCharFind_lex (h : DecOK E) (c : Nat) {s : Sc} (g : Good E s) :
    (∃ s' p', skipCharFind E c s = (s', true) ∧ Good E s' ∧ s.pos ≤ p' ∧ p' < E.len ∧
      rn E p' = c ∧ s'.pos = p' + sz E p' ∧ LE E c s.pos = LE E c p') ∨
    (skipCharFind E c s = (s, false) ∧ LE E c s.pos = none) := by
  unfold skipCharFind
  rcases skipCharFindLoop_lex h c (E.len + 1) g (by omega) with ⟨s', p', hs', hr⟩ | ⟨hs', hLE⟩
  · rw [hs']; exact Or.inl ⟨s', p', rfl, hr⟩
  · rw [hs']; exact Or.inr ⟨rfl, hLE⟩

/-- the loop of `skipStringLiteral` computes the lexer's `litEnd`: with `maybeCloser` the
    state is inside the literal; without, it is on the second quote of a doubled quote -/
theorem strLitLoop_lex (h : DecOK E) (c : Nat) : ∀ (f : Nat) (b : Bool) {s : Sc}, Good E s →
    E.len - s.pos < f → (b = false → s.pos < E.len ∧ s.char = c) →
    ∃ r, strLitLoop E c f b s = some r ∧
      r.map (·.pos) = LE E c (if b then s.pos else s.nextPos) := by
  intro f
  induction f with
  | zero => intros; omega
  | succ f ih =>
    intro b s g hf hb
    unfold strLitLoop
    cases b with
    | false =>
      obtain ⟨hp, hc⟩ := hb rfl
      have hlt := advanceChar_lt h g hp
      simp only [skipCharFind_at hp hc, Bool.false_and, Bool.not_false, if_true]
      obtain ⟨r, hr, hpos⟩ := ih true (advanceChar_good h g) (by omega) (fun hx => by cases hx)
      refine ⟨r, hr, ?_⟩
      rw [hpos, if_pos rfl, advanceChar_pos]
      simp
    | true =>
      simp only [if_true]
      rcases skipCharFind_lex h c g with ⟨s1, p', hs1, g1, hle, hlt, hrn, hpos, hLE⟩ | ⟨hs1, hLE⟩
      · simp only [hs1, if_true, Bool.true_and, Bool.not_true]
        by_cases hpk : s1.pos < E.len ∧ s1.char = c
        · have hpeek : peekChar E c s1 = true := by
            unfold peekChar; simp [hpk.1, hpk.2]
          have hsz := sz_pos h p' hlt
          simp only [hpeek, Bool.not_true]
          obtain ⟨r, hr, hpos'⟩ := ih false g1 (by omega) (fun _ => hpk)
          refine ⟨r, hr, ?_⟩
          rw [hpos', hLE, g1.nextPos_eq hpk.1, hpos]
          refine (LE_dbl h hlt hrn (by rw [← hpos]; exact hpk.1) ?_).symm
          rw [← hpos, ← g1.char_eq hpk.1]; exact hpk.2
        · have hpeek : peekChar E c s1 = false := by
            unfold peekChar
            by_cases hx : s1.pos < E.len
            · have : s1.char ≠ c := fun hy => hpk ⟨hx, hy⟩
              simp [hx, this]
            · simp [hx]
          simp only [hpeek, Bool.not_false, if_true]
          refine ⟨_, rfl, ?_⟩
          rw [hLE]
          show some s1.pos = _
          rw [hpos]
          refine (LE_close hlt hrn (fun hx => hpk ?_)).symm
          have hx1 : s1.pos < E.len := by rw [hpos]; exact hx.1
          refine ⟨hx1, ?_⟩
          rw [g1.char_eq hx1, hpos]; exact hx.2
      · simp only [hs1]
        refine ⟨none, by simp, ?_⟩
        rw [hLE]; rfl

/-- **Bridge lemma (literals).**  `skipStringLiteral` returns `.ok` exactly at the lexer's end of
    the literal opened at the state's offset, the `missingQuote` error exactly when the lexer
    finds the literal unclosed, and not-this (with the entry state) exactly when the rune at
    the state's offset is not a quote. -/
theorem skipStringLiteral_eq_lexer (h : DecOK E) {s : Sc} (g : Good E s) :
    (∀ s1 u, skipStringLiteral E s = (s1, .ok u) →
      s.pos < E.len ∧ (s.char = 34 ∨ s.char = 39) ∧
        LE E s.char (s.pos + sz E s.pos) = some s1.pos) ∧
    (∀ s1 e, skipStringLiteral E s = (s1, .err e) →
      s.pos < E.len ∧ (s.char = 34 ∨ s.char = 39) ∧
        LE E s.char (s.pos + sz E s.pos) = none ∧ s1 = s ∧ e = errAt s .missingQuote) ∧
    (∀ s1, skipStringLiteral E s = (s1, .no) →
      s1 = s ∧ ¬ (s.pos < E.len ∧ (s.char = 34 ∨ s.char = 39))) := by
  by_cases hq : s.pos < E.len ∧ (s.char = 34 ∨ s.char = 39)
  · obtain ⟨hp, hc⟩ := hq
    have g1 := advanceChar_good h g
    have hp1 := advanceChar_pos_lt g hp
    have hlt := advanceChar_lt h g hp
    obtain ⟨r, hr, hpos⟩ := strLitLoop_lex h s.char (E.len + 1) true g1 (by omega) (fun hx => by cases hx)
    rw [if_pos rfl, hp1] at hpos
    have hsk : (if (skipChar E 34 s).2 = true then skipChar E 34 s else skipChar E 39 s) =
        (advanceChar E s, true) := by
      rcases hc with hc | hc
      · rw [skipChar_pos hp hc, if_pos rfl]
      · have hneg : ¬ (s.pos < E.len ∧ s.char = 34) := fun hx => by have := hx.2; omega
        rw [skipChar_neg hneg, skipChar_pos hp hc]; rfl
    cases r with
    | none =>
      have hres : skipStringLiteral E s = (s, .err (errAt s .missingQuote)) := by
        unfold skipStringLiteral
        simp only [hsk, if_true, hr]
      rw [hres]
      refine ⟨fun s1 u he => (by cases he), fun s1 e he => ?_, fun s1 he => (by cases he)⟩
      cases he
      exact ⟨hp, hc, hpos.symm, rfl, rfl⟩
    | some s' =>
      have hres : skipStringLiteral E s = (s', .ok ()) := by
        unfold skipStringLiteral
        simp only [hsk, if_true, hr]
      rw [hres]
      refine ⟨fun s1 u he => ?_, fun s1 e he => (by cases he), fun s1 he => (by cases he)⟩
      cases he
      exact ⟨hp, hc, hpos.symm⟩
  · have hres : skipStringLiteral E s = (s, .no) := by
      unfold skipStringLiteral
      have h34 : ¬ (s.pos < E.len ∧ s.char = 34) := fun hx => hq ⟨hx.1, Or.inl hx.2⟩
      have h39 : ¬ (s.pos < E.len ∧ s.char = 39) := fun hx => hq ⟨hx.1, Or.inr hx.2⟩
      simp only [skipChar_neg h34, skipChar_neg h39]
      rfl
    rw [hres]
    refine ⟨fun s1 u he => (by cases he), fun s1 e he => (by cases he), fun s1 he => ?_⟩
    cases he
    exact ⟨rfl, hq⟩

/-- `skipStringLiteral` in terms of one step of the lexer -/
theorem skipStringLiteral_lexNext (h : DecOK E) {s : Sc} (g : Good E s) :
    (∀ s1 u, skipStringLiteral E s = (s1, .ok u) → s.pos < E.len ∧ lexNext E s.pos = some s1.pos) ∧
    (∀ s1 e, skipStringLiteral E s = (s1, .err e) → s.pos < E.len ∧ lexNext E s.pos = none) := by
  obtain ⟨hok, herr, _⟩ := skipStringLiteral_eq_lexer h g
  constructor
  · intro s1 u he
    obtain ⟨hp, hc, hl⟩ := hok s1 u he
    have hch := g.char_eq hp
    rw [hch] at hc hl
    exact ⟨hp, by rw [lexNext_lit h hp hc]; exact hl⟩
  · intro s1 e he
    obtain ⟨hp, hc, hl, _⟩ := herr s1 e he
    have hch := g.char_eq hp
    rw [hch] at hc hl
    exact ⟨hp, by rw [lexNext_lit h hp hc]; exact hl⟩

theorem skipStringLiteral_lc (h : DecOK E) {s : Sc} (l : LC E s) : LC E (skipStringLiteral E s).1 := by
  refine ⟨(skipStringLiteral_sok h l.good).good, ?_⟩
  obtain ⟨hok, herr, hno⟩ := skipStringLiteral_eq_lexer h l.good
  generalize hr : skipStringLiteral E s = r at *
  obtain ⟨s1, res⟩ := r
  cases res with
  | ok u =>
    obtain ⟨hp, hn⟩ := (skipStringLiteral_lexNext h l.good).1 s1 u hr
    exact l.code.next hp hn
  | err e => rw [(herr s1 e rfl).2.2.2.1]; exact l.code
  | no => rw [(hno s1 rfl).1]; exact l.code

/-! ### skipBlanks -/

theorem blanksLoop_lc (h : DecOK E) : ∀ (f : Nat) {s : Sc}, LC E s → ∀ s', blanksLoop E f s = some s' →
    LC E s' := by
  intro f
  induction f with
  | zero => intro s _ s' hs'; unfold blanksLoop at hs'; cases hs'
  | succ f ih =>
    intro s l s' hs'
    unfold blanksLoop at hs'
    split at hs'
    · simp only [] at hs'
      split at hs'
      · exact ih (skipComment_lc h l) s' hs'
      · split at hs'
        · next hb =>
          refine ih (advanceChar_lc_char h l ?_) s' hs'
          omega
        · cases hs'; exact l
    · cases hs'; exact l

theorem skipBlanks_lc (h : DecOK E) {s : Sc} (l : LC E s) : LC E (skipBlanks E s) := by
  unfold skipBlanks
  cases hb : blanksLoop E (E.len + 1) s with
  | none => exact l
  | some s' => exact blanksLoop_lc h _ l s' hb

/-- `skipBlanks` does not move from a character that is neither blank nor `-` nor `/` -/
theorem skipBlanks_stay (h : DecOK E) {s : Sc} (g : Good E s)
    (hc : s.char ≠ 45 ∧ s.char ≠ 47 ∧ s.char ≠ 32 ∧ s.char ≠ 9 ∧ s.char ≠ 13 ∧ s.char ≠ 10) :
    skipBlanks E s = s := by
  unfold skipBlanks blanksLoop
  split
  · simp only [skipComment_of_char h g ⟨hc.1, hc.2.1⟩]
    have hnb : ¬ (s.char = 32 ∨ s.char = 9 ∨ s.char = 13 ∨ s.char = 10) := by omega
    rw [if_neg hnb]
    rfl
  · rfl

theorem skipBlanks_eof {s : Sc} (hp : ¬ s.pos < E.len) : skipBlanks E s = s := by
  unfold skipBlanks blanksLoop
  rw [if_neg hp]; rfl

/-! ### names -/

/-- a name character is plain and not blank -/
theorem nameChar_plain (hc : ClassAscii E) {c : Nat} (hn : isNameChar E c = true) :
    c ≠ 34 ∧ c ≠ 39 ∧ c ≠ 45 ∧ c ≠ 47 ∧ c ≠ 32 ∧ c ≠ 9 ∧ c ≠ 13 ∧ c ≠ 10 := by
  refine ⟨?_, ?_, ?_, ?_, ?_, ?_, ?_, ?_⟩ <;> intro hx <;> subst hx
  · rw [hc.dquote] at hn; cases hn
  · rw [hc.squote] at hn; cases hn
  · rw [hc.minus] at hn; cases hn
  · rw [hc.slash] at hn; cases hn
  · rw [hc.space] at hn; cases hn
  · rw [hc.tab] at hn; cases hn
  · rw [hc.cr] at hn; cases hn
  · rw [hc.nl] at hn; cases hn

theorem isInitialNameChar_isNameChar {c : Nat} (hn : isInitialNameChar E c = true) :
    isNameChar E c = true := by
  unfold isInitialNameChar at hn
  unfold isNameChar
  rw [Bool.or_eq_true] at hn
  rcases hn with hn | hn
  · rw [hn]; rfl
  · rw [hn]; simp

theorem advanceChar_lc_name (h : DecOK E) (hc : ClassAscii E) {s : Sc} (l : LC E s)
    (hn : isNameChar E s.char = true) : LC E (advanceChar E s) := by
  have := nameChar_plain hc hn
  exact advanceChar_lc_char h l ⟨this.1, this.2.1, this.2.2.1, this.2.2.2.1⟩

theorem nameLoop_lc (h : DecOK E) (hc : ClassAscii E) : ∀ (f : Nat) {s : Sc}, LC E s →
    ∀ s', nameLoop E f s = some s' → LC E s' := by
  intro f
  induction f with
  | zero => intro s _ s' hs'; unfold nameLoop at hs'; cases hs'
  | succ f ih =>
    intro s l s' hs'
    unfold nameLoop at hs'
    split at hs'
    · next hn => exact ih (advanceChar_lc_name h hc l hn.2) s' hs'
    · cases hs'; exact l

theorem nameLoop_getD_lc (h : DecOK E) (hc : ClassAscii E) {s : Sc} (l : LC E s) :
    LC E ((nameLoop E (E.len + 1) s).getD s) := by
  cases hb : nameLoop E (E.len + 1) s with
  | none => exact l
  | some s' => exact nameLoop_lc h hc _ l s' hb

theorem parseTypeName_lc (h : DecOK E) (hc : ClassAscii E) {s : Sc} (l : LC E s) :
    LC E (parseTypeName E s).1 := by
  unfold parseTypeName
  extract_lets s1
  have l1 : LC E s1 := by
    unfold s1
    split
    · next hi =>
      exact nameLoop_getD_lc h hc (advanceChar_lc_name h hc l (isInitialNameChar_isNameChar hi))
    · exact l
  split <;> exact l1

end
end Sqlair
