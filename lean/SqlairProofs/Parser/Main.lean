/-
  The main loop of `Parse`: the nodes collected so far chain from offset 0 to `prevExprEnd`,
  the loop never runs out of fuel, and every error it reports is positioned.
-/
import SqlairProofs.Parser.Exprs

namespace Sqlair

section
variable {E : Env}

/-! ### span chains -/

theorem SpansChain.snoc {a b : Nat} {l : List Seg} (hc : SpansChain a b l) (x : Seg)
    (hx : x.a = b) (hle : x.a ≤ x.b) : SpansChain a x.b (l ++ [x]) := by
  induction hc with
  | nil x0 =>
    subst hx
    exact SpansChain.cons x [] x.b hle (SpansChain.nil x.b)
  | cons s rest to hsle _ ih =>
    exact SpansChain.cons s (rest ++ [x]) x.b hsle (ih hx)

/-- the scanner of `init` is good and at offset 0 -/
theorem initSc_good : Good E (initSc E) ∧ (initSc E).pos = 0 := by
  unfold initSc
  have hpos : (advanceChar E Sc.zero).pos = 0 := by rw [advanceChar_pos]; rfl
  refine ⟨?_, hpos⟩
  apply Good.mk'
  · rw [hpos]; exact Nat.zero_le _
  · intro hlt
    rw [hpos] at hlt
    rw [hpos, advanceChar_nextPos, advanceChar_char]
    have : ¬ (Sc.zero.nextPos ≥ E.len) := by show ¬ (0 ≥ E.len); omega
    rw [if_neg this, if_neg this]
    exact ⟨rfl, rfl⟩
  · intro heq
    rw [hpos] at heq
    rw [hpos, advanceChar_nextPos]
    have : Sc.zero.nextPos ≥ E.len := by show 0 ≥ E.len; omega
    rw [if_pos this]; rfl
  · rw [hpos, advanceChar_lineNum, nlCount_zero]
    have : ¬ (Sc.zero.char = 10 ∧ Sc.zero.pos < E.len) := fun hc => by cases hc.1
    rw [if_neg this]; rfl
  · rw [hpos, advanceChar_lineStart, lastNl_zero]
    have : ¬ (Sc.zero.char = 10 ∧ Sc.zero.pos < E.len) := fun hc => by cases hc.1
    rw [if_neg this]; rfl

/-! ### the main loop -/

/-- invariant of the main loop -/
structure Inv (E : Env) (st : PS) : Prop where
  good : Good E st.sc
  le : st.prevExprEnd ≤ st.sc.pos
  chain : SpansChain 0 st.prevExprEnd st.exprs

/-- `add` extends the chain up to the scanner position -/
theorem add_chain {st : PS} (hc : SpansChain 0 st.prevExprEnd st.exprs)
    (hle : st.prevExprEnd ≤ st.currentExprStart) (hle' : st.currentExprStart ≤ st.sc.pos)
    (e : Option Seg) (he : ∀ x, e = some x → x.a = st.currentExprStart ∧ x.b = st.sc.pos)
    (hn : e = none → st.currentExprStart = st.sc.pos) :
    SpansChain 0 st.sc.pos (st.add e).exprs ∧ (st.add e).prevExprEnd = st.sc.pos ∧
      (st.add e).sc = st.sc := by
  refine ⟨?_, rfl, rfl⟩
  unfold PS.add
  simp only []
  have hc1 : SpansChain 0 st.currentExprStart
      (if st.prevExprEnd ≠ st.currentExprStart
        then st.exprs ++ [{ kind := .bypass, a := st.prevExprEnd, b := st.currentExprStart }]
        else st.exprs) := by
    split
    · exact hc.snoc { kind := .bypass, a := st.prevExprEnd, b := st.currentExprStart } rfl hle
    · next heq =>
      have : st.prevExprEnd = st.currentExprStart := by
        by_cases hx : st.prevExprEnd = st.currentExprStart
        · exact hx
        · exact (heq hx).elim
      rw [← this]; exact hc
  cases e with
  | none => rw [← hn rfl]; exact hc1
  | some x =>
    obtain ⟨ha, hb⟩ := he x rfl
    rw [← hb]
    exact hc1.snoc x ha (by omega)

/-- result of the main loop: an error is positioned and is not the fuel artefact; on success
    the chain reaches `prevExprEnd ≤ currentExprStart = len = pos` -/
def LoopPost (E : Env) : Except PErr PS → Prop
  | .error e => ErrOK E e
  | .ok st' => SpansChain 0 st'.prevExprEnd st'.exprs ∧ st'.prevExprEnd ≤ st'.currentExprStart ∧
      st'.currentExprStart = E.len ∧ st'.sc.pos = E.len

theorem parseLoop_spec (h : DecOK E) (f : Nat) {st : PS} (hinv : Inv E st)
    (hf : E.len - st.sc.pos < f) : LoopPost E (parseLoop E f st) := by
  induction f generalizing st with
  | zero => omega
  | succ f ih =>
    unfold parseLoop
    obtain ⟨hp1, he1⟩ := advanceToNextExpression_post h hinv.good
    split
    · next heq => rw [heq] at he1; exact he1 _ rfl
    · next sc1 heq =>
      rw [heq] at hp1
      have g1 : Good E sc1 := hp1.good
      have hle1 : st.sc.pos ≤ sc1.pos := hp1.mono
      have hle0 := hinv.le
      have hpl := g1.pos_le
      extract_lets st1
      split
      · next hlen => exact ⟨hinv.chain, by show st.prevExprEnd ≤ sc1.pos; omega, hlen, hlen⟩
      · next hlen =>
        have ho := parseOutputExpr_eok h g1
        split
        · next heq2 => exact (ho.elim_err heq2).2.2
        · next sc2 seg heq2 =>
          obtain ⟨g2, hlt2, ha, hb⟩ := ho.elim_ok heq2
          obtain ⟨hc, hpe, hsc⟩ := add_chain (st := { st1 with sc := sc2 }) hinv.chain
            (by show st.prevExprEnd ≤ sc1.pos; omega) (by show sc1.pos ≤ sc2.pos; omega)
            (some seg) (fun x hx => by cases hx; exact ⟨ha, hb⟩) (fun hx => by cases hx)
          apply ih
          · exact ⟨by rw [hsc]; exact g2, by rw [hpe, hsc]; exact Nat.le_refl _, by rw [hpe]; exact hc⟩
          · rw [hsc]; show E.len - sc2.pos < f; omega
        · next sc2 heq2 =>
          have hsc2 : sc2 = sc1 := ho.elim_no heq2
          subst hsc2
          have hi := parseInputExpr_eok h g1
          split
          · next heq3 => exact (hi.elim_err heq3).2.2
          · next sc3 seg heq3 =>
            obtain ⟨g3, hlt3, ha, hb⟩ := hi.elim_ok heq3
            obtain ⟨hc, hpe, hsc⟩ := add_chain (st := { st1 with sc := sc3 }) hinv.chain
              (by show st.prevExprEnd ≤ sc2.pos; omega) (by show sc2.pos ≤ sc3.pos; omega)
              (some seg) (fun x hx => by cases hx; exact ⟨ha, hb⟩) (fun hx => by cases hx)
            apply ih
            · exact ⟨by rw [hsc]; exact g3, by rw [hpe, hsc]; exact Nat.le_refl _, by rw [hpe]; exact hc⟩
            · rw [hsc]; show E.len - sc3.pos < f; omega
          · next sc3 heq3 =>
            have hsc3 : sc3 = sc2 := hi.elim_no heq3
            subst hsc3
            have hlt := advanceChar_lt h g1 (by omega)
            apply ih
            · exact ⟨advanceChar_good h g1, by show st.prevExprEnd ≤ (advanceChar E sc3).pos; omega,
                hinv.chain⟩
            · show E.len - (advanceChar E sc3).pos < f; omega

/-- the two facts about `parse` everything else follows from -/
def ParsePost (E : Env) : Except PErr (List Seg) → Prop
  | .error e => ErrOK E e
  | .ok segs => SpansChain 0 E.len segs

theorem parse_spec (h : DecOK E) : ParsePost E (parse E) := by
  unfold parse
  obtain ⟨g0, hp0⟩ := initSc_good (E := E)
  have hinv : Inv E { sc := initSc E, prevExprEnd := 0, currentExprStart := 0, exprs := [] } :=
    ⟨g0, Nat.zero_le _, SpansChain.nil 0⟩
  have hl := parseLoop_spec h (E.len + 2) hinv (by show E.len - (initSc E).pos < E.len + 2; omega)
  split
  · next e heq => rw [heq] at hl; exact hl
  · next st heq =>
    rw [heq] at hl
    obtain ⟨hc, hle, hcur, hpos⟩ := hl
    have := add_chain hc hle (by omega) none (fun x hx => by cases hx) (fun _ => by omega)
    rw [hpos] at this
    exact this.1

end
end Sqlair
