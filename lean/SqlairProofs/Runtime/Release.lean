/-
  Runtime proofs, C13: resource accounting.  Every opened `Rows` is closed exactly once and
  its connection released; the driver log only grows.
-/
import SqlairProofs.Runtime.GetAll

namespace Sqlair.Rt

/-- number of `rowsClose` events so far -/
def World.closes (w : World) : Nat := w.log.count .rowsClose

def Rows.nOpen (r : Rows) : Nat := if r.closed then 0 else 1
def Rows.nHeld (r : Rows) : Nat := if !r.closed && r.holdsConn then 1 else 0

@[simp] theorem World.closes_emit (w : World) (e : Ev) :
    (w.emit e).closes = w.closes + (if e = .rowsClose then 1 else 0) := by
  simp [World.closes, World.emit, List.count_append, List.count_singleton]

/-! ### Rows -/

theorem Rows.close_effect {r : Rows} {w : World} {base : Nat} (h : w.inUse = base + r.nHeld) :
    (r.close w).2.1.inUse = base ∧ (r.close w).2.1.closes = w.closes + r.nOpen := by
  cases hc : r.closed
  · rw [Rows.close_of_open hc]
    cases hs : r.closeStmt <;> cases hh : r.holdsConn <;>
      simp_all [Rows.nHeld, Rows.nOpen, World.closes, World.emit, List.count_append]
  · rw [Rows.close_of_closed hc]
    simp_all [Rows.nHeld, Rows.nOpen]

theorem Rows.next_effect {r : Rows} {w : World} {base : Nat} (h : w.inUse = base + r.nHeld) :
    (r.next w).2.1.inUse = base + (r.next w).1.nHeld ∧
      (r.next w).2.1.closes + (r.next w).1.nOpen = w.closes + r.nOpen := by
  cases hc : r.closed
  · unfold Rows.next
    simp only [hc, Bool.false_eq_true, if_false]
    split
    · have := Rows.close_effect (r := { r with cur := none }) (w := w.emit .next) (base := base)
        (by simpa [Rows.nHeld] using h)
      simpa [Rows.nHeld, Rows.nOpen, hc] using this
    · rename_i e rest _
      have := Rows.close_effect (r := { r with fetch := rest, lasterr := some e, cur := none })
        (w := w.emit .next) (base := base) (by simpa [Rows.nHeld] using h)
      simpa [Rows.nHeld, Rows.nOpen, hc] using this
    · simpa [Rows.nHeld, Rows.nOpen, hc] using h
  · rw [Rows.next_of_closed hc]; exact ⟨h, rfl⟩

theorem Rows.cancel_effect {r : Rows} {w : World} {base : Nat} (h : w.inUse = base + r.nHeld) :
    (r.cancel w).2.inUse = base + (r.cancel w).1.nHeld ∧
      (r.cancel w).2.closes + (r.cancel w).1.nOpen = w.closes + r.nOpen := by
  cases hc : r.closed
  · unfold Rows.cancel
    simp only [hc, Bool.false_eq_true, if_false]
    rcases Option.eq_none_or_eq_some r.lasterr with hl | ⟨e, hl⟩ <;> simp only [hl]
    · have := Rows.close_effect (r := { r with lasterr := some .ctx })
        (w := w) (base := base) (by simpa [Rows.nHeld] using h)
      simpa [Rows.nHeld, Rows.nOpen, hc] using this
    · have := Rows.close_effect (r := { r with lasterr := some e })
        (w := w) (base := base) (by simpa [Rows.nHeld] using h)
      simpa [Rows.nHeld, Rows.nOpen, hc] using this
  · rw [Rows.cancel_of_closed hc]; exact ⟨h, rfl⟩

theorem Rows.close_log (r : Rows) (w : World) : w.log <+: (r.close w).2.1.log := by
  cases hc : r.closed
  · rw [Rows.close_of_open hc]
    cases hs : r.closeStmt <;> cases hh : r.holdsConn <;> simp [World.emit, List.append_assoc]
  · rw [Rows.close_of_closed hc]; exact List.prefix_refl _

theorem Rows.next_log (r : Rows) (w : World) : w.log <+: (r.next w).2.1.log := by
  unfold Rows.next
  split
  · exact List.prefix_refl _
  · have h0 : w.log <+: (w.emit .next).log := by simp
    split
    · exact h0.trans (Rows.close_log _ _)
    · exact h0.trans (Rows.close_log _ _)
    · exact h0

theorem Rows.cancel_log (r : Rows) (w : World) : w.log <+: (r.cancel w).2.log := by
  unfold Rows.cancel
  split
  · exact List.prefix_refl _
  · exact Rows.close_log _ _

/-! ### Iter -/

def Iter.nOpen (it : Iter) : Nat := match it.rows with | some r => r.nOpen | none => 0
def Iter.nHeld (it : Iter) : Nat := match it.rows with | some r => r.nHeld | none => 0

/-- the balance invariant: `base` connections are in use apart from the one the open rows
    hold, and `k` = result sets closed so far + result sets still open -/
structure Bal (it : Iter) (w : World) (base k : Nat) : Prop where
  inUse : w.inUse = base + it.nHeld
  closes : w.closes + it.nOpen = k

theorem Bal.of_rows_none {it : Iter} {w : World} {base k : Nat} (h : Bal it w base k) (hr : it.rows = none) :
    w.inUse = base ∧ w.closes = k := by
  have h1 := h.inUse; have h2 := h.closes
  simp [Iter.nHeld, Iter.nOpen, hr] at h1 h2
  exact ⟨h1, h2⟩

theorem Iter.next_bal {it : Iter} {w : World} {base k : Nat} (h : Bal it w base k) :
    Bal (it.next w).1 (it.next w).2.1 base k := by
  rcases Iter.next_cases it w with hn | ⟨r, he, hr, hn⟩
  · rw [hn]; exact ⟨h.inUse, h.closes⟩
  · rw [hn]
    have h1 := h.inUse; have h2 := h.closes
    simp only [Iter.nHeld, Iter.nOpen, hr] at h1 h2
    obtain ⟨h3, h4⟩ := Rows.next_effect h1
    exact ⟨by simpa [Iter.nHeld] using h3, by simp only [Iter.nOpen]; omega⟩

theorem Iter.close_bal {it : Iter} {w : World} {base k : Nat} (h : Bal it w base k) :
    Bal (it.close w).1 (it.close w).2.1 base k := by
  cases hr : it.rows with
  | none => rw [Iter.close_of_rows_none hr]; exact ⟨by simpa [Iter.nHeld] using h.inUse, by simpa [Iter.nOpen] using h.closes⟩
  | some r =>
    rw [Iter.close_of_rows hr]
    have h1 := h.inUse; have h2 := h.closes
    simp only [Iter.nHeld, Iter.nOpen, hr] at h1 h2
    obtain ⟨h3, h4⟩ := Rows.close_effect h1
    exact ⟨by simpa [Iter.nHeld] using h3, by simp only [Iter.nOpen]; omega⟩

theorem Iter.cancel_bal {it : Iter} {w : World} {base k : Nat} (h : Bal it w base k) :
    Bal (it.cancel w).1 (it.cancel w).2 base k := by
  cases hr : it.rows with
  | none => rw [Iter.cancel_of_rows_none hr]; exact h
  | some r =>
    rw [Iter.cancel_of_rows hr]
    have h1 := h.inUse; have h2 := h.closes
    simp only [Iter.nHeld, Iter.nOpen, hr] at h1 h2
    obtain ⟨h3, h4⟩ := Rows.cancel_effect (w := w) h1
    exact ⟨by simpa [Iter.nHeld] using h3, by simp only [Iter.nOpen]; omega⟩

theorem step_bal {it : Iter} {w : World} {base k : Nat} (h : Bal it w base k) (c : Call) :
    Bal (step it w c).1 (step it w c).2.1 base k := by
  cases c with
  | next => exact Iter.next_bal h
  | get a => exact h
  | close => exact Iter.close_bal h
  | cancel => exact Iter.cancel_bal h

theorem run_bal {it : Iter} {w : World} {base k : Nat} (h : Bal it w base k) (cs : List Call) :
    Bal (run it w cs).1 (run it w cs).2.1 base k := by
  induction cs generalizing it w with
  | nil => exact h
  | cons c cs ih => rw [run_cons]; exact ih (step_bal h c)

theorem Iter.next_log (it : Iter) (w : World) : w.log <+: (it.next w).2.1.log := by
  rcases Iter.next_cases it w with hn | ⟨r, he, hr, hn⟩
  · rw [hn]; exact List.prefix_refl _
  · rw [hn]; exact Rows.next_log r w

theorem Iter.close_log (it : Iter) (w : World) : w.log <+: (it.close w).2.1.log := by
  cases hr : it.rows with
  | none => rw [Iter.close_of_rows_none hr]; exact List.prefix_refl _
  | some r => rw [Iter.close_of_rows hr]; exact Rows.close_log r w

theorem Iter.cancel_log (it : Iter) (w : World) : w.log <+: (it.cancel w).2.log := by
  cases hr : it.rows with
  | none => rw [Iter.cancel_of_rows_none hr]; exact List.prefix_refl _
  | some r => rw [Iter.cancel_of_rows hr]; exact Rows.cancel_log r w

theorem step_log (it : Iter) (w : World) (c : Call) : w.log <+: (step it w c).2.1.log := by
  cases c with
  | next => exact Iter.next_log it w
  | get a => exact List.prefix_refl _
  | close => exact Iter.close_log it w
  | cancel => exact Iter.cancel_log it w

theorem run_log (it : Iter) (w : World) (cs : List Call) : w.log <+: (run it w cs).2.1.log := by
  induction cs generalizing it w with
  | nil => exact List.prefix_refl _
  | cons c cs ih => rw [run_cons]; exact (step_log it w c).trans (ih _ _)

/-! ### iterOpen -/

theorem iterOpen_log (s : Script) (w : World) : w.log <+: (iterOpen s w).2.log := by
  rw [iterOpen_eq]; simp

theorem iterOpen_bal (s : Script) (w : World) :
    Bal (iterOpen s w).1 (iterOpen s w).2 w.inUse (w.closes + if s.opensRows then 1 else 0) := by
  have hcount : s.openEvents.count .rowsClose = 0 := by
    obtain ⟨ho, ca, tx, td, cd, pe, re, fe, ce, res⟩ := s
    cases ho <;> cases ca <;> cases tx <;> cases td <;> cases cd <;> cases pe <;> cases re <;>
      simp [Script.openEvents]
  rw [iterOpen_eq]
  cases hop : s.opensRows
  · refine ⟨?_, ?_⟩
    · simp [Iter.nHeld, Script.openRows_of_not_opensRows hop]
    · simp [Iter.nOpen, Script.openRows_of_not_opensRows hop, World.closes, List.count_append, hcount]
  · refine ⟨?_, ?_⟩
    · cases htx : s.onTx <;> simp [Iter.nHeld, Script.openRows_of_opensRows hop, Rows.nHeld, htx]
    · simp [Iter.nOpen, Script.openRows_of_opensRows hop, Rows.nOpen, World.closes, List.count_append, hcount]

/-! ### the GetAll loop -/

theorem getAllLoop_outcome {it : Iter} {w : World} {dv : Bool} {x : Option Nat} (h : (it.next w).2.2 = true)
    (hg : (it.next w).1.get (if dv then .valid else .invalid) = .outcome x) (f : Nat) (acc : List Nat) :
    getAllLoop (f + 1) it w acc dv = ((it.next w).1, (it.next w).2.1, acc, some (.sqlair "unreachable")) := by
  simp [getAllLoop, h, hg]

theorem getAllLoop_bal (f : Nat) : ∀ {it : Iter} {w : World} {base k : Nat} (acc : List Nat) (dv : Bool),
    Bal it w base k → Bal (getAllLoop f it w acc dv).1 (getAllLoop f it w acc dv).2.1 base k := by
  induction f with
  | zero => intro it w base k acc dv h; exact h
  | succ f ih =>
    intro it w base k acc dv h
    have hn := Iter.next_bal h
    cases hb : (it.next w).2.2
    · rw [getAllLoop_done hb]; exact hn
    · cases hg : (it.next w).1.get (if dv then .valid else .invalid) with
      | row id => rw [getAllLoop_row hb hg]; exact ih _ _ hn
      | err e => rw [getAllLoop_err hb hg]; exact Iter.close_bal hn
      | outcome x => rw [getAllLoop_outcome hb hg]; exact hn

theorem getAllLoop_log (f : Nat) : ∀ (it : Iter) (w : World) (acc : List Nat) (dv : Bool),
    w.log <+: (getAllLoop f it w acc dv).2.1.log := by
  induction f with
  | zero => intro it w acc dv; exact List.prefix_refl _
  | succ f ih =>
    intro it w acc dv
    have hn := Iter.next_log it w
    cases hb : (it.next w).2.2
    · rw [getAllLoop_done hb]; exact hn
    · cases hg : (it.next w).1.get (if dv then .valid else .invalid) with
      | row id => rw [getAllLoop_row hb hg]; exact hn.trans (ih _ _ _ _)
      | err e => rw [getAllLoop_err hb hg]; exact hn.trans (Iter.close_log _ _)
      | outcome x => rw [getAllLoop_outcome hb hg]; exact hn

/-- the loop of `queryGetAll` ends without error, or with a wrapped error after closing
    the iterator: the fuel is never exhausted and the "unreachable" branch is not reached -/
theorem gaLoop_exit (s : Script) (dv : Bool) (w : World) :
    (gaLoop s dv w).2.2.2 = none ∨
      ∃ e, (gaLoop s dv w).2.2.2 = some (.wrapped e) ∧ (gaLoop s dv w).1.rows = none := by
  cases hop : s.opensRows
  · have hrows : (iterOpen s w).1.rows = none := by
      rw [iterOpen_rows]; exact Script.openRows_of_not_opensRows hop
    have hend : (iterOpen s w).1.ended = true := by simp [Iter.ended, hrows]
    left
    show (getAllLoop (s.fetch.length + 1 + 1) _ _ _ _).2.2.2 = none
    rw [getAllLoop_ended hend]
  · have hrows := iterOpen_rows s w
    rw [Script.openRows_of_opensRows hop] at hrows
    have herr : (iterOpen s w).1.err = none := by
      rw [iterOpen_err]
      have h := hop
      simp only [Script.opensRows, Script.runsOK, Bool.and_eq_true, Option.isNone_iff_eq_none] at h
      exact h.2
    exact (getAllLoop_spec s.fetch (s.fetch.length + 2) (iterOpen s w).1 _ (iterOpen s w).2 [] dv
      herr hrows rfl rfl rfl (by omega)).2.2

/-- where `queryGetAll` leaves the world -/
theorem queryGetAll_snd (s : Script) (n : Nat) (dv : Bool) (w : World) :
    (queryGetAll s n dv w).2 = w ∧ (!s.hasOutputs && decide (n > 0)) = true ∨
    (!s.hasOutputs && decide (n > 0)) = false ∧
      ((queryGetAll s n dv w).2 = (gaLoop s dv w).2.1 ∧ (gaLoop s dv w).1.rows = none ∨
       (queryGetAll s n dv w).2 = (gaClose s dv w).2.1) := by
  cases hrej : (!s.hasOutputs && decide (n > 0))
  · right
    refine ⟨rfl, ?_⟩
    rcases gaLoop_exit s dv w with hl | ⟨e, hl, hr⟩
    · cases hc : (gaClose s dv w).2.2 with
      | none => right; rw [queryGetAll_noErr s n dv w hrej hl hc]
      | some e => right; rw [queryGetAll_closeErr s n dv w hrej hl hc]
    · left; rw [queryGetAll_loopErr s n dv w hrej hl]; exact ⟨rfl, hr⟩
  · left; rw [queryGetAll_reject hrej]; exact ⟨rfl, rfl⟩

theorem queryGetAll_log (s : Script) (n : Nat) (dv : Bool) (w : World) :
    w.log <+: (queryGetAll s n dv w).2.log := by
  have h1 := iterOpen_log s w
  have h2 : (iterOpen s w).2.log <+: (gaLoop s dv w).2.1.log := getAllLoop_log _ _ _ _ _
  have h3 : (gaLoop s dv w).2.1.log <+: (gaClose s dv w).2.1.log := Iter.close_log _ _
  rcases queryGetAll_snd s n dv w with ⟨h, _⟩ | ⟨_, ⟨h, _⟩ | h⟩ <;> rw [h]
  · exact List.prefix_refl _
  · exact h1.trans h2
  · exact (h1.trans h2).trans h3

theorem queryGetAll_bal (s : Script) (n : Nat) (dv : Bool) (w : World) :
    (queryGetAll s n dv w).2.inUse = w.inUse ∧
      (queryGetAll s n dv w).2.closes = w.closes + if s.opensRows then 1 else 0 := by
  have hb := getAllLoop_bal (s.fetch.length + 2) [] dv (iterOpen_bal s w)
  rcases queryGetAll_snd s n dv w with ⟨h, hrej⟩ | ⟨_, ⟨h, hr⟩ | h⟩ <;> rw [h]
  · have : s.opensRows = false := by
      simp only [Bool.and_eq_true, Bool.not_eq_true'] at hrej
      simp [Script.opensRows, hrej.1]
    simp [this]
  · exact hb.of_rows_none hr
  · exact (Iter.close_bal hb).of_rows_none (by simp)

end Sqlair.Rt
