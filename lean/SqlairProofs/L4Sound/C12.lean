/-
  L4Sound, C12 and C09 (transaction half): on the predicted observation of a case on a
  transaction everything is on one connection between `begin` and the single finisher event.
-/
import SqlairProofs.L4Sound.C13

namespace Sqlair.Rt

/-! ### C09 -/

theorem l4s_const_all_head (l : List String) :
    (l.map fun _ => 1).all (· == (l.map fun _ => 1).headD 0) = true := by
  cases l with
  | nil => rfl
  | cons a rest => simp

theorem l4s_holdsC09tx (win : String) (c : Case) (p : Pred) : holdsC09tx c (predObsW win c p) = true := by
  unfold holdsC09tx
  show (!c.onTx || ((l4s_events win c p).map fun _ => 1).all (· == ((l4s_events win c p).map fun _ => 1).headD 0)) = true
  rw [l4s_const_all_head]; simp

/-! ### events of the operation are not finisher events -/

theorem l4s_isFin_of_isRow {e : Ev} (h : e.l4s_isRow = true) : e.isFin = false := by
  cases e <;> simp_all [Ev.l4s_isRow, Ev.isFin]

theorem l4s_isFin_of_isOpen {e : Ev} (h : e.l4s_isOpen = true) : e.isFin = false := by
  cases e <;> simp_all [Ev.l4s_isOpen, Ev.isFin]

theorem l4s_effect_noFin {s : Script} {closed : Prop} {w1 w2 : World} (h : l4s_Effect s closed w1 w2)
    {evsOp : List Ev} (hlog : w2.log = w1.log ++ evsOp) : ∀ e ∈ evsOp, e.isFin = false := by
  rcases h with h | ⟨evs, h⟩
  · subst h
    have : w2.log ++ [] = w2.log ++ evsOp := by simpa using hlog
    rw [← List.append_cancel_left this]; simp
  · have : w1.log ++ (s.openEvents ++ evs) = w1.log ++ evsOp := by rw [← hlog, h.log, List.append_assoc]
    rw [← List.append_cancel_left this]
    intro e he
    rcases List.mem_append.1 he with he | he
    · exact l4s_isFin_of_isOpen (List.all_eq_true.1 (l4s_openEvents_isOpen s) e he)
    · exact l4s_isFin_of_isRow (List.all_eq_true.1 h.rows e he)

/-! ### C12 on rendered event lists -/

theorem l4s_filter_isFinisher (l : List Ev) :
    (l.map Ev.render).filter isFinisher = (l.filter Ev.isFin).map Ev.render := by
  induction l with
  | nil => rfl
  | cons e rest ih =>
    simp only [List.map_cons, List.filter_cons, l4s_isFinisher_render, ih]
    split <;> simp

theorem l4s_dropWhile_isFinisher (l : List Ev) :
    (l.map Ev.render).dropWhile (fun e => !isFinisher e) = (l.dropWhile (fun e => !e.isFin)).map Ev.render := by
  induction l with
  | nil => rfl
  | cons e rest ih =>
    simp only [List.map_cons, List.dropWhile_cons, l4s_isFinisher_render, ih]
    split <;> simp

theorem l4s_filter_noFin {l : List Ev} (h : ∀ e ∈ l, e.isFin = false) : l.filter Ev.isFin = [] := by
  rw [List.filter_eq_nil_iff]; intro e he; simp [h e he]

theorem l4s_dropWhile_noFin {l : List Ev} (h : ∀ e ∈ l, e.isFin = false) (rest : List Ev) :
    (l ++ rest).dropWhile (fun e => !e.isFin) = rest.dropWhile (fun e => !e.isFin) := by
  induction l with
  | nil => rfl
  | cons e l ih =>
    simp only [List.cons_append, List.dropWhile_cons, h e (by simp)]
    simpa using ih (fun e he => h e (by simp [he]))

/-- the event part of C12 for the shape `begin, operation events, finisher` -/
theorem l4s_c12_events {evsOp : List Ev} (h : ∀ e ∈ evsOp, e.isFin = false) {fev : Ev} (hf : fev.isFin = true) :
    ((Ev.begin :: evsOp ++ [fev]).map Ev.render).head? = some "begin" ∧
    (((Ev.begin :: evsOp ++ [fev]).map Ev.render).filter isFinisher).length = 1 ∧
    (((Ev.begin :: evsOp ++ [fev]).map Ev.render).dropWhile (fun e => !isFinisher e)).length = 1 := by
  refine ⟨rfl, ?_, ?_⟩
  · rw [l4s_filter_isFinisher]
    have hb : Ev.begin.isFin = false := rfl
    simp [hb, List.filter_append, l4s_filter_noFin h, hf]
  · rw [l4s_dropWhile_isFinisher]
    have : (Ev.begin :: evsOp ++ [fev]) = (Ev.begin :: evsOp) ++ [fev] := by simp
    rw [this, l4s_dropWhile_noFin (l := Ev.begin :: evsOp)]
    · simp [hf]
    · intro e he
      rcases List.mem_cons.1 he with rfl | he
      · rfl
      · exact h e he

theorem l4s_zip_self_all (l : List String) (f : String × String → Bool) (h : ∀ x, f (x, x) = true) :
    (l.zip l).all f = true := by
  induction l with
  | nil => rfl
  | cons a rest ih => simp [h a, ih]

theorem l4s_holdsC12_single {win : String} (hwin : isFinisher win = true) {c : Case} (hwf : CaseWF c)
    (hp : c.op ≠ "pair") : holdsC12 c (predObsW win c (l4s_predictSingle c)) = true := by
  cases htx : c.onTx
  · simp [holdsC12, htx]
  · have heff := l4s_mid_effect c c.l4s_td (l4s_w1 c)
    obtain ⟨evsOp, hlog, hshape⟩ := l4s_obs_shape hwin hwf hp
    have hnf := l4s_effect_noFin heff hlog
    have hlast : ((predict c).returns.zip (predObsW win c (l4s_predictSingle c)).returns).all
        (fun (m, r) => m != "txDone" || r == "txDone" || (c.ctxDone && r == "ctx")) = true := by
      have : (predict c).returns = (predObsW win c (l4s_predictSingle c)).returns := by
        rw [l4s_predict_eq]; simp [hp]; rfl
      rw [this]
      apply l4s_zip_self_all
      intro x
      show (x != "txDone" || x == "txDone" || (c.ctxDone && x == "ctx")) = true
      by_cases hx : x = "txDone"
      · subst hx; simp
      · have : (x != "txDone") = true := by simpa using hx
        simp [this]
    have hconn : (predObsW win c (l4s_predictSingle c)).eventConn.all
        (· == (predObsW win c (l4s_predictSingle c)).eventConn.headD 0) = true := l4s_const_all_head _
    have key : ∀ (L : List Ev), (predObsW win c (l4s_predictSingle c)).events = L.map Ev.render →
        (L.map Ev.render).head? = some "begin" →
        ((L.map Ev.render).filter isFinisher).length = 1 →
        ((L.map Ev.render).dropWhile (fun e => !isFinisher e)).length = 1 →
        l4s_finishOK c (predObsW win c (l4s_predictSingle c)).finish = true →
        holdsC12 c (predObsW win c (l4s_predictSingle c)) = true := by
      intro L hev h1 h2 h3 h4
      unfold holdsC12
      simp only [htx, Bool.not_true, Bool.false_eq_true, if_false, hconn, hev, h1, h2, h3, Bool.true_and]
      unfold l4s_finishOK at h4
      have hw : (predObsW win c (l4s_predictSingle c)).winners = 1 := rfl
      by_cases hc : c.concurrent > 0
      · simp only [hc, if_true, hw]
        split <;> simp [hlast]
      · simp only [hc, decide_false, Bool.false_or] at h4
        simp only [hc, if_false]
        split
        · rename_i hbc; simp [hlast]; simpa [hbc] using h4
        · rename_i hbc; simp [hlast]; simpa [hbc] using h4
    rcases hshape with ⟨h, _⟩ | ⟨_, _, _, he, fev, hf, hev, _, hfin⟩ | ⟨_, _, _, _, fev, hf, hev, _, hfin⟩
    · rw [h] at htx; exact absurd htx (by simp)
    · have h3 := l4s_c12_events (evsOp := []) (by simp) hf
      exact key _ hev h3.1 h3.2.1 h3.2.2 hfin
    · have h3 := l4s_c12_events hnf hf
      exact key _ hev h3.1 h3.2.1 h3.2.2 hfin

end Sqlair.Rt
