/-
  L4Sound: the model agrees with the observation it predicts (`diffs … = []`).
-/
import SqlairProofs.L4Sound.PairC20

namespace Sqlair.Rt

theorem l4s_bne_self_false {α : Type} [BEq α] [LawfulBEq α] (a : α) : (a != a) = false := by simp

theorem l4s_diffs_pair (win : String) {c : Case} (h : c.op = "pair") :
    diffs c (predictPair c) (predObsW win c (predictPair c)) = [] := by
  obtain ⟨hA, hB⟩ := l4s_pair_kindsWith win h
  have hlen : (predObsW win c (predictPair c)).eventCtx.length =
      (predictPair c).evA.length + (predictPair c).evB.length := by
    rw [l4s_pair_eventCtx win h]; simp
  have hiu : (predObsW win c (predictPair c)).inUse = (predictPair c).inUse := by
    show (if c.l4s_conc && c.txEnd == "after" then _ else _) = _
    simp [l4s_conc_pair h]
  have hret : (predObsW win c (predictPair c)).returns = (predictPair c).returns := rfl
  have hst : (predObsW win c (predictPair c)).stored = (predictPair c).stored := rfl
  have hap : (predObsW win c (predictPair c)).appended = (predictPair c).appended := rfl
  unfold diffs
  simp only [h, beq_self_eq_true, if_true]
  unfold diffsPair
  simp only [hA, hB, hlen, hiu, hret, hst, hap, l4s_bne_self_false, Bool.false_eq_true, if_false,
    Bool.and_false, List.append_nil]

/-- removing the finisher events -/
theorem l4s_strip_events {win : String} (hwin : isFinisher win = true) (c : Case) (p : Pred) :
    (l4s_events win c p).filter (fun e => !isFinisher e) =
      (p.log.map Ev.render).filter (fun e => !isFinisher e) ∨
    (c.l4s_conc = false ∧ l4s_events win c p = p.log.map Ev.render) := by
  cases hc : c.l4s_conc
  · right; exact ⟨rfl, by simp [l4s_events, hc]⟩
  · left
    unfold l4s_events
    simp only [hc, if_true]
    split
    · simp [List.filter_append, hwin]
    · have : ((p.log.map Ev.render).take 1 ++ [win] ++ (p.log.map Ev.render).drop 1).filter (fun e => !isFinisher e)
          = ((p.log.map Ev.render).take 1 ++ (p.log.map Ev.render).drop 1).filter (fun e => !isFinisher e) := by
        simp [List.filter_append, hwin]
      rw [this, List.take_append_drop]

theorem l4s_diffs_single {win : String} (hwin : isFinisher win = true) {c : Case} (h : c.op ≠ "pair") (p : Pred) :
    diffs c p (predObsW win c p) = [] := by
  have hp : (c.op == "pair") = false := by simpa using h
  have hret : (predObsW win c p).returns = p.returns := rfl
  have hst : (predObsW win c p).stored = p.stored := rfl
  have hap : (predObsW win c p).appended = p.appended := rfl
  have hoc : (predObsW win c p).outcome = p.outcome := rfl
  have hfi : (predObsW win c p).finish = p.finish := rfl
  have hpr : (predObsW win c p).preReturn = c.preReturn := rfl
  have hev : (predObsW win c p).events = l4s_events win c p := rfl
  have hconc : c.l4s_conc = (c.onTx && decide (c.concurrent > 0)) := by
    have : (c.op != "pair") = true := by simpa using h
    simp [Case.l4s_conc, this]
  unfold diffs
  simp only [hp, Bool.false_eq_true, if_false, hret, hst, hap, hoc, hfi, hpr, hev, l4s_bne_self_false,
    Bool.and_false, List.nil_append, List.append_nil]
  have h1 : ((if (c.onTx && decide (c.concurrent > 0)) = true then
        (p.log.map Ev.render).filter (fun e => !isFinisher e) else p.log.map Ev.render) !=
      (if (c.onTx && decide (c.concurrent > 0)) = true then
        (l4s_events win c p).filter (fun e => !isFinisher e) else l4s_events win c p)) = false := by
    rcases l4s_strip_events hwin c p with hs | ⟨hc, hs⟩
    · cases hcc : (c.onTx && decide (c.concurrent > 0))
      · have : c.l4s_conc = false := by rw [hconc, hcc]
        simp [l4s_events, this]
      · simp [hs]
    · rw [hs]; simp
  have h2 : (!(c.onTx && decide (c.concurrent > 0)) && (c.op != "iter" || c.calls.contains "close") &&
      p.inUse != (predObsW win c p).inUse) = false := by
    cases hcc : (c.onTx && decide (c.concurrent > 0))
    · have : c.l4s_conc = false := by rw [hconc, hcc]
      have : (predObsW win c p).inUse = p.inUse := by
        show (if c.l4s_conc && c.txEnd == "after" then _ else _) = _
        simp [this]
      simp [this]
    · simp
  simp only [h1, h2, Bool.false_eq_true, if_false, List.nil_append]

theorem l4s_diffs_all {win : String} (hwin : isFinisher win = true) (c : Case) :
    diffs c (predict c) (predObsW win c (predict c)) = [] := by
  by_cases h : c.op = "pair"
  · rw [l4s_predict_pair h]; exact l4s_diffs_pair win h
  · exact l4s_diffs_single hwin h _

end Sqlair.Rt
