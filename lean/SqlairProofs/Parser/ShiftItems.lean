/-
  Translation invariance, item level: parentheses, literals in lists, identifiers, column
  and type accessors, lists.
-/
import SqlairProofs.Parser.ShiftScan

namespace Sqlair

/-- the standard simplification set of the shift proofs -/
syntax "shsimp" ("[" Lean.Parser.Tactic.simpLemma,* "]")? : tactic
macro_rules
  | `(tactic| shsimp) => `(tactic| shsimp [])
  | `(tactic| shsimp [$ts,*]) => `(tactic| simp only [shiftEnv_len, shiftEnv_inp, shiftEnv_isNameChar,
      shiftEnv_isInitialNameChar, Sc.sh_pos, Sc.sh_char, Sc.sh_nextPos, Sc.sh_lineNum, Sc.sh_lineStart,
      shB_fst, shB_snd, shB_mk, shR_fst, shR_snd, shR_mk, Res.sh_ok, Res.sh_no, Res.sh_err,
      errAt_sh, colNum_sh, id_eq, shift_extract, Nat.add_lt_add_iff_right, Nat.add_right_cancel_iff,
      Nat.add_le_add_iff_right, gt_iff_lt, ge_iff_le, ne_eq, $ts,*])

/-- a result that is not the fuel artefact -/
def NoFuel {α : Type} (r : Sc × Res α) : Prop := ∀ e, r.2 = .err e → e.kind ≠ EKind.fuel

section
variable {E : Env} {k : Nat}

theorem ROK.noFuel {α : Type} {s : Sc} {r : Sc × Res α} (hr : ROK E s r) : NoFuel r :=
  fun e he => (hr.err e he).not_fuel

theorem fuel_stable_err {γ : Type} (a : Nat → γ) (P : γ → Prop) (hm : ∀ f, P (a f) → a (f+1) = a f)
    (f j : Nat) (hs : P (a f)) : a (f + j) = a f := by
  induction j with
  | zero => rfl
  | succ j ih => rw [← Nat.add_assoc, hm (f + j) (by rw [ih]; exact hs), ih]

/-! ### skipEnclosedParentheses -/

theorem parenLoop_shift (h : DecOK E) (hl : DecLocal E) (cp : Sc) (f count : Nat) {s : Sc}
    (g : Good E s) :
    parenLoop (shiftEnv k E) (cp.sh k) f count (s.sh k) = shR k id (parenLoop E cp f count s) := by
  induction f generalizing s count with
  | zero => unfold parenLoop; shsimp
  | succ f ih =>
    unfold parenLoop
    shsimp [skipStringLiteral_shift h hl g, skipComment_shift h hl g, skipChar_shift hl,
      advanceChar_shift hl]
    have hsl := skipStringLiteral_sok h g
    split
    · rcases hq : skipStringLiteral E s with ⟨s1, (x | _ | e)⟩ <;>
        simp only [shR_mk, Res.sh_ok, Res.sh_no, Res.sh_err]
      · exact ih count (hsl.elim_ok hq).1
      · split
        · exact ih count (skipComment_bok h g).good
        split
        · exact ih _ (skipChar_bok h 40 g).good
        split
        · exact ih _ (skipChar_bok h 41 g).good
        · exact ih count (advanceChar_good h g)
    · split <;> rfl

theorem parenLoop_mono (cp : Sc) (f count : Nat) (s : Sc) :
    NoFuel (parenLoop E cp f count s) → parenLoop E cp (f+1) count s = parenLoop E cp f count s := by
  induction f generalizing s count with
  | zero => intro hr; unfold parenLoop at hr; exact absurd rfl (hr _ rfl)
  | succ f ih =>
    unfold parenLoop
    simp only []
    repeat' split
    all_goals first | exact ih _ _ | exact fun _ => rfl

theorem parenLoop_fuel (h : DecOK E) {cp : Sc} (gcp : Good E cp) (count : Nat) {s : Sc} (g : Good E s)
    (hle : cp.pos ≤ s.pos) (j : Nat) :
    parenLoop E cp (E.len + j + 1) count s = parenLoop E cp (E.len + 1) count s := by
  rw [show E.len + j + 1 = E.len + 1 + j by omega]
  exact fuel_stable_err (fun f => parenLoop E cp f count s) NoFuel
    (fun f => parenLoop_mono cp f count s) _ _
    (parenLoop_lok h gcp (E.len + 1) count g hle (by omega)).toROK.noFuel

theorem skipEnclosedParentheses_shift (h : DecOK E) (hl : DecLocal E) {s : Sc} (g : Good E s) :
    skipEnclosedParentheses (shiftEnv k E) (s.sh k) = shR k id (skipEnclosedParentheses E s) := by
  unfold skipEnclosedParentheses
  shsimp [skipChar_shift hl]
  have hb := skipChar_bok h 40 g
  split
  · rw [parenLoop_shift h hl _ _ _ hb.good, parenLoop_fuel h g 1 hb.good hb.mono]
  · rfl

/-! ### skipLiteralInList -/

theorem litLoop_shift (h : DecOK E) (hl : DecLocal E) (f : Nat) {s : Sc} (g : Good E s) :
    litLoop (shiftEnv k E) f (s.sh k) = shR k id (litLoop E f s) := by
  induction f generalizing s with
  | zero => unfold litLoop; shsimp
  | succ f ih =>
    unfold litLoop
    shsimp [skipStringLiteral_shift h hl g, skipEnclosedParentheses_shift h hl g,
      skipComment_shift h hl g, advanceChar_shift hl]
    have hsl := skipStringLiteral_sok h g
    have hpar := skipEnclosedParentheses_sok h g
    split
    · rcases hq : skipStringLiteral E s with ⟨s1, (x | _ | e)⟩ <;>
        simp only [shR_mk, Res.sh_ok, Res.sh_no, Res.sh_err]
      · exact ih (hsl.elim_ok hq).1
      · rcases hq2 : skipEnclosedParentheses E s with ⟨s2, (x | _ | e)⟩ <;>
          simp only [shR_mk, Res.sh_ok, Res.sh_no, Res.sh_err]
        · exact ih (hpar.elim_ok hq2).1
        · split
          · exact ih (skipComment_bok h g).good
          split
          · rfl
          · exact ih (advanceChar_good h g)
    · rfl

theorem litLoop_mono (f : Nat) (s : Sc) :
    NoFuel (litLoop E f s) → litLoop E (f+1) s = litLoop E f s := by
  induction f generalizing s with
  | zero => intro hr; unfold litLoop at hr; exact absurd rfl (hr _ rfl)
  | succ f ih =>
    unfold litLoop
    simp only []
    repeat' split
    all_goals first | exact ih _ | exact fun _ => rfl

theorem skipLiteralInList_shift (h : DecOK E) (hl : DecLocal E) {s : Sc} (g : Good E s) :
    skipLiteralInList (shiftEnv k E) (s.sh k) = shR k id (skipLiteralInList E s) := by
  unfold skipLiteralInList
  rw [shiftEnv_len, litLoop_shift h hl _ g, show E.len + k + 1 = E.len + 1 + k by omega]
  rw [fuel_stable_err (fun f => litLoop E f s) NoFuel (fun f => litLoop_mono f s) _ _
    (litLoop_rok h (E.len + 1) g (by omega)).noFuel]

/-! ### identifiers -/

theorem parseIdentifier_shift (h : DecOK E) (hl : DecLocal E) {s : Sc} (g : Good E s) :
    parseIdentifier (shiftEnv k E) (s.sh k) = shR k id (parseIdentifier E s) := by
  unfold parseIdentifier
  rw [skipStringLiteral_shift h hl g, nameLoop_getD_shift h hl g]
  rcases skipStringLiteral E s with ⟨s1, (x | _ | e)⟩ <;> shsimp
  split <;> rfl

theorem parseIdentifierAsterisk_shift (h : DecOK E) (hl : DecLocal E) {s : Sc} (g : Good E s) :
    parseIdentifierAsterisk (shiftEnv k E) (s.sh k) = shR k id (parseIdentifierAsterisk E s) := by
  unfold parseIdentifierAsterisk
  shsimp [skipChar_shift hl, parseIdentifier_shift h hl g]
  split <;> rfl

theorem parseColumnAccessor_shift (h : DecOK E) (hl : DecLocal E) {s : Sc} (g : Good E s) :
    parseColumnAccessor (shiftEnv k E) (s.sh k) = shR k id (parseColumnAccessor E s) := by
  unfold parseColumnAccessor
  shsimp [skipChar_shift hl, parseIdentifier_shift h hl g]
  split
  · rfl
  have hid := parseIdentifier_rok h g
  rcases hq : parseIdentifier E s with ⟨s1, (nm | _ | e)⟩ <;> shsimp [skipChar_shift hl]
  have g1 : Good E s1 := (hid.elim' hq).1
  have hb := skipChar_bok h 46 g1
  rw [skipEnclosedParentheses_shift h hl g1]
  split
  · rw [parseIdentifierAsterisk_shift h hl hb.good]
    rcases parseIdentifierAsterisk E (skipChar E 46 s1).1 with ⟨s2, (x | _ | e)⟩ <;> shsimp
  · rcases skipEnclosedParentheses E s1 with ⟨s2, (x | _ | e)⟩ <;> shsimp

/-! ### type accessors -/

theorem parseSliceAccessor_shift (h : DecOK E) (hl : DecLocal E) {s : Sc} (g : Good E s) :
    parseSliceAccessor (shiftEnv k E) (s.sh k) = shR k id (parseSliceAccessor E s) := by
  unfold parseSliceAccessor
  rw [parseTypeName_shift h hl g]
  obtain ⟨hp1, _, _⟩ := parseTypeName_post h g
  rcases hq : parseTypeName E s with ⟨s1, _ | nm⟩ <;> simp only []
  · rfl
  rw [hq] at hp1
  have g1 : Good E s1 := hp1.good
  have hb1 := skipChar_bok h 91 g1
  have hp2 := skipBlanks_post h hb1.good
  have hb2 := skipChar_bok h 58 hp2.good
  have hp3 := skipBlanks_post h hb2.good
  shsimp [skipChar_shift hl, skipBlanks_shift h hl hb1.good, skipBlanks_shift h hl hb2.good]
  split
  · rfl
  split
  · rfl
  split <;> rfl

@[simp] theorem PErr.sh_mk (l c : Nat) (kd : EKind) :
    PErr.sh k { line := l, col := c, kind := kd } = { line := l + k, col := c, kind := kd } := rfl

theorem parseTypeAndMember_shift (h : DecOK E) (hl : DecLocal E) {s : Sc} (g : Good E s) :
    parseTypeAndMember (shiftEnv k E) (s.sh k) = shR k id (parseTypeAndMember E s) := by
  unfold parseTypeAndMember
  rw [parseTypeName_shift h hl g]
  obtain ⟨hp1, _, _⟩ := parseTypeName_post h g
  rcases hq : parseTypeName E s with ⟨s1, _ | nm⟩ <;> simp only []
  · rfl
  rw [hq] at hp1
  have g1 : Good E s1 := hp1.good
  have hb1 := skipChar_bok h 46 g1
  shsimp [skipChar_shift hl, parseIdentifierAsterisk_shift h hl hb1.good, PErr.sh_mk]
  split
  · rfl
  rcases parseIdentifierAsterisk E (skipChar E 46 s1).1 with ⟨s2, (x | _ | e)⟩ <;> shsimp

theorem parseTargetType_shift (h : DecOK E) (hl : DecLocal E) {s : Sc} (g : Good E s) :
    parseTargetType (shiftEnv k E) (s.sh k) = shR k id (parseTargetType E s) := by
  unfold parseTargetType
  have hb := skipChar_bok h 38 g
  shsimp [skipChar_shift hl, parseSliceAccessor_shift h hl hb.good]
  split
  · have hsl := (parseSliceAccessor_rok h hb.good).1
    rcases hq : parseSliceAccessor E (skipChar E 38 s).1 with ⟨s1, (x | _ | e)⟩ <;> shsimp
    rw [parseTypeAndMember_shift h hl (hsl.elim' hq).1]
    rcases parseTypeAndMember E s1 with ⟨s2, (x | _ | e)⟩ <;> shsimp
  · rfl

theorem parseInputMemberAccessor_shift (h : DecOK E) (hl : DecLocal E) {s : Sc} (g : Good E s) :
    parseInputMemberAccessor (shiftEnv k E) (s.sh k) = shR k id (parseInputMemberAccessor E s) := by
  unfold parseInputMemberAccessor
  have hb := skipChar_bok h 36 g
  shsimp [skipChar_shift hl, parseTypeAndMember_shift h hl hb.good]
  split <;> rfl

/-! ### lists -/

theorem listLoop_shift (h : DecOK E) (hl : DecLocal E) {α : Type} {fn fn' : Sc → Sc × Res α}
    (hfn : ∀ s, Good E s → ROK E s (fn s))
    (hsh : ∀ s, Good E s → fn' (s.sh k) = shR k id (fn s))
    (cp : Sc) (f : Nat) (first : Bool) (acc : List α) {s : Sc} (g : Good E s) :
    listLoop (shiftEnv k E) fn' (cp.sh k) f first acc (s.sh k) =
      shR k id (listLoop E fn cp f first acc s) := by
  induction f generalizing s first acc with
  | zero => unfold listLoop; shsimp
  | succ f ih =>
    unfold listLoop
    have hp1 := skipBlanks_post h g
    have hr := hfn _ hp1.good
    shsimp [skipBlanks_shift h hl g, hsh _ hp1.good]
    rcases hq : fn (skipBlanks E s) with ⟨s2, (x | _ | e)⟩ <;> shsimp
    · have g2 : Good E s2 := (hr.elim' hq).1
      have hp3 := skipBlanks_post h g2
      shsimp [skipBlanks_shift h hl g2, skipChar_shift hl]
      split
      · rfl
      split
      · exact ih _ _ (skipChar_bok h 44 hp3.good).good
      · rfl
    · split <;> rfl

theorem listLoop_mono {α : Type} (fn : Sc → Sc × Res α) (cp : Sc) (f : Nat) (first : Bool)
    (acc : List α) (s : Sc) :
    NoFuel (listLoop E fn cp f first acc s) →
      listLoop E fn cp (f+1) first acc s = listLoop E fn cp f first acc s := by
  induction f generalizing s first acc with
  | zero => intro hr; unfold listLoop at hr; exact absurd rfl (hr _ rfl)
  | succ f ih =>
    unfold listLoop
    simp only []
    repeat' split
    all_goals first | exact ih _ _ _ | exact fun _ => rfl

theorem parseList_shift (h : DecOK E) (hl : DecLocal E) {α : Type} {fn fn' : Sc → Sc × Res α}
    (hfn : ∀ s, Good E s → ROK E s (fn s))
    (hsh : ∀ s, Good E s → fn' (s.sh k) = shR k id (fn s)) {s : Sc} (g : Good E s) :
    parseList (shiftEnv k E) fn' (s.sh k) = shR k id (parseList E fn s) := by
  unfold parseList
  have hb := skipChar_bok h 40 g
  shsimp [skipChar_shift hl]
  split
  · rw [listLoop_shift h hl hfn hsh _ _ _ _ hb.good, show E.len + k + 1 = E.len + 1 + k by omega,
      fuel_stable_err (fun f => listLoop E fn s f true [] (skipChar E 40 s).1) NoFuel
        (fun f => listLoop_mono fn s f true [] _) _ _
        (listLoop_lok h hfn g (E.len + 1) true [] hb.good hb.mono (by omega)).toROK.noFuel]
  · rfl

theorem parseColumns_shift (h : DecOK E) (hl : DecLocal E) {s : Sc} (g : Good E s) :
    parseColumns (shiftEnv k E) (s.sh k) = ((parseColumns E s).1.sh k, (parseColumns E s).2) := by
  unfold parseColumns
  rw [parseColumnAccessor_shift h hl g]
  have hc := parseColumnAccessor_rok h g
  have hlist : ∀ s1, Good E s1 →
      parseList (shiftEnv k E) (parseColumnAccessor (shiftEnv k E)) (s1.sh k) =
        shR k id (parseList E (parseColumnAccessor E) s1) := fun s1 g1 =>
    parseList_shift h hl (fun s g => parseColumnAccessor_rok h g)
      (fun s g => parseColumnAccessor_shift h hl g) g1
  rcases hq : parseColumnAccessor E s with ⟨s1, (x | _ | e)⟩ <;> shsimp
  all_goals
    rw [hlist s1 (hc.elim' hq).1]
    rcases parseList E (parseColumnAccessor E) s1 with ⟨s2, (x | _ | e)⟩ <;> shsimp

theorem parseTargetTypes_shift (h : DecOK E) (hl : DecLocal E) {s : Sc} (g : Good E s) :
    parseTargetTypes (shiftEnv k E) (s.sh k) = shR k id (parseTargetTypes E s) := by
  unfold parseTargetTypes
  rw [parseTargetType_shift h hl g]
  have ht := parseTargetType_rok h g
  rcases hq : parseTargetType E s with ⟨s1, (x | _ | e)⟩ <;> shsimp
  rw [parseList_shift h hl (fun s g => parseTargetType_rok h g)
    (fun s g => parseTargetType_shift h hl g) (ht.elim' hq).1]
  rcases parseList E (parseTargetType E) s1 with ⟨s2, (x | _ | e)⟩ <;> shsimp

end
end Sqlair
