//go:build !verif

package main

import (
	"errors"
	"fmt"

	"github.com/canonical/sqlair"
)

// Degraded mode (DESIGN 2.2): the hook files of the repository no longer compile against
// the working tree, the harness is built without the verif tag and observes through the
// public API only.
const hooksAvailable = false

type hookSeg struct {
	Kind    string
	Raw     string
	Columns [][3]any
	Types   [][2]string
	Values  []hookVal
}

type hookVal struct {
	Literal bool
	Text    string
	Type    string
	Member  string
}

var errNoHooks = errors.New("no hooks")

func hookParse(q string) ([]hookSeg, error) { return nil, errNoHooks }

type hookCacheStats struct {
	Statements, DBs int
	Pairs           [][2]uint64
	SQL             []string
}

func hookGetCacheStats() hookCacheStats { return hookCacheStats{} }

// without the hooks the cache ids are not visible: identify handles by address
func hookStatementID(s *sqlair.Statement) uint64 { var x uint64; fmt.Sscanf(fmt.Sprintf("%p", s), "0x%x", &x); return x }
func hookDBID(d *sqlair.DB) uint64               { var x uint64; fmt.Sscanf(fmt.Sprintf("%p", d), "0x%x", &x); return x }
