/-
  Parser nodes never carry a member / column that ends with `*` (other than `*` itself):
  the gap between the parser model and the hypothesis `NodeNoStarEnd` of
  `bindTypes_no_wildcard` (`SqlairProofs/Bind/Tag.lean`).

  The payload thread runs parallel to the `Good`/position thread of `SqlairProofs/Parser/*`:
  for every scanning function we record what the byte just before the resulting scanner
  position is (a closing quote, a `)`, the last byte of a name rune), and for every parse
  function what that says about the `Bytes` it extracts.

  It needs one more fact about the rune decoder than `DecOK`: `DecStarOK` below, proved for
  the Go-faithful `decodeRune`.
-/
import SqlairProofs.Parser.Main
import SqlairProofs.Bind.Tag

namespace Sqlair

/-- What the payload proofs assume about the rune decoder, in addition to `DecOK`.
    Proved for the Go-faithful `decodeRune` below (`decodeRune_DecStarOK`). -/
structure DecStarOK (E : Env) : Prop where
  /-- if the last byte of the encoding of the rune at `p` is `*` then the rune is `*` -/
  last_star : ∀ p, p < E.len → bAt E.inp (p + (E.dec E.inp p).2 - 1) = 42 → (E.dec E.inp p).1 = 42
  /-- an ASCII rune is encoded as the single byte of the same value -/
  ascii : ∀ p, p < E.len → (E.dec E.inp p).1 < 128 →
    (E.dec E.inp p).2 = 1 ∧ bAt E.inp p = (E.dec E.inp p).1

theorem decodeRune_DecStarOK (inp : Bytes) (letter digit : Nat → Bool) :
    DecStarOK { inp := inp, dec := decodeRune, letter := letter, digit := digit } where
  last_star := fun p hp h42 => by
    change bAt inp (p + (decodeRune inp p).2 - 1) = 42 at h42
    show (decodeRune inp p).1 = 42
    rcases decodeRune_cases inp p hp with h | h | h
    · simp only [h.1] at h42 ⊢
      rw [Nat.add_sub_cancel] at h42; exact h42
    · simp only [h.1] at h42
      rw [Nat.add_sub_cancel] at h42; omega
    · have := h.2.2.2 (p + (decodeRune inp p).2 - 1) (by omega) (by omega)
      omega
  ascii := fun p hp hlt => by
    change (decodeRune inp p).1 < 128 at hlt
    show (decodeRune inp p).2 = 1 ∧ bAt inp p = (decodeRune inp p).1
    rcases decodeRune_cases inp p hp with h | h | h
    · simp only [h.1]; exact ⟨trivial, trivial⟩
    · simp only [h.1] at hlt; omega
    · omega

/-! ### payload predicates -/

/-- an identifier is `*` or does not end with the byte `*` -/
def IdentOK (b : Bytes) : Prop := b = star ∨ NoStarEnd b
def ColOK (c : Col) : Prop := IdentOK c.column
def AccOK (a : Acc) : Prop := IdentOK a.member
def SegOK (s : Seg) : Prop := (∀ a ∈ s.types, AccOK a) ∧ (∀ c ∈ s.cols, ColOK c)

/-- payload contract of a `Sc × Res α` parse function: what it returns on success -/
def ResP {α : Type} (P : α → Prop) (r : Sc × Res α) : Prop := ∀ x, r.2 = .ok x → P x

theorem ResP.of_err {α : Type} {P : α → Prop} {s : Sc} {e : PErr} : ResP P (s, .err e) :=
  fun _ hx => by cases hx

theorem ResP.of_no {α : Type} {P : α → Prop} {s : Sc} : ResP (α := α) P (s, .no) :=
  fun _ hx => by cases hx

theorem ResP.of_ok {α : Type} {P : α → Prop} {s : Sc} {x : α} (h : P x) : ResP P (s, .ok x) :=
  fun _ hx => by cases hx; exact h

theorem ResP.elim {α : Type} {P : α → Prop} {r : Sc × Res α} (hr : ResP P r) {s1 : Sc} {x : α}
    (heq : r = (s1, .ok x)) : P x := by
  subst heq; exact hr x rfl

/-! ### bytes -/

theorem noStarEnd_empty : NoStarEnd #[] := by
  intro h; cases h

/-- a slice of the input that ends at `b` does not end with `*` if the byte before `b` is
    not `*` (an empty slice does not end with anything) -/
theorem noStarEnd_extract (inp : Bytes) (a b : Nat) (hb : b ≤ inp.size)
    (h : a < b → bAt inp (b - 1) ≠ 42) : NoStarEnd (inp.extract a b) := by
  intro hback
  have hg := getD_of_back? hback
  by_cases hab : a < b
  · apply h hab
    have hsz : (inp.extract a b).size = b - a := by
      rw [Array.size_extract]; omega
    rw [hsz] at hg
    unfold bAt
    have : (inp.extract a b).getD (b - a - 1) 0 = inp.getD (b - 1) 0 := by
      rw [Array.getD_eq_getD_getElem?, Array.getD_eq_getD_getElem?, Array.getElem?_extract]
      rw [if_pos (by omega)]
      congr 2
      omega
    rw [← this, hg]; rfl
  · have hsz : (inp.extract a b).size = 0 := by
      rw [Array.size_extract]; omega
    have : inp.extract a b = #[] := Array.eq_empty_of_size_eq_zero hsz
    rw [this] at hback
    cases hback

section
variable {E : Env}

/-! ### advanceChar, skipChar -/

/-- the byte just before the scanner -/
@[inline] def prevByte (E : Env) (s : Sc) : Nat := bAt E.inp (s.pos - 1)

/-- after advancing over a rune other than `*`, the byte before the scanner is not `*` -/
theorem advanceChar_prev_star (hs : DecStarOK E) {s : Sc} (g : Good E s) (hp : s.pos < E.len)
    (h42 : prevByte E (advanceChar E s) = 42) : s.char = 42 := by
  unfold prevByte at h42
  obtain ⟨hn, hc⟩ := g.next hp
  rw [advanceChar_pos, hn] at h42
  rw [hc]
  exact hs.last_star s.pos hp h42

/-- after advancing over an ASCII rune, the byte before the scanner is that rune -/
theorem advanceChar_prev_ascii (hs : DecStarOK E) {s : Sc} (g : Good E s) (hp : s.pos < E.len)
    (hc : s.char < 128) : prevByte E (advanceChar E s) = s.char := by
  unfold prevByte
  obtain ⟨hn, hch⟩ := g.next hp
  obtain ⟨hw, hb⟩ := hs.ascii s.pos hp (hch ▸ hc)
  rw [advanceChar_pos, hn, hw, Nat.add_sub_cancel, hb, hch]

theorem skipChar_prev (hs : DecStarOK E) {c : Nat} (hc : c < 128) {s : Sc} (g : Good E s)
    (ht : (skipChar E c s).2 = true) : prevByte E (skipChar E c s).1 = c := by
  obtain ⟨hp, hch, heq⟩ := skipChar_true ht
  rw [heq, advanceChar_prev_ascii hs g hp (hch ▸ hc), hch]

/-! ### names -/

theorem isNameChar_star (hC : E.letter 42 = false ∧ E.digit 42 = false) : isNameChar E 42 = false := by
  unfold isNameChar
  rw [hC.1, hC.2]; rfl

/-- the name loop either does not move or stops right after a rune that is not `*` -/
theorem nameLoop_prev (h : DecOK E) (hs : DecStarOK E) (hC : E.letter 42 = false ∧ E.digit 42 = false)
    (f : Nat) {s s' : Sc} (g : Good E s) (hl : nameLoop E f s = some s') :
    s' = s ∨ prevByte E s' ≠ 42 := by
  induction f generalizing s with
  | zero => unfold nameLoop at hl; cases hl
  | succ f ih =>
    unfold nameLoop at hl
    split at hl
    · next hp =>
      rcases ih (advanceChar_good h g) hl with he | hne
      · right
        intro h42
        rw [he] at h42
        have := advanceChar_prev_star hs g hp.1 h42
        rw [this, isNameChar_star hC] at hp
        cases hp.2
      · exact .inr hne
    · cases hl; exact .inl rfl

/-! ### string literals -/

theorem skipCharFindLoop_prev (h : DecOK E) (hs : DecStarOK E) {c : Nat} (hc : c < 128) (f : Nat)
    {s s' : Sc} (g : Good E s) (hl : skipCharFindLoop E c f s = some (some s')) :
    prevByte E s' = c := by
  induction f generalizing s with
  | zero => unfold skipCharFindLoop at hl; cases hl
  | succ f ih =>
    unfold skipCharFindLoop at hl
    split at hl
    · next hp =>
      split at hl
      · next hch =>
        cases hl
        rw [advanceChar_prev_ascii hs g hp (hch ▸ hc), hch]
      · exact ih (advanceChar_good h g) hl
    · cases hl

theorem skipCharFind_prev (h : DecOK E) (hs : DecStarOK E) {c : Nat} (hc : c < 128)
    {s : Sc} (g : Good E s) (ht : (skipCharFind E c s).2 = true) :
    prevByte E (skipCharFind E c s).1 = c := by
  unfold skipCharFind at ht ⊢
  split
  · next s' heq => exact skipCharFindLoop_prev h hs hc _ g heq
  · next hne =>
    split at ht
    · next s' heq => exact (hne s' heq).elim
    · cases ht

theorem strLitLoop_prev (h : DecOK E) (hs : DecStarOK E) {c : Nat} (hc : c < 128) (f : Nat) (b : Bool)
    {s s' : Sc} (g : Good E s) (hl : strLitLoop E c f b s = some (some s')) :
    prevByte E s' = c := by
  induction f generalizing s b with
  | zero => unfold strLitLoop at hl; cases hl
  | succ f ih =>
    unfold strLitLoop at hl
    simp only [] at hl
    have hb : BOK E s (skipCharFind E c s) := skipCharFind_bok h c g
    split at hl
    · next hr =>
      split at hl
      · cases hl
        exact skipCharFind_prev h hs hc g hr
      · exact ih _ hb.good hl
    · cases hl

/-- scanner contract of a `Sc × Res α` function: what the byte before the scanner is on success -/
def PrevP {α : Type} (Q : Nat → Prop) (E : Env) (r : Sc × Res α) : Prop :=
  ∀ x, r.2 = .ok x → Q (prevByte E r.1)

theorem PrevP.elim {α : Type} {Q : Nat → Prop} {r : Sc × Res α} (hr : PrevP Q E r) {s1 : Sc} {x : α}
    (heq : r = (s1, .ok x)) : Q (prevByte E s1) := by
  subst heq; exact hr x rfl

/-- a skipped string literal ends with its (ASCII) closing quote -/
theorem skipStringLiteral_prev (h : DecOK E) (hs : DecStarOK E) {s : Sc} (g : Good E s) :
    PrevP (fun b => b = 34 ∨ b = 39) E (skipStringLiteral E s) := by
  unfold skipStringLiteral
  extract_lets c r r'
  have hb : BOK E s r' ∧ (r'.2 = true → c = 34 ∨ c = 39) := by
    unfold r'
    split
    · next ht => exact ⟨skipChar_bok h 34 g, fun _ => .inl (skipChar_true ht).2.1⟩
    · exact ⟨skipChar_bok h 39 g, fun ht => .inr (skipChar_true ht).2.1⟩
  clear_value r'
  split
  · next hr =>
    have hc := hb.2 hr
    split
    · next s' hloop =>
      intro _ _
      have := strLitLoop_prev h hs (c := c) (by omega) _ _ hb.1.good hloop
      show prevByte E s' = 34 ∨ prevByte E s' = 39
      rw [this]; exact hc
    · intro _ hx; cases hx
    · intro _ hx; cases hx
  · intro _ hx; cases hx

/-! ### enclosed parentheses -/

theorem parenLoop_prev (h : DecOK E) (hs : DecStarOK E) (cp : Sc) (f count : Nat) {s s' : Sc} {u : Unit}
    (g : Good E s) (h0 : count = 0 → prevByte E s = 41)
    (heq : parenLoop E cp f count s = (s', .ok u)) : prevByte E s' = 41 := by
  induction f generalizing s count with
  | zero => unfold parenLoop at heq; cases heq
  | succ f ih =>
    unfold parenLoop at heq
    split at heq
    · next hc =>
      have hcount : ¬ count = 0 := by omega
      have hsl := skipStringLiteral_sok h g
      split at heq
      · cases heq
      · next heq1 =>
        exact ih count (hsl.elim_ok heq1).1 (fun h0' => (hcount h0').elim) heq
      · simp only [] at heq
        split at heq
        · next ht =>
          exact ih count (skipComment_bok h g).good (fun h0' => (hcount h0').elim) heq
        split at heq
        · next ht =>
          exact ih _ (skipChar_bok h 40 g).good (fun h0' => by omega) heq
        split at heq
        · next ht =>
          exact ih _ (skipChar_bok h 41 g).good (fun _ => skipChar_prev hs (by omega) g ht) heq
        exact ih count (advanceChar_good h g) (fun h0' => (hcount h0').elim) heq
    · split at heq
      · cases heq
      · next hc =>
        cases heq
        exact h0 (by omega)

/-- a skipped parenthesised group ends with `)` -/
theorem skipEnclosedParentheses_prev (h : DecOK E) (hs : DecStarOK E) {s s1 : Sc} {u : Unit}
    (g : Good E s) (heq : skipEnclosedParentheses E s = (s1, .ok u)) : prevByte E s1 = 41 := by
  unfold skipEnclosedParentheses at heq
  simp only [] at heq
  split at heq
  · exact parenLoop_prev h hs s _ 1 (skipChar_bok h 40 g).good (fun h0 => by omega) heq
  · cases heq

/-! ### identifiers -/

theorem IdentOK.star : IdentOK star := .inl rfl

/-- hypotheses shared by all payload lemmas -/
structure PayHyp (E : Env) : Prop where
  dec : DecOK E
  decStar : DecStarOK E
  cls : E.letter 42 = false ∧ E.digit 42 = false

theorem parseIdentifier_pay (H : PayHyp E) {s : Sc} (g : Good E s) :
    ResP NoStarEnd (parseIdentifier E s) := by
  have h := H.dec
  unfold parseIdentifier
  have hsl := skipStringLiteral_sok h g
  have hpv := skipStringLiteral_prev h H.decStar g
  split
  · exact ResP.of_err
  · next s1 u heq =>
    obtain ⟨g1, hlt⟩ := hsl.elim_ok heq
    have hq := hpv.elim heq
    refine ResP.of_ok (noStarEnd_extract _ _ _ g1.pos_le (fun _ => ?_))
    show prevByte E s1 ≠ 42
    omega
  · extract_lets s2
    have hp2 : Good E s2 ∧ (s2 = s ∨ prevByte E s2 ≠ 42) := by
      unfold s2
      obtain ⟨s', hs', hp', _⟩ := nameLoop_spec h (E.len + 1) g (by omega)
      rw [hs']
      exact ⟨hp'.good, nameLoop_prev h H.decStar H.cls _ g hs'⟩
    clear_value s2
    split
    · next hgt =>
      refine ResP.of_ok (noStarEnd_extract _ _ _ hp2.1.pos_le (fun _ => ?_))
      rcases hp2.2 with he | hne
      · rw [he] at hgt; omega
      · exact hne
    · exact ResP.of_no

theorem parseIdentifierAsterisk_pay (H : PayHyp E) {s : Sc} (g : Good E s) :
    ResP IdentOK (parseIdentifierAsterisk E s) := by
  unfold parseIdentifierAsterisk
  extract_lets r
  split
  · exact ResP.of_ok IdentOK.star
  · exact fun x hx => .inr (parseIdentifier_pay H g x hx)

theorem parseColumnAccessor_pay (H : PayHyp E) {s : Sc} (g : Good E s) :
    ResP ColOK (parseColumnAccessor E s) := by
  have h := H.dec
  unfold parseColumnAccessor
  extract_lets r
  split
  · exact ResP.of_ok IdentOK.star
  have hid := parseIdentifier_rok h g
  have hidp := parseIdentifier_pay H g
  split
  · exact ResP.of_err
  · exact ResP.of_no
  · next s1 id heq =>
    obtain ⟨g1, hle1⟩ := hid.elim' heq
    have hidok : NoStarEnd id := hidp.elim heq
    extract_lets r1
    have hb1 : BOK E s1 r1 := skipChar_bok h 46 g1
    split
    · have hia := parseIdentifierAsterisk_pay H hb1.good
      split
      · exact ResP.of_err
      · next heq2 => exact ResP.of_ok (hia.elim heq2)
      · exact ResP.of_no
    · have hpar := skipEnclosedParentheses_sok h g1
      split
      · exact ResP.of_err
      · next s2 u heq2 =>
        obtain ⟨g2, hle2⟩ := hpar.elim' heq2
        have hq := skipEnclosedParentheses_prev h H.decStar g1 heq2
        refine ResP.of_ok (.inr (noStarEnd_extract _ _ _ g2.pos_le (fun _ => ?_)))
        show prevByte E s2 ≠ 42
        omega
      · exact ResP.of_ok (.inr hidok)

/-! ### type accessors -/

theorem parseTypeAndMember_pay (H : PayHyp E) {s : Sc} (g : Good E s) :
    ResP AccOK (parseTypeAndMember E s) := by
  have h := H.dec
  unfold parseTypeAndMember
  extract_lets identifierCol
  obtain ⟨hp1, _, _⟩ := parseTypeName_post h g
  split
  · next s1 id heq =>
    rw [heq] at hp1
    have g1 : Good E s1 := hp1.good
    extract_lets r
    have hb : BOK E s1 r := skipChar_bok h 46 g1
    split
    · exact ResP.of_err
    · have hia := parseIdentifierAsterisk_pay H hb.good
      split
      · exact ResP.of_err
      · exact ResP.of_err
      · next heq2 => exact ResP.of_ok (hia.elim heq2)
  · exact ResP.of_no

theorem parseTargetType_pay (H : PayHyp E) {s : Sc} (g : Good E s) :
    ResP AccOK (parseTargetType E s) := by
  have h := H.dec
  unfold parseTargetType
  extract_lets r
  have hb : BOK E s r := skipChar_bok h 38 g
  split
  · obtain ⟨hsl, _⟩ := parseSliceAccessor_rok h hb.good
    split
    · exact ResP.of_err
    · exact ResP.of_err
    · next s1 heq =>
      obtain ⟨g1, _⟩ := hsl.elim' heq
      have htm := parseTypeAndMember_pay H g1
      split
      · exact ResP.of_no
      · exact htm
  · exact ResP.of_no

theorem parseInputMemberAccessor_pay (H : PayHyp E) {s : Sc} (g : Good E s) :
    ResP AccOK (parseInputMemberAccessor E s) := by
  unfold parseInputMemberAccessor
  extract_lets r
  have hb : BOK E s r := skipChar_bok H.dec 36 g
  split
  · exact parseTypeAndMember_pay H hb.good
  · exact ResP.of_no

/-! ### lists -/

theorem listLoop_pay (h : DecOK E) {α : Type} {P : α → Prop} {fn : Sc → Sc × Res α}
    (hfn : ∀ s, Good E s → ROK E s (fn s)) (hfp : ∀ s, Good E s → ResP P (fn s)) (cp : Sc)
    (f : Nat) (first : Bool) (acc : List α) (hacc : ∀ x ∈ acc, P x) {s : Sc} (g : Good E s) :
    ResP (fun xs => ∀ x ∈ xs, P x) (listLoop E fn cp f first acc s) := by
  induction f generalizing s first acc with
  | zero => unfold listLoop; exact ResP.of_err
  | succ f ih =>
    unfold listLoop
    extract_lets s1
    have hp1 : Post E s s1 := skipBlanks_post h g
    have hr := hfn s1 hp1.good
    have hrp := hfp s1 hp1.good
    split
    · next s2 x heq =>
      obtain ⟨g2, _⟩ := hr.elim' heq
      have hx : P x := hrp.elim heq
      have hacc' : ∀ y ∈ acc ++ [x], P y := by
        intro y hy
        rcases List.mem_append.mp hy with hy | hy
        · exact hacc y hy
        · rw [List.mem_singleton] at hy; rw [hy]; exact hx
      extract_lets s3 r1 r2
      have hp3 : Post E s2 s3 := skipBlanks_post h g2
      have hb2 : BOK E s3 r2 := skipChar_bok h 44 hp3.good
      split
      · exact ResP.of_ok hacc'
      split
      · exact ih false _ hacc' hb2.good
      · exact ResP.of_err
    · exact ResP.of_err
    · split
      · exact ResP.of_no
      · exact ResP.of_err

theorem parseList_pay (h : DecOK E) {α : Type} {P : α → Prop} {fn : Sc → Sc × Res α}
    (hfn : ∀ s, Good E s → ROK E s (fn s)) (hfp : ∀ s, Good E s → ResP P (fn s))
    {s : Sc} (g : Good E s) : ResP (fun xs => ∀ x ∈ xs, P x) (parseList E fn s) := by
  unfold parseList
  extract_lets r
  have hb : BOK E s r := skipChar_bok h 40 g
  split
  · exact listLoop_pay h hfn hfp s _ true [] (fun _ hx => by cases hx) hb.good
  · exact ResP.of_no

theorem parseColumns_pay (H : PayHyp E) {s : Sc} (g : Good E s) :
    ∀ cs b, (parseColumns E s).2 = some (cs, b) → ∀ c ∈ cs, ColOK c := by
  have h := H.dec
  unfold parseColumns
  have hc := parseColumnAccessor_rok h g
  have hcp := parseColumnAccessor_pay H g
  split
  · next s1 c heq =>
    intro cs b hx c' hc'
    cases hx
    rw [List.mem_singleton] at hc'; rw [hc']
    exact hcp.elim heq
  · next s1 res _ heq =>
    obtain ⟨g1, _⟩ := hc.elim' heq
    have hl := parseList_pay h (fun s g => parseColumnAccessor_rok h g)
      (fun s g => parseColumnAccessor_pay H g) g1
    split
    · next s2 cs' heq2 =>
      intro cs b hx
      cases hx
      exact hl.elim heq2
    · intro cs b hx; cases hx

theorem parseTargetTypes_pay (H : PayHyp E) {s : Sc} (g : Good E s) :
    ResP (fun tb => ∀ t ∈ tb.1, AccOK t) (parseTargetTypes E s) := by
  have h := H.dec
  unfold parseTargetTypes
  have ht := parseTargetType_rok h g
  have htp := parseTargetType_pay H g
  split
  · exact ResP.of_err
  · next s1 t heq =>
    refine ResP.of_ok (fun t' ht' => ?_)
    rw [List.mem_singleton] at ht'; rw [ht']
    exact htp.elim heq
  · next heq =>
    obtain ⟨g1, _⟩ := ht.elim' heq
    have hl := parseList_pay h (fun s g => parseTargetType_rok h g)
      (fun s g => parseTargetType_pay H g) g1
    split
    · exact ResP.of_err
    · next heq2 => exact ResP.of_ok (hl.elim heq2)
    · exact ResP.of_no

/-! ### expressions -/

private theorem forall_mem_nil {α : Type} {P : α → Prop} : ∀ x ∈ ([] : List α), P x :=
  fun _ hx => by cases hx

private theorem forall_mem_singleton {α : Type} {P : α → Prop} {a : α} (h : P a) : ∀ x ∈ [a], P x := by
  intro x hx
  rw [List.mem_singleton] at hx; rw [hx]; exact h

theorem parseOutputExpr_pay (H : PayHyp E) {s : Sc} (g : Good E s) :
    ResP SegOK (parseOutputExpr E s) := by
  have h := H.dec
  unfold parseOutputExpr
  have ht := parseTargetType_xok h g
  have htp := parseTargetType_pay H g
  split
  · exact ResP.of_err
  · next heq => exact ResP.of_ok ⟨forall_mem_singleton (htp.elim heq), forall_mem_nil⟩
  · next cp heq =>
    have hcp : cp = s := ht.elim_no heq
    subst hcp
    have hpc := parseColumns_post h g
    have hpcp := parseColumns_pay H g
    split
    · exact ResP.of_no
    · next s2 cols parenCols heq2 =>
      rw [heq2] at hpc hpcp
      have g2 : Good E s2 := hpc.good
      have hcols : ∀ c ∈ cols, ColOK c := hpcp cols parenCols rfl
      extract_lets s3 r s4
      have hp3 : Post E s2 s3 := skipBlanks_post h g2
      have hb : BOK E s3 r := skipString_AS_bok hp3.good
      have hp4 : Post E r.1 s4 := skipBlanks_post h hb.good
      split
      · exact ResP.of_no
      · have htt := parseTargetTypes_pay H hp4.good
        split
        · exact ResP.of_err
        · exact ResP.of_no
        · next s5 types parenTypes heq3 =>
          have htypes : ∀ t ∈ types, AccOK t := htt.elim heq3
          split
          · exact ResP.of_err
          split
          · exact ResP.of_err
          split
          · exact ResP.of_err
          · exact ResP.of_ok ⟨htypes, hcols⟩

theorem parseSliceInputExpr_pay {s : Sc} : ResP SegOK (parseSliceInputExpr E s) := by
  unfold parseSliceInputExpr
  extract_lets r
  split
  · exact ResP.of_no
  · split
    · exact ResP.of_err
    · exact ResP.of_ok ⟨forall_mem_singleton (.inr noStarEnd_empty), forall_mem_nil⟩
    · exact ResP.of_no

theorem parseMemberInputExpr_pay (H : PayHyp E) {s : Sc} (g : Good E s) :
    ResP SegOK (parseMemberInputExpr E s) := by
  unfold parseMemberInputExpr
  have hm := parseInputMemberAccessor_pay H g
  split
  · exact ResP.of_err
  · exact ResP.of_no
  · next heq =>
    split
    · exact ResP.of_err
    · exact ResP.of_ok ⟨forall_mem_singleton (hm.elim heq), forall_mem_nil⟩

theorem parseComplexInsertValues_pay (H : PayHyp E) {s : Sc} (g : Good E s) :
    ResP (fun ts => ∀ t ∈ ts, AccOK t) (parseComplexInsertValues E s) := by
  have h := H.dec
  unfold parseComplexInsertValues
  have hl := parseList_pay h (fun s g => parseInputMemberAccessor_rok h g)
    (fun s g => parseInputMemberAccessor_pay H g) g
  split
  · exact ResP.of_err
  · next heq => exact ResP.of_ok (hl.elim heq)
  · split
    · exact ResP.of_err
    · exact ResP.of_no

theorem parseAsteriskInsertExpr_pay (H : PayHyp E) {s : Sc} (g : Good E s) :
    ResP SegOK (parseAsteriskInsertExpr E s) := by
  have h := H.dec
  unfold parseAsteriskInsertExpr
  extract_lets r1 r2 r3 r4
  have hb1 : BOK E s r1 := skipChar_bok h 40 g
  have hp1 := skipBlanks_post h hb1.good
  have hb2 : BOK E _ r2 := skipChar_bok h 42 hp1.good
  have hp2 := skipBlanks_post h hb2.good
  have hb3 : BOK E _ r3 := skipChar_bok h 41 hp2.good
  have hp3 := skipBlanks_post h hb3.good
  have hb4 : BOK E _ r4 := skipString_VALUES_bok hp3.good
  have hp4 := skipBlanks_post h hb4.good
  have hc := parseComplexInsertValues_pay H hp4.good
  split
  · exact ResP.of_no
  split
  · exact ResP.of_no
  split
  · exact ResP.of_no
  split
  · exact ResP.of_no
  split
  · next heq => exact ResP.of_ok ⟨hc.elim heq, forall_mem_nil⟩
  · exact ResP.of_err
  · exact ResP.of_no

theorem parseInsertExpr_pay (H : PayHyp E) {s : Sc} (g : Good E s) :
    ResP SegOK (parseInsertExpr E s) := by
  have h := H.dec
  unfold parseInsertExpr
  have ha := parseAsteriskInsertExpr_eok h g
  have hap := parseAsteriskInsertExpr_pay H g
  split
  · exact ResP.of_err
  · next heq => exact ResP.of_ok (hap.elim heq)
  · next cp heq =>
    have hcp : cp = s := ha.elim_no heq
    subst hcp
    have hpc := parseColumns_post h g
    have hpcp := parseColumns_pay H g
    split
    · next s1 columns heq2 =>
      rw [heq2] at hpc hpcp
      have g1 : Good E s1 := hpc.good
      have hcols : ∀ c ∈ columns, ColOK c := hpcp columns true rfl
      extract_lets r colcp complex
      have hp1 := skipBlanks_post h g1
      have hb : BOK E _ r := skipString_VALUES_bok hp1.good
      have hp2 : Post E r.1 colcp := skipBlanks_post h hb.good
      split
      · exact ResP.of_no
      have hcx : ∀ s2 srcs, complex = some (s2, srcs) → ∀ t ∈ srcs, AccOK t := by
        intro s2 srcs hc
        unfold complex at hc
        have hcv := parseComplexInsertValues_pay H hp2.good
        split at hc
        · next heq3 =>
          split at hc
          · cases hc; exact hcv.elim heq3
          · cases hc
        · cases hc
      clear_value complex
      split
      · next s2 srcs => exact ResP.of_ok ⟨hcx s2 srcs rfl, hcols⟩
      · split
        · exact ResP.of_err
        · exact ResP.of_ok ⟨forall_mem_nil, hcols⟩
        · exact ResP.of_no
    · exact ResP.of_no

theorem parseInputExpr_pay (H : PayHyp E) {s : Sc} (g : Good E s) :
    ResP SegOK (parseInputExpr E s) := by
  have h := H.dec
  unfold parseInputExpr
  have h1 := parseSliceInputExpr_eok h g
  have h1p := parseSliceInputExpr_pay (E := E) (s := s)
  split
  · exact ResP.of_err
  · next heq => exact ResP.of_ok (h1p.elim heq)
  · next s1 heq =>
    have hs1 : s1 = s := h1.elim_no heq
    subst hs1
    have h2 := parseMemberInputExpr_eok h g
    have h2p := parseMemberInputExpr_pay H g
    split
    · exact ResP.of_err
    · next heq => exact ResP.of_ok (h2p.elim heq)
    · next s2 heq =>
      have hs2 : s2 = s1 := h2.elim_no heq
      subst hs2
      exact parseInsertExpr_pay H g

/-! ### the main loop -/

theorem SegOK.bypass (a b : Nat) : SegOK { kind := .bypass, a := a, b := b } :=
  ⟨forall_mem_nil, forall_mem_nil⟩

theorem add_segOK {st : PS} (hall : ∀ x ∈ st.exprs, SegOK x) (e : Option Seg)
    (he : ∀ x, e = some x → SegOK x) : ∀ x ∈ (st.add e).exprs, SegOK x := by
  unfold PS.add
  simp only []
  have h1 : ∀ x ∈ (if st.prevExprEnd ≠ st.currentExprStart
      then st.exprs ++ [{ kind := .bypass, a := st.prevExprEnd, b := st.currentExprStart }]
      else st.exprs), SegOK x := by
    split
    · intro x hx
      rcases List.mem_append.mp hx with hx | hx
      · exact hall x hx
      · rw [List.mem_singleton] at hx; rw [hx]; exact SegOK.bypass _ _
    · exact hall
  cases e with
  | none => exact h1
  | some y =>
    intro x hx
    rcases List.mem_append.mp hx with hx | hx
    · exact h1 x hx
    · rw [List.mem_singleton] at hx; rw [hx]; exact he y rfl

theorem parseLoop_pay (H : PayHyp E) (f : Nat) {st st' : PS} (g : Good E st.sc)
    (hall : ∀ x ∈ st.exprs, SegOK x) (hl : parseLoop E f st = .ok st') :
    ∀ x ∈ st'.exprs, SegOK x := by
  have h := H.dec
  induction f generalizing st with
  | zero => unfold parseLoop at hl; cases hl
  | succ f ih =>
    unfold parseLoop at hl
    obtain ⟨hp1, _⟩ := advanceToNextExpression_post h g
    split at hl
    · cases hl
    · next sc1 heq =>
      rw [heq] at hp1
      have g1 : Good E sc1 := hp1.good
      simp only [] at hl
      split at hl
      · cases hl; exact hall
      · have ho := parseOutputExpr_eok h g1
        have hop := parseOutputExpr_pay H g1
        split at hl
        · cases hl
        · next sc2 seg heq2 =>
          obtain ⟨g2, _⟩ := ho.elim_ok heq2
          refine ih ?_ ?_ hl
          · exact g2
          · exact add_segOK (st := { st with sc := sc2, currentExprStart := sc1.pos }) hall (some seg)
              (fun x hx => by cases hx; exact hop.elim heq2)
        · next sc2 heq2 =>
          have hsc2 : sc2 = sc1 := ho.elim_no heq2
          subst hsc2
          have hi := parseInputExpr_eok h g1
          have hip := parseInputExpr_pay H g1
          split at hl
          · cases hl
          · next sc3 seg heq3 =>
            obtain ⟨g3, _⟩ := hi.elim_ok heq3
            refine ih ?_ ?_ hl
            · exact g3
            · exact add_segOK (st := { st with sc := sc3, currentExprStart := sc2.pos }) hall (some seg)
                (fun x hx => by cases hx; exact hip.elim heq3)
          · next sc3 heq3 =>
            have hsc3 : sc3 = sc2 := hi.elim_no heq3
            subst hsc3
            refine ih ?_ ?_ hl
            · exact advanceChar_good h g1
            · exact hall

/-- every node of a successful parse has members / columns that are `*` or do not end
    with the byte `*` -/
theorem parse_segOK (H : PayHyp E) {segs : List Seg} (hp : parse E = .ok segs) :
    ∀ s ∈ segs, SegOK s := by
  unfold parse at hp
  split at hp
  · cases hp
  · next st heq =>
    cases hp
    exact add_segOK (parseLoop_pay H _ (initSc_good (E := E)).1 forall_mem_nil heq) none
      (fun _ hx => by cases hx)

end

/-! ### the statements for the bind layer -/

theorem SegOK.toOSeg {s : Seg} (h : SegOK s) (inp : Bytes) : NodeNoStarEnd (s.toOSeg inp) := h

/-- parser output satisfies the node hypothesis of `bindTypes_no_wildcard` -/
theorem parse_nodeNoStarEnd (E : Env) (hd : DecOK E) (hs : DecStarOK E)
    (hC : E.letter 42 = false ∧ E.digit 42 = false) {segs : List Seg} (h : parse E = .ok segs) :
    ∀ s ∈ segs, NodeNoStarEnd (s.toOSeg E.inp) :=
  fun s hm => (parse_segOK ⟨hd, hs, hC⟩ h s hm).toOSeg E.inp

theorem parse_nodeNoStarEnd' (E : Env) (hd : DecOK E) (hs : DecStarOK E)
    (hC : E.letter 42 = false ∧ E.digit 42 = false) {segs : List Seg} (h : parse E = .ok segs) :
    ∀ o ∈ segs.map (Seg.toOSeg E.inp), NodeNoStarEnd o := by
  intro o ho
  obtain ⟨s, hm, rfl⟩ := List.mem_map.mp ho
  exact parse_nodeNoStarEnd E hd hs hC h s hm

/-- the instance for the Go-faithful decoder -/
theorem parse_nodeNoStarEnd_decodeRune (inp : Bytes) (letter digit : Nat → Bool)
    (hC : letter 42 = false ∧ digit 42 = false) {segs : List Seg}
    (h : parse { inp := inp, dec := decodeRune, letter := letter, digit := digit } = .ok segs) :
    ∀ s ∈ segs, NodeNoStarEnd (s.toOSeg inp) :=
  parse_nodeNoStarEnd { inp := inp, dec := decodeRune, letter := letter, digit := digit }
    (decodeRune_DecOK inp letter digit) (decodeRune_DecStarOK inp letter digit) hC h

/-- end to end (C05 no. 11): parse then bind — no output column of a typed expression is
    `*` or `t.*` -/
theorem parse_bindTypes_no_wildcard (E : Env) (hd : DecOK E) (hs : DecStarOK E)
    (hE : E.letter 42 = false ∧ E.digit 42 = false)
    {C : Cls} (hC : C.letter 42 = false ∧ C.digit 42 = false)
    {tt : TypeTable} {segs : List Seg} {samples : List (Option Nat)} {tes : List TExpr}
    (hp : parse E = .ok segs)
    (hb : bindTypes C tt (segs.map (Seg.toOSeg E.inp)) samples = .ok tes) :
    ∀ cols, TExpr.output cols ∈ tes → ∀ c ∈ cols, c.1 ≠ star ∧ ∀ t, c.1 ≠ t ++ dot ++ star :=
  bindTypes_no_wildcard hC hb (parse_nodeNoStarEnd' E hd hs hE hp)

/-- end to end for the Go-faithful decoder, parser and binder classifiers independent -/
theorem parse_bindTypes_no_wildcard_decodeRune' (inp : Bytes) (letter digit : Nat → Bool)
    (hE : letter 42 = false ∧ digit 42 = false) {C : Cls}
    (hC : C.letter 42 = false ∧ C.digit 42 = false)
    {tt : TypeTable} {segs : List Seg} {samples : List (Option Nat)} {tes : List TExpr}
    (hp : parse { inp := inp, dec := decodeRune, letter := letter, digit := digit } = .ok segs)
    (hb : bindTypes C tt (segs.map (Seg.toOSeg inp)) samples = .ok tes) :
    ∀ cols, TExpr.output cols ∈ tes → ∀ c ∈ cols, c.1 ≠ star ∧ ∀ t, c.1 ≠ t ++ dot ++ star :=
  parse_bindTypes_no_wildcard { inp := inp, dec := decodeRune, letter := letter, digit := digit }
    (decodeRune_DecOK inp letter digit) (decodeRune_DecStarOK inp letter digit) hE hC hp hb

/-- end to end for the Go-faithful decoder, with one classifier for parser and binder -/
theorem parse_bindTypes_no_wildcard_decodeRune (inp : Bytes) {C : Cls}
    (hC : C.letter 42 = false ∧ C.digit 42 = false)
    {tt : TypeTable} {segs : List Seg} {samples : List (Option Nat)} {tes : List TExpr}
    (hp : parse { inp := inp, dec := decodeRune, letter := C.letter, digit := C.digit } = .ok segs)
    (hb : bindTypes C tt (segs.map (Seg.toOSeg inp)) samples = .ok tes) :
    ∀ cols, TExpr.output cols ∈ tes → ∀ c ∈ cols, c.1 ≠ star ∧ ∀ t, c.1 ≠ t ++ dot ++ star :=
  parse_bindTypes_no_wildcard_decodeRune' inp C.letter C.digit hC hC hp hb

/-! ### examples: non-vacuity, and the need for the classifier hypothesis -/

namespace ParserNodesEx

def letter (c : Nat) : Bool := (65 ≤ c && c ≤ 90) || (97 ≤ c && c ≤ 122)
def digit (c : Nat) : Bool := 48 ≤ c && c ≤ 57
def cls : Cls := { letter := letter, digit := digit }
def env (inp : Bytes) : Env := { inp := inp, dec := decodeRune, letter := letter, digit := digit }

/-- `SELECT &T.* FROM t` -/
def q1 : Bytes := #[83, 69, 76, 69, 67, 84, 32, 38, 84, 46, 42, 32, 70, 82, 79, 77, 32, 116]

def segs1 : List Seg :=
  [{ kind := .bypass, a := 0, b := 7 },
   { kind := .output, a := 7, b := 11, types := [{ ty := #[84], member := star }] },
   { kind := .bypass, a := 11, b := 18 }]

/-- the parser accepts `SELECT &T.* FROM t` (the member is `*` itself) -/
theorem parse_q1 : parse (env q1) = .ok segs1 := by rfl

/-- the hypotheses of `parse_nodeNoStarEnd` are jointly satisfiable, with a successful parse -/
example : ∀ s ∈ segs1, NodeNoStarEnd (s.toOSeg q1) :=
  parse_nodeNoStarEnd (env q1) (decodeRune_DecOK q1 letter digit) (decodeRune_DecStarOK q1 letter digit)
    (by decide) parse_q1

/-- `SELECT count(*) AS &T.x FROM t`: a function-call column that contains `*` but ends
    with `)` -/
def q2 : Bytes := #[83, 69, 76, 69, 67, 84, 32, 99, 111, 117, 110, 116, 40, 42, 41, 32, 65, 83, 32,
  38, 84, 46, 120, 32, 70, 82, 79, 77, 32, 116]

example : parse (env q2) = .ok
    [{ kind := .bypass, a := 0, b := 7 },
     { kind := .output, a := 7, b := 23,
       cols := [{ table := #[], column := #[99, 111, 117, 110, 116, 40, 42, 41], func := true }],
       types := [{ ty := #[84], member := #[120] }] },
     { kind := .bypass, a := 23, b := 30 }] := by rfl

/-- struct `T` with two string fields tagged `a` and `b` -/
def tt : TypeTable := #[
  { kind := .struct, kindStr := "struct", name := #[84],
    fields := [{ name := #[65], tag := #[97], exported := true, anon := false, ty := 1 },
               { name := #[66], tag := #[98], exported := true, anon := false, ty := 1 }] },
  { kind := .string, kindStr := "string", name := #[] }]

def outNames : TExpr → List Bytes
  | .output cols => cols.map (·.1)
  | _ => []

/-- end to end, non-vacuous: `SELECT &T.* FROM t` parses, binds against `T`, and the output
    node generates the columns `a`, `b` -/
example : ((parse (env q1)).toOption.bind fun segs =>
    (bindTypes cls tt (segs.map (Seg.toOSeg q1)) [some 0]).toOption.map (·.map outNames)) =
    some [[], [#[97], #[98]], []] := by decide

/-- `SELECT &T.a* FROM t` -/
def q3 : Bytes := #[83, 69, 76, 69, 67, 84, 32, 38, 84, 46, 97, 42, 32, 70, 82, 79, 77, 32, 116]

/-- the classifier hypothesis is needed: if `*` is classed as a letter, the member of
    `&T.a*` is the name `a*`, which ends with `*` -/
example : parse { env q3 with letter := fun c => letter c || c == 42 } = .ok
    [{ kind := .bypass, a := 0, b := 7 },
     { kind := .output, a := 7, b := 12, types := [{ ty := #[84], member := #[97, 42] }] },
     { kind := .bypass, a := 12, b := 19 }] := by rfl

/-- with the honest classifier the name stops before the `*` -/
example : parse (env q3) = .ok
    [{ kind := .bypass, a := 0, b := 7 },
     { kind := .output, a := 7, b := 11, types := [{ ty := #[84], member := #[97] }] },
     { kind := .bypass, a := 11, b := 19 }] := by rfl

end ParserNodesEx

end Sqlair
