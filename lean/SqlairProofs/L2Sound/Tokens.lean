/-
  L2Sound/Tokens: the guard `tokensGuards` under which the token-scanning predicates
  `holdsC03` / `holdsC05` of `Spec/L2.lean` are meant to be evaluated (the driver's present
  guard `cleanForTokens segs && tagsClean tt` is NOT enough: `Props/L2Tokens.lean` has the
  kernel-checked false alarms), and the helper lemmas of the two halves of the predicates
  that do not scan the text:
  * an output node with at least one type is bound to at least one output column
    (`tok_bindSeg_output_ne`, needs that every tag of a struct info names a field:
    `TokInfosOK`, true of `generateArgInfo`: `tok_infosOK`);
  * the names of the parameters of the model's observation.
-/
import SqlairModel.Spec.L2Tokens
import SqlairProofs.Props.L2Sound
import SqlairProofs.E2E.Samples

namespace Sqlair

/-! ## the guard: `SqlairModel/Spec/L2Tokens.lean` (definitions only, evaluated by the driver) -/

theorem tok_outputsTyped_of_guards {tt : TypeTable} {segs : List OSeg} (h : tokensGuards tt segs = true) :
    outputsTyped segs = true := by
  unfold tokensGuards at h
  simp only [Bool.and_eq_true] at h
  have h4 := h.2
  unfold outputsTyped
  rw [List.all_eq_true] at h4 ⊢
  intro s hs
  have := h4 s hs
  simp only [Bool.or_eq_true, Bool.and_eq_true] at this ⊢
  rcases this with h | h
  · exact .inl h
  · exact .inr h.1.1

theorem tok_clean_of_guards {tt : TypeTable} {segs : List OSeg} (h : tokensGuards tt segs = true) :
    cleanForTokens segs = true ∧ tagsClean tt = true := by
  unfold tokensGuards at h
  simp only [Bool.and_eq_true] at h
  exact h.1.1.1

/-! ## every tag of a struct info names a field -/

def TokInfosOK (infos : List (Bytes × ArgInfo)) : Prop :=
  ∀ p ∈ infos, ∀ tid n fields tags, p.2 = .struct tid n fields tags → ∀ t ∈ tags, ∃ f ∈ fields, f.tag = t

theorem tok_infosOK {C : Cls} {tt : TypeTable} {samples : List (Option Nat)} {infos : List (Bytes × ArgInfo)}
    (h : generateArgInfo C tt samples [] = .ok infos) : TokInfosOK infos := by
  intro p hp tid n fields tags he t ht
  obtain ⟨s, _, tid', _, _, _, hg, _⟩ := generateArgInfo_mem h hp
  rw [he] at hg
  obtain ⟨_, _, _, _, rfl⟩ := getArgInfo_struct hg
  have := mem_sortBytes ht
  simpa [List.mem_map] using this

theorem tok_getAll_ne {a : ArgInfo} {ms : List (Loc × Bytes)} (h : a.getAll = .ok ms)
    (hok : ∀ tid n fields tags, a = .struct tid n fields tags → ∀ t ∈ tags, ∃ f ∈ fields, f.tag = t) :
    ms ≠ [] := by
  unfold ArgInfo.getAll at h
  split at h
  · rename_i tid n fields tags
    split at h
    · cases h
    · rename_i hne
      cases h
      cases tags with
      | nil => simp at hne
      | cons t rest =>
        obtain ⟨f, hf, hft⟩ := hok _ _ _ _ rfl t (by simp)
        have hex : ∃ f', fields.find? (fun f => f.tag == t) = some f' := by
          cases hfind : fields.find? (fun f => f.tag == t) with
          | some f' => exact ⟨f', rfl⟩
          | none =>
            have := List.find?_eq_none.1 hfind f hf
            simp [hft] at this
        obtain ⟨f', hf'⟩ := hex
        intro hnil
        simp [hf'] at hnil
  · cases h
  · cases h

theorem tok_allStructOutputs_ne {st st' : TEB} {ty : Bytes} {ms : List (Loc × Bytes)}
    (h : allStructOutputs st ty = .ok (ms, st')) (hok : TokInfosOK st.argInfos) : ms ≠ [] := by
  unfold allStructOutputs at h
  split at h
  · cases h
  · rename_i a st1 hg
    obtain ⟨_, _, _, k, hk⟩ := getArg_ok hg
    split at h
    · cases h
    · rename_i ms' hga
      split at h
      · cases h
      · cases h
        exact tok_getAll_ne hga (fun tid n fields tags he => hok (k, a) hk tid n fields tags he)

theorem tok_outGenerated_len (pref : Bytes) : ∀ (ts : List Acc) (st st' : TEB) (ocs ocs' : List (Bytes × Loc)),
    outGenerated pref st ts ocs = .ok (ocs', st') → TokInfosOK st.argInfos →
    ocs.length ≤ ocs'.length ∧ (ts ≠ [] → ocs.length < ocs'.length) := by
  intro ts
  induction ts with
  | nil =>
    intro st st' ocs ocs' h _
    simp only [outGenerated] at h
    cases h
    exact ⟨Nat.le_refl _, fun hn => absurd rfl hn⟩
  | cons t rest ih =>
    intro st st' ocs ocs' h hok
    simp only [outGenerated] at h
    split at h
    · split at h
      · cases h
      · rename_i ms st1 hms
        have hne := tok_allStructOutputs_ne hms hok
        have h1 := ih _ _ _ _ h (by rw [(allStructOutputs_ok hms).2.1]; exact hok)
        have hl : 0 < ms.length := List.length_pos_iff.2 hne
        simp only [List.length_append, List.length_map] at h1
        exact ⟨by omega, fun _ => by omega⟩
    · split at h
      · cases h
      · rename_i l st1 hm
        have h1 := ih _ _ _ _ h (by rw [(outputMember_ok hm).2]; exact hok)
        simp only [List.length_append, List.length_singleton] at h1
        exact ⟨by omega, fun _ => by omega⟩

theorem tok_outIntoStar_len (ty : Bytes) : ∀ (cs : List Col) (st st' : TEB) (ocs ocs' : List (Bytes × Loc)),
    outIntoStar ty st cs ocs = .ok (ocs', st') → ocs'.length = ocs.length + cs.length := by
  intro cs
  induction cs with
  | nil => intro st st' ocs ocs' h; simp only [outIntoStar] at h; cases h; simp
  | cons c rest ih =>
    intro st st' ocs ocs' h
    simp only [outIntoStar] at h
    split at h
    · cases h
    · have := ih _ _ _ _ h
      simp only [List.length_append, List.length_cons, List.length_nil] at this ⊢
      omega

theorem tok_outPairwise_len : ∀ (ps : List (Col × Acc)) (st st' : TEB) (ocs ocs' : List (Bytes × Loc)),
    outPairwise st ps ocs = .ok (ocs', st') → ocs'.length = ocs.length + ps.length := by
  intro ps
  induction ps with
  | nil => intro st st' ocs ocs' h; simp only [outPairwise] at h; cases h; simp
  | cons p rest ih =>
    intro st st' ocs ocs' h
    obtain ⟨c, t⟩ := p
    simp only [outPairwise] at h
    split at h
    · cases h
    · have := ih _ _ _ _ h
      simp only [List.length_append, List.length_cons, List.length_nil] at this ⊢
      omega

/-- an output node with at least one type is bound to at least one output column -/
theorem tok_bindSeg_output_ne {st st' : TEB} {s : OSeg} (hk : s.kind = .output)
    (h : bindSeg st s = .ok st') (hok : TokInfosOK st.argInfos) (ht : s.types ≠ []) :
    ∃ cols, st'.exprs = st.exprs ++ [.output cols] ∧ cols ≠ [] := by
  unfold bindSeg at h
  rw [hk] at h
  simp only [] at h
  split at h
  · split at h
    · cases h
    · rename_i ocs st1 hg
      cases h
      have h1 := outGenerated_ok _ _ _ _ _ _ hg
      have h2 := (tok_outGenerated_len _ _ _ _ _ _ hg hok).2 ht
      refine ⟨ocs, ?_, ?_⟩
      · show st1.exprs ++ _ = _
        rw [h1.1]
      · intro hn; rw [hn] at h2; simp at h2
  · rename_i hc1
    simp only [Bool.or_eq_true, beq_iff_eq, Bool.and_eq_true, not_or, not_and] at hc1
    have hcl : s.cols.length ≠ 0 := hc1.1
    split at h
    · cases h
    · split at h
      · split at h
        · cases h
        · rename_i ocs st1 hg
          cases h
          have h1 := outIntoStar_ok _ _ _ _ _ _ hg
          have h2 := tok_outIntoStar_len _ _ _ _ _ _ hg
          refine ⟨ocs, ?_, ?_⟩
          · show st1.exprs ++ _ = _
            rw [h1.1]
          · intro hn; rw [hn] at h2; simp at h2; omega
      · split at h
        · cases h
        · split at h
          · rename_i hlen
            split at h
            · cases h
            · rename_i ocs st1 hg
              cases h
              have h1 := outPairwise_ok _ _ _ _ _ hg
              have h2 := tok_outPairwise_len _ _ _ _ _ hg
              have hlen' : s.cols.length = s.types.length := by simpa using hlen
              refine ⟨ocs, ?_, ?_⟩
              · show st1.exprs ++ _ = _
                rw [h1.1]
              · intro hn; rw [hn] at h2
                simp only [List.length_nil, List.length_zip, Nat.zero_add] at h2
                omega
          · cases h

/-- a prepared statement with an output node (all of them with at least one type) has a typed
    output expression with at least one column -/
theorem tok_bindSegs_output : ∀ (segs : List OSeg) (st st' : TEB), bindSegs st segs = .ok st' →
    TokInfosOK st.argInfos → (∀ s ∈ segs, s.kind = .output → s.types ≠ []) →
    (∃ s ∈ segs, s.kind = .output) → ∃ cols, TExpr.output cols ∈ st'.exprs ∧ cols ≠ [] := by
  intro segs
  induction segs with
  | nil => intro st st' _ _ _ hex; obtain ⟨s, hs, _⟩ := hex; cases hs
  | cons s rest ih =>
    intro st st' h hok hty hex
    simp only [bindSegs] at h
    split at h
    · cases h
    · rename_i st1 hs
      have hok1 : TokInfosOK st1.argInfos := by rw [bindSeg_argInfos hs]; exact hok
      by_cases hk : s.kind = .output
      · obtain ⟨cols, he, hne⟩ := tok_bindSeg_output_ne hk hs hok (hty s (by simp) hk)
        obtain ⟨new, hnew, _⟩ := l2s_bindSegs_steps _ _ _ h
        exact ⟨cols, by rw [hnew, he]; simp, hne⟩
      · obtain ⟨s', hs', hk'⟩ := hex
        rcases List.mem_cons.1 hs' with rfl | hs'
        · exact absurd hk' hk
        · exact ih _ _ h hok1 (fun x hx => hty x (List.mem_cons_of_mem _ hx)) ⟨s', hs', hk'⟩

theorem tok_bindTypes_output {C : Cls} {tt : TypeTable} {segs : List OSeg} {samples : List (Option Nat)}
    {tes : List TExpr} (h : bindTypes C tt segs samples = .ok tes) (hty : outputsTyped segs = true)
    (hex : hasOutputSeg segs = true) : ∃ cols, TExpr.output cols ∈ tes ∧ cols ≠ [] := by
  obtain ⟨infos, st, hg, hs, _, rfl⟩ := bindTypes_ok_unfold h
  refine tok_bindSegs_output _ _ _ hs (tok_infosOK hg) ?_ ?_
  · intro s hs' hk hnil
    have := List.all_eq_true.1 hty s hs'
    simp [hk, hnil] at this
  · unfold hasOutputSeg at hex
    obtain ⟨s, hs', hk⟩ := List.any_eq_true.1 hex
    exact ⟨s, hs', by simpa using hk⟩

/-- conversely a typed output expression comes from an output node -/
theorem tok_output_node {C : Cls} {tt : TypeTable} {segs : List OSeg} {samples : List (Option Nat)}
    {tes : List TExpr} (h : bindTypes C tt segs samples = .ok tes) {cols : List (Bytes × Loc)}
    (hm : TExpr.output cols ∈ tes) : hasOutputSeg segs = true := by
  have hc := bindTypes_exprs h
  obtain ⟨i, hi, hei⟩ := List.mem_iff_getElem.1 hm
  have hi' : i < segs.length := by rw [← hc.1]; exact hi
  obtain ⟨e, he, hn⟩ := hc.2 i segs[i] (List.getElem?_eq_getElem hi')
  rw [List.getElem?_eq_getElem hi, hei] at he
  cases he
  unfold hasOutputSeg
  rw [List.any_eq_true]
  refine ⟨segs[i], List.getElem_mem _, ?_⟩
  unfold NodeExpr at hn
  cases hk : segs[i].kind <;> simp only [hk] at hn
  · cases hn
  · rfl
  all_goals (obtain ⟨_, hn⟩ := hn; cases hn)

end Sqlair
