/-
  E2E/Prepared: the C17 shapes for statements prepared by `bindTypes`: the insert expression of
  `(*) VALUES ($T.*)` and the output expression of `&T.*` range over the same field list when
  the sample named `T` is the same type in both statements.
-/
import SqlairProofs.E2E.Samples

namespace Sqlair

/-- the info found under the name of a sample is the one `getArgInfo` computes for it -/
theorem infos_find_sample {C : Cls} {tt : TypeTable} {samples : List (Option Nat)}
    {infos : List (Bytes × ArgInfo)} (h : generateArgInfo C tt samples [] = .ok infos) {tid : Nat}
    (hs : some tid ∈ samples) {k : Bytes} {a : ArgInfo}
    (hf : infos.find? (fun p => p.1 == (tt.get tid).name) = some (k, a)) : getArgInfo C tt tid = .ok a := by
  obtain ⟨new, hnew, hc, hnd⟩ := generateArgInfo_spec _ _ _ h
  simp only [List.nil_append] at hnew
  subst hnew
  have hnd' := hnd (by simp)
  obtain ⟨i, hi, hsi⟩ := List.mem_iff_getElem.1 hs
  obtain ⟨p, hp, tid', htid, _, _, hg, hn⟩ := hc.2 i (some tid) (by rw [List.getElem?_eq_getElem hi, hsi])
  cases htid
  have hk : k = (tt.get tid).name := by simpa using List.find?_some hf
  have : (k, a) = p := nodup_fst_inj hnd' (List.mem_of_find?_eq_some hf) (List.mem_of_getElem? hp)
    (by rw [hn]; exact hk)
  rw [← this] at hg
  exact hg

theorem flatMap_single {α β : Type} (f : α → List β) {l : List α} {j : Nat} {x : α} (hj : l[j]? = some x)
    (hother : ∀ j' y, l[j']? = some y → j' ≠ j → f y = []) : l.flatMap f = f x := by
  have hsplit := list_split_at hj
  have hjl : j < l.length := (List.getElem?_eq_some_iff.1 hj).1
  have h1 : (l.take j).flatMap f = [] := by
    rw [List.flatMap_eq_nil_iff]
    intro y hy
    obtain ⟨i, hi, e⟩ := List.mem_iff_getElem.1 hy
    have hi' : i < j := by
      have := hi; rw [List.length_take] at this; omega
    refine hother i y ?_ (by omega)
    rw [← e, List.getElem_take, List.getElem?_eq_getElem]
  have h2 : (l.drop (j + 1)).flatMap f = [] := by
    rw [List.flatMap_eq_nil_iff]
    intro y hy
    obtain ⟨j', hlt, e⟩ := mem_drop_succ hy
    exact hother j' y e (by omega)
  rw [hsplit, List.flatMap_append, List.flatMap_cons, h1, h2]
  simp

/-- the typed expression prepared for a `(*) VALUES ($T.*)` node -/
theorem prepared_insert_shape {C : Cls} {tt : TypeTable} {segs : List OSeg} {samples : List (Option Nat)}
    {tes : List TExpr} (hb : bindTypes C tt segs samples = .ok tes) {tid : Nat} (hs : some tid ∈ samples)
    {i : Nat} {s : OSeg} (hi : segs[i]? = some s) (hk : s.kind = .astInsert)
    (ht : s.types = [{ ty := (tt.get tid).name, member := star }]) :
    ∃ fields tags, getArgInfo C tt tid = .ok (.struct tid (tt.get tid).name fields tags) ∧
      tes[i]? = some (.insert (fieldCols tid (tt.get tid).name (starFieldsOf fields tags))) := by
  obtain ⟨infos, hg, hc⟩ := bindTypes_exprsI hb
  obtain ⟨e, he, _, hshape⟩ := hc.2 i s hi
  obtain ⟨k, tid', n, fields, tags, hf, rfl⟩ := (hshape _ ht).1 hk
  have ha := infos_find_sample hg hs hf
  obtain ⟨rfl, rfl, _⟩ := getArgInfo_struct ha
  exact ⟨fields, tags, ha, he⟩

/-- the typed expression prepared for a `&T.*` node; if it is the only output node of the
    statement, its columns are all the output columns of the statement -/
theorem prepared_output_shape {C : Cls} {tt : TypeTable} {segs : List OSeg} {samples : List (Option Nat)}
    {tes : List TExpr} (hb : bindTypes C tt segs samples = .ok tes) {tid : Nat} (hs : some tid ∈ samples)
    {j : Nat} {s : OSeg} (hj : segs[j]? = some s) (hk : s.kind = .output)
    (ht : s.types = [{ ty := (tt.get tid).name, member := star }]) (hcols : s.cols = [])
    (honly : ∀ j' s', segs[j']? = some s' → s'.kind = .output → j' = j) :
    ∃ fields tags, getArgInfo C tt tid = .ok (.struct tid (tt.get tid).name fields tags) ∧
      tes[j]? = some (.output (fieldOutCols tid (tt.get tid).name (starFieldsOf fields tags))) ∧
      tes.flatMap TExpr.outCols = fieldOutCols tid (tt.get tid).name (starFieldsOf fields tags) := by
  obtain ⟨infos, hg, hc⟩ := bindTypes_exprsI hb
  obtain ⟨e, he, _, hshape⟩ := hc.2 j s hj
  obtain ⟨k, tid', n, fields, tags, hf, rfl⟩ := (hshape _ ht).2 hk hcols
  have ha := infos_find_sample hg hs hf
  obtain ⟨rfl, rfl, _⟩ := getArgInfo_struct ha
  refine ⟨fields, tags, ha, he, ?_⟩
  rw [flatMap_single TExpr.outCols he]
  · rfl
  · intro j' y hy hne
    have hj'l : j' < segs.length := by rw [← hc.1]; exact (List.getElem?_eq_some_iff.1 hy).1
    obtain ⟨y', hy', hn, _⟩ := hc.2 j' segs[j'] (List.getElem?_eq_getElem hj'l)
    rw [hy] at hy'; cases hy'
    have hko : segs[j'].kind ≠ .output := fun hko => hne (honly j' _ (List.getElem?_eq_getElem hj'l) hko)
    unfold NodeExpr at hn
    cases hkk : segs[j'].kind <;> simp only [hkk] at hn hko
    · subst hn; rfl
    · exact absurd rfl hko
    all_goals (obtain ⟨_, rfl⟩ := hn; rfl)

end Sqlair
