/-
  E2E/Render: the generated SQL text is the in-order concatenation of the renderings of the
  pieces (A1), and generic facts about concatenation of byte strings.
-/
import SqlairModel.Bind

namespace Sqlair

/-- in-order concatenation of byte strings -/
def concatBytes (l : List Bytes) : Bytes := l.foldl (· ++ ·) #[]

theorem foldl_append_bytes (l : List Bytes) (init : Bytes) :
    l.foldl (· ++ ·) init = init ++ concatBytes l := by
  unfold concatBytes
  induction l generalizing init with
  | nil => simp
  | cons x xs ih =>
    simp only [List.foldl_cons]
    rw [ih (init ++ x), ih (#[] ++ x)]
    simp [Array.append_assoc]

theorem concatBytes_nil : concatBytes [] = #[] := rfl

theorem concatBytes_cons (x : Bytes) (xs : List Bytes) : concatBytes (x :: xs) = x ++ concatBytes xs := by
  show (x :: xs).foldl (· ++ ·) #[] = _
  rw [List.foldl_cons, foldl_append_bytes]
  simp

theorem concatBytes_append (a b : List Bytes) : concatBytes (a ++ b) = concatBytes a ++ concatBytes b := by
  induction a with
  | nil => simp [concatBytes_nil]
  | cons x xs ih => simp [concatBytes_cons, ih, Array.append_assoc]

/-- `concatBytes` is list flattening: every byte of every chunk exactly once, in order -/
theorem concatBytes_toList (l : List Bytes) : (concatBytes l).toList = (l.map Array.toList).flatten := by
  induction l with
  | nil => rfl
  | cons x xs ih => simp [concatBytes_cons, ih]

theorem concatBytes_size (l : List Bytes) : (concatBytes l).size = (l.map Array.size).sum := by
  induction l with
  | nil => rfl
  | cons x xs ih => simp [concatBytes_cons, ih]

theorem renderSQL_eq_concat (ps : List Piece) : renderSQL ps = concatBytes (ps.map Piece.render) := by
  unfold renderSQL concatBytes
  rw [List.foldl_map]

end Sqlair
