/-
  NoPanic/Fuel: `getStructFields` never runs out of fuel when started as `getArgInfo` starts
  it (fuel `tt.size + 1`, empty `visiting`).

  Termination argument of the repaired recursive-embedding check: `visiting` holds pairwise
  distinct ids of the table (an id outside the table has the default descriptor, which has
  no fields, so the analysis never recurses *from* it), hence the nesting depth is at most
  `tt.size`; a self-embedding type yields "recursive-embedding", never "fuel".
-/
import SqlairProofs.NoPanic.Defs

namespace Sqlair

theorem parseTag_err_ne_fuel {C : Cls} {tag : Bytes} {e : String} (h : parseTag C tag = .error e) :
    e ≠ "fuel" := by
  unfold parseTag at h
  simp only [] at h
  repeat' split at h
  all_goals first | (cases h; done) | (cases h; decide)

theorem TypeTable.get_of_size_le {tt : TypeTable} {s : Nat} (h : tt.size ≤ s) : tt.get s = default := by
  simp [TypeTable.get, Array.getD, Nat.not_lt.2 h]

/-- an id with at least one field is an id of the table -/
theorem lt_size_of_fields_ne_nil {tt : TypeTable} {tid : Nat} (h : (tt.get tid).fields ≠ []) :
    tid < tt.size := by
  apply Classical.byContradiction
  intro hn
  rw [TypeTable.get_of_size_le (Nat.not_lt.1 hn)] at h
  exact h rfl

theorem fieldsLoop_no_fuel {C : Cls} {tt : TypeTable} (recur : Nat → Except String (List SField))
    (hrec : ∀ stid, recur stid ≠ .error "fuel") :
    ∀ (fds : List FieldDesc) (i : Nat) (acc : List SField),
      fieldsLoop C tt recur fds i acc ≠ .error "fuel" := by
  intro fds
  induction fds with
  | nil => intro i acc h; simp [fieldsLoop] at h
  | cons fd rest ih =>
    intro i acc h
    simp only [fieldsLoop] at h
    generalize (if ((tt.get fd.ty).kind == Kind.ptr) = true then (tt.get fd.ty).elem else fd.ty) = stid at h
    split at h
    · split at h
      · exact ih _ _ h
      · split at h
        · exact ih _ _ h
        · split at h
          · rename_i e hr
            cases h
            exact hrec _ hr
          · exact ih _ _ h
    · split at h
      · exact ih _ _ h
      · split at h
        · exact absurd (Except.error.inj h) (by decide)
        · split at h
          · rename_i e hp
            cases h
            exact parseTag_err_ne_fuel hp rfl
          · exact ih _ _ h

/-- the invariant of the recursion: `visiting` has no duplicates, holds ids of the table, and
    the remaining fuel exceeds the number of ids of the table not yet in `visiting` -/
theorem getStructFields_no_fuel_aux {C : Cls} {tt : TypeTable} :
    ∀ (fuel : Nat) (visiting : List Nat) (tid : Nat),
      visiting.Nodup → (∀ x ∈ visiting, x < tt.size) → tt.size < fuel + visiting.length →
      getStructFields C tt fuel visiting tid ≠ .error "fuel" := by
  intro fuel
  induction fuel with
  | zero =>
    intro visiting tid hnd hlt hlen
    exfalso
    have := hnd.length_le_of_subset (l₂ := List.range tt.size) (fun x hx => List.mem_range.2 (hlt x hx))
    simp only [List.length_range] at this
    omega
  | succ n ih =>
    intro visiting tid hnd hlt hlen h
    simp only [getStructFields] at h
    split at h
    · exact absurd (Except.error.inj h) (by decide)
    · rename_i hvis
      by_cases hf : (tt.get tid).fields = []
      · rw [hf] at h
        simp [fieldsLoop] at h
      · have htid := lt_size_of_fields_ne_nil hf
        refine fieldsLoop_no_fuel _ (fun stid => ih (tid :: visiting) stid ?_ ?_ ?_) _ _ _ h
        · rw [List.nodup_cons]
          refine ⟨?_, hnd⟩
          intro hm
          apply hvis
          simp [hm]
        · intro x hx
          rcases List.mem_cons.1 hx with rfl | hx
          · exact htid
          · exact hlt x hx
        · simp only [List.length_cons]; omega

end Sqlair
