/-
  Exactness of expression spans, main theorem of the relational pass: every expression node
  of a successful parse, parsed on its own, yields that single node again.
-/
import SqlairProofs.Exact.Exprs
import SqlairProofs.Exact.Loop

namespace Sqlair

section
variable {E : Env}

/-- the start of the extracted text corresponds to the state at the start of the range -/
theorem exa_sync_init {sc1 : Sc} (g1 : Good E sc1) {B : Nat} (hB : sc1.pos ≤ B) :
    ExaSync E sc1.pos B sc1 (initSc (exaEnv E sc1.pos B)) := by
  obtain ⟨g0, hp0⟩ := initSc_good (E := exaEnv E sc1.pos B)
  exact ⟨g1, g0, by rw [hp0]; omega, hB, ExaReach.refl _⟩

/-- the parse of the extracted text, from what the two expression parsers do at its start -/
theorem exa_parse_extracted (hd : DecOK E) (hl : ExaDecLocal E) (ha : AsciiDec E) (hsep : ClassSep E)
    {s0 sc1 t t' : Sc} {x : Seg} (g1 : Good E sc1)
    (hadv : advanceToNextExpression E s0 = (sc1, none)) (hlt : sc1.pos < t.pos) (htl : t.pos ≤ E.len)
    (hr : ExaReach E sc1.pos t.pos)
    (hex : parseOutputExpr (exaEnv E sc1.pos t.pos) (initSc (exaEnv E sc1.pos t.pos)) = (t', .ok x) ∨
      (parseOutputExpr (exaEnv E sc1.pos t.pos) (initSc (exaEnv E sc1.pos t.pos)) =
          (initSc (exaEnv E sc1.pos t.pos), .no) ∧
        parseInputExpr (exaEnv E sc1.pos t.pos) (initSc (exaEnv E sc1.pos t.pos)) = (t', .ok x)))
    (hsy : ExaSync E sc1.pos t.pos t t') :
    parse (exaEnv E sc1.pos t.pos) = .ok [x] := by
  have C : ExaCtx E sc1.pos t.pos := ExaCtx.mk' hd hl ha (Nat.le_of_lt hlt) htl hr
  have hs := exa_sync_init g1 (Nat.le_of_lt hlt)
  obtain ⟨hlen, hlen', hch, _⟩ := hs.lt C hlt
  obtain ⟨_, hp0⟩ := initSc_good (E := exaEnv E sc1.pos t.pos)
  have hst := exa_adv_start hsep hadv hlen
  have hadv' := exa_adv_at_zero (E := exaEnv E sc1.pos t.pos) hlen' hp0
    (by rw [hch, exaEnv_isNameChar]; exact hst)
  have hend : t'.pos = (exaEnv E sc1.pos t.pos).len := hsy.eof C rfl
  exact exa_parse_single C.dok' (by omega) hadv' hex hend

/-- every expression node of a successful parse is exact -/
theorem exa_node_exact (hd : DecOK E) (hl : ExaDecLocal E) (ha : AsciiDec E) (hsep : ClassSep E)
    (hc : ExaClass E) {x : Seg} (hn : ExaNode E x) :
    parse (exaEnv E x.a x.b) = .ok [x.exaMv x.a] ∧ x.a ≤ x.b ∧ x.b ≤ E.len := by
  obtain ⟨s0, sc1, t, g0, hadv, hlen, hex⟩ := hn
  have g1 : Good E sc1 := by
    have := (advanceToNextExpression_post hd g0).1
    rw [hadv] at this; exact this.good
  -- first pass, with the whole rest of the input as range: the end is a rune boundary
  have C0 : ExaCtx E sc1.pos E.len :=
    ExaCtx.mk' hd hl ha g1.pos_le (Nat.le_refl _) (ExaReach.to_len hd _ g1.pos_le)
  have hs0 := exa_sync_init g1 g1.pos_le
  rcases hex with hout | ⟨hno, hin⟩
  · obtain ⟨gt, hlt, hxa, hxb⟩ := (parseOutputExpr_eok hd g1).elim_ok hout
    obtain ⟨_, _, y0⟩ := exa_parseOutputExpr C0 hc hs0 hout gt.pos_le
    have hr := y0.reach
    have C : ExaCtx E sc1.pos t.pos := ExaCtx.mk' hd hl ha (Nat.le_of_lt hlt) gt.pos_le hr
    have hs := exa_sync_init g1 (Nat.le_of_lt hlt)
    obtain ⟨t', hout', y⟩ := exa_parseOutputExpr C hc hs hout (Nat.le_refl _)
    rw [hxa, hxb]
    exact ⟨exa_parse_extracted hd hl ha hsep g1 hadv hlt gt.pos_le hr (Or.inl hout') y,
      Nat.le_of_lt hlt, gt.pos_le⟩
  · obtain ⟨gt, hlt, hxa, hxb⟩ := (parseInputExpr_eok hd g1).elim_ok hin
    obtain ⟨_, _, y0⟩ := exa_parseInputExpr C0 hc hs0 hin gt.pos_le
    have hr := y0.reach
    have C : ExaCtx E sc1.pos t.pos := ExaCtx.mk' hd hl ha (Nat.le_of_lt hlt) gt.pos_le hr
    have hs := exa_sync_init g1 (Nat.le_of_lt hlt)
    obtain ⟨t', hin', y⟩ := exa_parseInputExpr C hc hs hin (Nat.le_refl _)
    obtain ⟨_, _, hch, _⟩ := hs.lt C hlt
    -- the output attempt at the start of the extracted text fails as well
    have hno' : parseOutputExpr (exaEnv E sc1.pos t.pos) (initSc (exaEnv E sc1.pos t.pos)) =
        (initSc (exaEnv E sc1.pos t.pos), .no) := by
      rcases exa_inputExpr_cases hd g1 hin with ⟨_, h36⟩ | ⟨_, _, _, hins⟩
      · exact exa_output_at_dollar (hc.exaEnv _ _) (by rw [hch]; exact h36)
      · obtain ⟨s1, cols, hcol, hval, hvb⟩ := exa_insert_shape hd hc g1 hins
        exact exa_output_no_at_insert C hc hs hcol hval hvb
    rw [hxa, hxb]
    exact ⟨exa_parse_extracted hd hl ha hsep g1 hadv hlt gt.pos_le hr (Or.inr ⟨hno', hin'⟩) y,
      Nat.le_of_lt hlt, gt.pos_le⟩

end
end Sqlair
