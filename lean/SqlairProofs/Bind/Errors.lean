/-
  Bind/Errors: error classes.  No function of the input side reports one of the two
  internal error classes of the query builder, provided no insert column carries a slice
  locator (which `bindTypes` guarantees).
-/
import SqlairProofs.Bind.Fold

namespace Sqlair

/-- the two internal error classes of the query builder -/
def isInternal (e : String) : Prop := e = "internal-multiple-values" ∨ e = "internal-no-bulk-value"

instance (e : String) : Decidable (isInternal e) := by unfold isInternal; infer_instance

theorem fieldByIndex_err : ∀ (idx : List Nat) (v : GoVal) (first : Bool) (e : String),
    fieldByIndex v idx first = .error e → ¬ isInternal e := by
  intro idx
  induction idx with
  | nil => intro v first e h; simp [fieldByIndex] at h
  | cons i rest ih =>
    intro v first e h
    unfold fieldByIndex at h
    simp only at h
    split at h
    · rename_i e' heq
      cases h
      repeat' split at heq
      all_goals cases heq
      decide
    · split at h
      · exact ih _ _ _ h
      · cases h; decide
    · cases h; decide

theorem bulkElem_err {v : GoVal} {e : String} (h : bulkElem v = .error e) : ¬ isInternal e := by
  unfold bulkElem at h
  repeat' split at h
  all_goals cases h
  decide

theorem bulkMapVals_err (key : Bytes) : ∀ (els : List GoVal) (acc : List String) (e : String),
    bulkMapVals key els acc = .error e → ¬ isInternal e := by
  intro els
  induction els with
  | nil => intro acc e h; simp [bulkMapVals] at h
  | cons x rest ih =>
    intro acc e h
    unfold bulkMapVals at h
    split at h
    · rename_i hx; cases h; exact bulkElem_err hx
    · cases h; decide
    · split at h
      · cases h; decide
      · exact ih _ _ h
    · cases h; decide

theorem bulkFieldVals_err (f : SField) : ∀ (els : List GoVal) (first om : Bool) (acc : List String) (e : String),
    bulkFieldVals f els first om acc = .error e → ¬ isInternal e := by
  intro els
  induction els with
  | nil => intro first om acc e h; simp [bulkFieldVals] at h
  | cons x rest ih =>
    intro first om acc e h
    unfold bulkFieldVals at h
    split at h
    · rename_i hx; cases h; exact bulkElem_err hx
    · split at h
      · rename_i hx; cases h; exact fieldByIndex_err _ _ _ _ hx
      · repeat' split at h
        all_goals first | exact ih _ _ _ _ h | (cases h; decide)

theorem valueNotFound_not_internal (tt : TypeTable) (m : TypeToValue) (t : Nat) :
    ¬ isInternal (valueNotFound tt m t) := by
  unfold valueNotFound; split <;> decide

theorem locateParams_err {tt : TypeTable} {m : TypeToValue} {l : Loc} {e : String}
    (h : locateParams tt m l = .error e) : ¬ isInternal e := by
  unfold locateParams at h
  repeat' split at h
  all_goals first
    | (cases h; done)
    | (cases h; exact valueNotFound_not_internal _ _ _)
    | (cases h; decide)
    | (cases h; rename_i hx; first | exact fieldByIndex_err _ _ _ _ hx | exact bulkMapVals_err _ _ _ _ hx | exact bulkFieldVals_err _ _ _ _ _ _ hx)


theorem validateValue_err {v : GoVal} {e : String} (h : validateValue v = .error e) : ¬ isInternal e := by
  unfold validateValue at h
  repeat' split at h
  all_goals cases h
  all_goals decide

theorem validateInputs_err (tt : TypeTable) : ∀ (args : List GoVal) (m : TypeToValue) (e : String),
    validateInputs tt args m = .error e → ¬ isInternal e := by
  intro args
  induction args with
  | nil => intro m e h; simp [validateInputs] at h
  | cons a rest ih =>
    intro m e h
    unfold validateInputs at h
    split at h
    · rename_i hx; cases h; exact validateValue_err hx
    · simp only at h
      split at h
      · rename_i e' heq
        cases h
        repeat' split at heq
        all_goals cases heq
        all_goals decide
      · split at h
        · cases h; decide
        · exact ih _ _ h

/-- no insert column carries a slice locator -/
def NoSliceCols (cols : List TCol) : Prop :=
  ∀ loc column e, TCol.insert loc column e ∈ cols → ∀ t n, loc ≠ Loc.slice t n

theorem TCol.bind_err {tt : TypeTable} {m : TypeToValue} {c : TCol} {ic : Nat} {e : String}
    (hc : ∀ loc column ex, c = TCol.insert loc column ex → ∀ t n, loc ≠ Loc.slice t n)
    (h : c.bind tt m ic = .error e) : ¬ isInternal e := by
  unfold TCol.bind at h
  split at h
  · cases h
  · rename_i loc column explicit
    split at h
    · rename_i hx; cases h; exact locateParams_err hx
    · rename_i p hp
      split at h
      · rename_i hmulti
        exfalso
        simp at hmulti
        have := locateParams_single hp hmulti.1 (hc _ _ _ rfl)
        omega
      · split at h
        · cases h; decide
        · cases h

theorem bindCols_err {tt : TypeTable} {m : TypeToValue} : ∀ (cols : List TCol), NoSliceCols cols →
    ∀ (qb : QB) (acc : List BCol) (bulk : Bool) (numRows : Nat) (e : String),
    bindCols tt m cols qb acc bulk numRows = .error e → ¬ isInternal e := by
  intro cols
  induction cols with
  | nil => intro _ qb acc bulk numRows e h; simp [bindCols] at h
  | cons c rest ih =>
    intro hns qb acc bulk numRows e h
    unfold bindCols at h
    split at h
    · rename_i hx; cases h
      exact TCol.bind_err (fun loc column ex hc => hns loc column ex (hc ▸ List.mem_cons_self)) hx
    · simp only at h
      split at h
      · cases h; decide
      · exact ih (fun loc column ex hc => hns loc column ex (List.mem_cons_of_mem _ hc)) _ _ _ _ _ h

theorem addToQuery_err {tt : TypeTable} {m : TypeToValue} {qb : QB} {te : TExpr} {e : String}
    (hte : ∀ cols, te = .insert cols → NoSliceCols cols)
    (h : addToQuery tt m qb te = .error e) : ¬ isInternal e := by
  cases te with
  | bypass chunk => simp [addToQuery] at h
  | output cols => simp [addToQuery] at h
  | input loc =>
    unfold addToQuery at h
    simp only at h
    split at h
    · rename_i hx; cases h; exact locateParams_err hx
    · repeat' split at h
      all_goals cases h
      all_goals decide
  | insert cols =>
    unfold addToQuery at h
    simp only at h
    split at h
    · rename_i hx; cases h; exact bindCols_err cols (hte cols rfl) _ _ _ _ _ hx
    · rename_i qb1 bcs numRows hb
      exfalso
      obtain ⟨new, hbcs, _, _, _, _, h1, h2, _, _, _⟩ := bindCols_spec _ _ _ _ _ _ _ _ hb
      simp only [List.nil_append] at hbcs
      subst hbcs
      have : ∃ qb', addInsert qb1 bcs numRows = .ok qb' := by
        apply addInsert_ok
        intro bc hbc _
        cases hbk : bc.bulk
        · exact Or.inl (h1 bc hbc hbk)
        · exact Or.inr (h2 bc hbc hbk)
      obtain ⟨qb', hq⟩ := this
      rw [hq] at h; cases h

/-- an error of a fold is the error of one of its steps -/
theorem foldlM_except_error {α β ε : Type} (f : β → α → Except ε β) :
    ∀ (l : List α) (b : β) (e : ε), l.foldlM f b = .error e → ∃ b' a, a ∈ l ∧ f b' a = .error e := by
  intro l
  induction l with
  | nil => intro b e h; cases h
  | cons a l ih =>
    intro b e h
    rw [foldlM_except_cons] at h
    cases hfa : f b a with
    | error e' => rw [hfa] at h; cases h; exact ⟨b, a, List.mem_cons_self, hfa⟩
    | ok b1 =>
      rw [hfa] at h
      obtain ⟨b', a', ha', h'⟩ := ih b1 e h
      exact ⟨b', a', List.mem_cons_of_mem _ ha', h'⟩

/-- C07.12 (builder part): if no insert column carries a slice locator, `bindInputs`
    never reports an internal error -/
theorem bindInputs_no_internal_error {tt : TypeTable} {tes : List TExpr}
    (hns : ∀ cols, TExpr.insert cols ∈ tes → NoSliceCols cols) (args : List GoVal) (e : String)
    (h : bindInputs tt tes args = .error e) : ¬ isInternal e := by
  unfold bindInputs at h
  split at h
  · rename_i hx; cases h; exact validateInputs_err _ _ _ _ hx
  · split at h
    · rename_i hx; cases h
      obtain ⟨b', te, hte, hstep⟩ := foldlM_except_error _ _ _ _ hx
      exact addToQuery_err (fun cols hc => hns cols (hc ▸ hte)) hstep
    · split at h
      · cases h
      · cases h; decide


end Sqlair
