/-
  E2E/Samples: what a successful `generateArgInfo` says about the samples (C07 (1)), and the
  tags of a struct info are pairwise distinct.
-/
import SqlairProofs.E2E.Shapes

namespace Sqlair

/-- `reflect.Type.Name()` of a sample (`#[]` for the untyped nil) -/
def e2eSampleName (tt : TypeTable) : Option Nat → Bytes
  | some tid => (tt.get tid).name
  | none => #[]

/-- sample and info correspond: the sample is a named struct, map or slice type and the info
    is what `getArgInfo` computes for it, keyed by the type name -/
def E2ESampleInfo (C : Cls) (tt : TypeTable) (s : Option Nat) (p : Bytes × ArgInfo) : Prop :=
  ∃ tid, s = some tid ∧
    ((tt.get tid).kind = .struct ∨ (tt.get tid).kind = .map ∨ (tt.get tid).kind = .slice) ∧
    (tt.get tid).name.size ≠ 0 ∧ getArgInfo C tt tid = .ok p.2 ∧ p.1 = (tt.get tid).name

theorem Corr.append_left {α β : Type} {R : α → β → Prop} {a : α} {b : β} {l : List α} {l' : List β}
    (h : R a b) (ht : Corr R l l') : Corr R (a :: l) (b :: l') := .cons h ht

theorem generateArgInfo_spec {C : Cls} {tt : TypeTable} :
    ∀ (samples : List (Option Nat)) (acc infos : List (Bytes × ArgInfo)),
    generateArgInfo C tt samples acc = .ok infos →
    ∃ new, infos = acc ++ new ∧ Corr (E2ESampleInfo C tt) samples new ∧
      ((acc.map (·.1)).Nodup → (infos.map (·.1)).Nodup) := by
  intro samples
  induction samples with
  | nil =>
    intro acc infos h; simp only [generateArgInfo] at h; cases h
    exact ⟨[], by simp, .nil, id⟩
  | cons smp rest ih =>
    intro acc infos h
    cases smp with
    | none => simp only [generateArgInfo] at h; cases h
    | some tid =>
      simp only [generateArgInfo] at h
      have key : ∀ (hk : (tt.get tid).kind = .struct ∨ (tt.get tid).kind = .map ∨ (tt.get tid).kind = .slice),
          (if ((tt.get tid).name.size == 0) = true then (Except.error "sample-anonymous" : Except String _) else
            match getArgInfo C tt tid with
            | .error e => .error e
            | .ok info =>
              if acc.any (fun p => p.1 == (tt.get tid).name) = true then .error "sample-duplicate-name"
              else generateArgInfo C tt rest (acc ++ [((tt.get tid).name, info)])) = .ok infos →
          ∃ new, infos = acc ++ new ∧ Corr (E2ESampleInfo C tt) (some tid :: rest) new ∧
            ((acc.map (·.1)).Nodup → (infos.map (·.1)).Nodup) := by
        intro hk h
        split at h
        · cases h
        · rename_i hsz
          simp only [beq_iff_eq] at hsz
          split at h
          · cases h
          · rename_i info hg
            split at h
            · cases h
            · rename_i hdup
              obtain ⟨new, hnew, hc, hnd⟩ := ih _ _ h
              refine ⟨((tt.get tid).name, info) :: new, by rw [hnew]; simp,
                .cons ⟨tid, rfl, hk, hsz, hg, rfl⟩ hc, ?_⟩
              intro hacc
              apply hnd
              rw [List.map_append, List.nodup_append]
              refine ⟨hacc, by simp, ?_⟩
              intro a ha b hb hab
              simp only [List.map_cons, List.map_nil, List.mem_singleton] at hb
              subst hb; subst hab
              apply hdup
              obtain ⟨p, hp, hpa⟩ := List.mem_map.1 ha
              exact List.any_eq_true.2 ⟨p, hp, by simp [hpa]⟩
      split at h
      · rename_i hk; exact key (.inl hk) h
      · rename_i hk; exact key (.inr (.inl hk)) h
      · rename_i hk; exact key (.inr (.inr hk)) h
      · cases h
      · cases h

/-! ### distinct tags -/

theorem firstDupTag_false : ∀ (fields : List SField) (seen : List Bytes), firstDupTag fields seen = false →
    (fields.map (·.tag)).Nodup ∧ ∀ f ∈ fields, f.tag ∉ seen := by
  intro fields
  induction fields with
  | nil => intro seen _; exact ⟨by simp, by simp⟩
  | cons f rest ih =>
    intro seen h
    simp only [firstDupTag] at h
    split at h
    · cases h
    · rename_i hns
      have hns' : f.tag ∉ seen := by simpa using hns
      obtain ⟨h1, h2⟩ := ih _ h
      refine ⟨?_, ?_⟩
      · rw [List.map_cons, List.nodup_cons]
        refine ⟨?_, h1⟩
        intro hmem
        obtain ⟨g, hg, hgt⟩ := List.mem_map.1 hmem
        exact h2 g hg (by rw [hgt]; exact List.mem_cons_self)
      · intro g hg
        rcases List.mem_cons.1 hg with rfl | hg
        · exact hns'
        · intro hmem; exact h2 g hg (List.mem_cons_of_mem _ hmem)

theorem insertSorted_perm (x : Bytes) : ∀ (l : List Bytes), (insertSorted x l).Perm (x :: l) := by
  intro l
  induction l with
  | nil => exact List.Perm.refl _
  | cons y ys ih =>
    simp only [insertSorted]
    split
    · exact ((List.Perm.cons y ih).trans (List.Perm.swap x y ys))
    · exact List.Perm.refl _

theorem sortBytes_foldl_perm : ∀ (l acc : List Bytes),
    (l.foldl (fun acc x => insertSorted x acc) acc).Perm (l ++ acc) := by
  intro l
  induction l with
  | nil => intro acc; exact List.Perm.refl _
  | cons x xs ih =>
    intro acc
    simp only [List.foldl_cons]
    refine (ih _).trans ?_
    refine ((insertSorted_perm x acc).append_left xs).trans ?_
    simp only [List.cons_append]
    exact List.perm_middle

theorem sortBytes_perm (l : List Bytes) : (sortBytes l).Perm l := by
  have := sortBytes_foldl_perm l []
  simpa [sortBytes] using this

/-- the tags of the members of `T.*` are a sublist of the sorted tags -/
theorem starFieldsOf_tags_sublist (fields : List SField) (tags : List Bytes) :
    ((starFieldsOf fields tags).map (·.tag)).Sublist tags := by
  unfold starFieldsOf
  induction tags with
  | nil => exact List.Sublist.slnil
  | cons t rest ih =>
    simp only [List.filterMap_cons]
    cases hf : fields.find? (fun f => f.tag == t) with
    | none => exact List.Sublist.cons _ ih
    | some f =>
      have ht : f.tag = t := by simpa using List.find?_some hf
      simp only [List.map_cons, ht]
      exact List.Sublist.cons_cons _ ih

theorem getArgInfo_struct {C : Cls} {tt : TypeTable} {tid tid' : Nat} {n : Bytes} {fields : List SField}
    {tags : List Bytes} (h : getArgInfo C tt tid = .ok (.struct tid' n fields tags)) :
    tid' = tid ∧ n = (tt.get tid).name ∧ (tt.get tid).kind = .struct ∧
      (fields.map (·.tag)).Nodup ∧ tags = sortBytes (fields.map (·.tag)) := by
  unfold getArgInfo at h
  simp only [] at h
  split at h
  · split at h <;> cases h
  · rename_i hk
    split at h
    · cases h
    · split at h
      · cases h
      · rename_i hdup
        cases h
        exact ⟨rfl, rfl, hk, (firstDupTag_false _ _ (by simpa using hdup)).1, rfl⟩
  · cases h
  · cases h

/-- the members of `T.*` of a struct info computed by `getArgInfo` have pairwise distinct tags -/
theorem starFields_tags_nodup {C : Cls} {tt : TypeTable} {tid tid' : Nat} {n : Bytes} {fields : List SField}
    {tags : List Bytes} (h : getArgInfo C tt tid = .ok (.struct tid' n fields tags)) :
    ((starFieldsOf fields tags).map (·.tag)).Nodup := by
  obtain ⟨_, _, _, hnd, rfl⟩ := getArgInfo_struct h
  exact (starFieldsOf_tags_sublist _ _).nodup ((sortBytes_perm _).nodup_iff.2 hnd)

/-- every info of a successful `generateArgInfo` comes from `getArgInfo` on a sample -/
theorem generateArgInfo_mem {C : Cls} {tt : TypeTable} {samples : List (Option Nat)}
    {infos : List (Bytes × ArgInfo)} (h : generateArgInfo C tt samples [] = .ok infos)
    {p : Bytes × ArgInfo} (hp : p ∈ infos) : ∃ s ∈ samples, E2ESampleInfo C tt s p := by
  obtain ⟨new, hnew, hc, _⟩ := generateArgInfo_spec _ _ _ h
  simp only [List.nil_append] at hnew
  subst hnew
  obtain ⟨i, hi, hpi⟩ := List.mem_iff_getElem.1 hp
  have hi' : i < samples.length := by rw [← hc.1]; exact hi
  have := hc.getElem i hi' hi
  rw [hpi] at this
  exact ⟨samples[i], List.getElem_mem _, this⟩

end Sqlair
