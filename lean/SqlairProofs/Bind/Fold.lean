/-
  Bind/Fold: the fold of `bindInputs` over the typed expressions: splitting at a position,
  what it appends to the state, and unfolding a successful `bindInputs`.
-/
import SqlairProofs.Bind.Step
namespace Sqlair

theorem foldlM_except_nil {α β ε : Type} (f : β → α → Except ε β) (b : β) :
    ([] : List α).foldlM f b = .ok b := rfl

/-- a successful fold over `pre ++ a :: post` passes through a successful step on `a` -/
theorem foldlM_except_split {α β ε : Type} (f : β → α → Except ε β) :
    ∀ (pre : List α) (a : α) (post : List α) (b b' : β),
    (pre ++ a :: post).foldlM f b = .ok b' →
    ∃ b1 b2, pre.foldlM f b = .ok b1 ∧ f b1 a = .ok b2 ∧ post.foldlM f b2 = .ok b' := by
  intro pre
  induction pre with
  | nil =>
    intro a post b b' h
    rw [List.nil_append, foldlM_except_cons] at h
    cases hfa : f b a with
    | error e => rw [hfa] at h; cases h
    | ok b2 => rw [hfa] at h; exact ⟨b, b2, rfl, hfa, h⟩
  | cons x pre ih =>
    intro a post b b' h
    rw [List.cons_append, foldlM_except_cons] at h
    cases hfx : f b x with
    | error e => rw [hfx] at h; cases h
    | ok bx =>
      rw [hfx] at h
      obtain ⟨b1, b2, h1, h2, h3⟩ := ih a post bx b' h
      exact ⟨b1, b2, by rw [foldlM_except_cons, hfx]; exact h1, h2, h3⟩

/-- what the fold of `bindInputs` appends to the state, in terms of the typed expressions -/
theorem foldlM_addToQuery_grow {tt : TypeTable} {m : TypeToValue} :
    ∀ (tes : List TExpr) (qb qb' : QB), tes.foldlM (addToQuery tt m) qb = .ok qb' →
    (∃ ps, qb'.pieces = qb.pieces ++ ps ∧ ps.length = tes.length ∧
      ps.flatMap Piece.outCols = (tes.flatMap TExpr.outCols).map (·.1)) ∧
    (∃ pms, qb'.params = qb.params ++ pms) ∧
    qb'.outputs = qb.outputs ++ (tes.flatMap TExpr.outCols).map (·.2) := by
  intro tes
  induction tes with
  | nil => intro qb qb' h; cases h; exact ⟨⟨[], by simp⟩, ⟨[], by simp⟩, by simp⟩
  | cons te rest ih =>
    intro qb qb' h
    rw [foldlM_except_cons] at h
    cases hs : addToQuery tt m qb te with
    | error e => rw [hs] at h; cases h
    | ok q1 =>
      rw [hs] at h
      obtain ⟨p, ps, s⟩ := addToQuery_step hs
      obtain ⟨⟨ps', h1, h2, h3⟩, ⟨pms, h4⟩, h5⟩ := ih q1 qb' h
      refine ⟨⟨p :: ps', by rw [h1, s.pieces]; simp, by simp [h2], ?_⟩, ⟨ps ++ pms, by rw [h4, s.params]; simp⟩, ?_⟩
      · simp [h3, s.outCols]
      · rw [h5, s.outputs]; simp

theorem bindInputs_ok_unfold {tt : TypeTable} {tes : List TExpr} {args : List GoVal} {pq : Primed}
    (h : bindInputs tt tes args = .ok pq) :
    ∃ m qb, validateInputs tt args [] = .ok m ∧ tes.foldlM (addToQuery tt m) {} = .ok qb ∧
      m.all (fun p => qb.argUsed.contains p.1) = true ∧
      pq = { pieces := qb.pieces, params := qb.params, outputs := qb.outputs } := by
  unfold bindInputs at h
  split at h
  · cases h
  · rename_i m hm
    split at h
    · cases h
    · rename_i qb hq
      split at h
      · rename_i hall; cases h; exact ⟨m, qb, hm, hq, hall, rfl⟩
      · cases h

/-- the result of a successful `bindInputs` is a state satisfying the invariant -/
theorem bindInputs_inv {tt : TypeTable} {tes : List TExpr} {args : List GoVal} {pq : Primed}
    (h : bindInputs tt tes args = .ok pq) :
    ∃ qb, QBInv qb ∧ pq.pieces = qb.pieces ∧ pq.params = qb.params ∧ pq.outputs = qb.outputs := by
  obtain ⟨m, qb, _, hq, _, rfl⟩ := bindInputs_ok_unfold h
  exact ⟨qb, foldlM_addToQuery_inv QBInv.init hq, rfl, rfl, rfl⟩

/-- the step of `bindInputs` on the expression at a given position of `tes` -/
theorem bindInputs_step_at {tt : TypeTable} {pre post : List TExpr} {te : TExpr} {args : List GoVal}
    {pq : Primed} (h : bindInputs tt (pre ++ te :: post) args = .ok pq) :
    ∃ m q1 q2, validateInputs tt args [] = .ok m ∧ QBInv q1 ∧ addToQuery tt m q1 te = .ok q2 ∧
      q1.pieces.length = pre.length ∧
      (∃ rest, pq.pieces = q2.pieces ++ rest) ∧ (∃ rest, pq.params = q2.params ++ rest) ∧
      (∃ rest, pq.outputs = q2.outputs ++ rest) := by
  obtain ⟨m, qb, hm, hq, _, rfl⟩ := bindInputs_ok_unfold h
  obtain ⟨q1, q2, h1, h2, h3⟩ := foldlM_except_split _ _ _ _ _ _ hq
  obtain ⟨⟨ps, g1, g2, _⟩, _, _⟩ := foldlM_addToQuery_grow _ _ _ h1
  obtain ⟨⟨ps', k1, _, _⟩, ⟨pms, k2⟩, k3⟩ := foldlM_addToQuery_grow _ _ _ h3
  exact ⟨m, q1, q2, hm, foldlM_addToQuery_inv QBInv.init h1, h2, by simp [g1, g2],
    ⟨ps', k1⟩, ⟨pms, k2⟩, ⟨_, k3⟩⟩



/-- `bindInputs_step_at` with the position of the new piece and parameters in the result -/
theorem bindInputs_step_at' {tt : TypeTable} {pre post : List TExpr} {te : TExpr} {args : List GoVal}
    {pq : Primed} (h : bindInputs tt (pre ++ te :: post) args = .ok pq) :
    ∃ m q1 q2, validateInputs tt args [] = .ok m ∧ QBInv q1 ∧ addToQuery tt m q1 te = .ok q2 ∧
      (∀ p, q2.pieces = q1.pieces ++ [p] → pq.pieces[pre.length]? = some p) ∧
      (∀ ps, q2.params = q1.params ++ ps → ∃ before after, pq.params = before ++ ps ++ after) := by
  obtain ⟨m, q1, q2, hm, inv, hs, hlen, ⟨r1, h1⟩, ⟨r2, h2⟩, _⟩ := bindInputs_step_at h
  refine ⟨m, q1, q2, hm, inv, hs, ?_, ?_⟩
  · intro p hp
    rw [h1, hp, ← hlen]
    simp
  · intro ps hps
    exact ⟨q1.params, r2, by rw [h2, hps]⟩

theorem locateParams_slice {tt : TypeTable} {m : TypeToValue} {tid : Nat} {n : Bytes} {p : Params}
    (h : locateParams tt m (.slice tid n) = .ok p) :
    ∃ hd els, ttvGet m tid = some (.slice hd els) ∧ p.vals = els.map (·.h.r) := by
  unfold locateParams at h
  simp only at h
  split at h
  · rename_i hd els hg; cases h; exact ⟨hd, els, hg, rfl⟩
  · cases h
  · cases h

theorem inputParams_map {α : Type} (c : Nat) (f : α → String) (els : List α) :
    inputParams c (els.map f) = ((List.range els.length).zip els).map (fun (i, e) => (c + i, f e)) := by
  unfold inputParams
  rw [List.length_map, List.zip_map_right, List.map_map]
  rfl

theorem inputParams_length (c : Nat) (vals : List String) : (inputParams c vals).length = vals.length := by
  simp [inputParams]

theorem inputParams_getElem? (c : Nat) (vals : List String) (i : Nat) :
    (inputParams c vals)[i]? = vals[i]?.map (fun v => (c + i, v)) := by
  unfold inputParams
  rw [List.getElem?_map, List.zip_eq_zipWith, List.getElem?_zipWith]
  rcases Nat.lt_or_ge i vals.length with h | h
  · rw [List.getElem?_range h, List.getElem?_eq_getElem h]; rfl
  · rw [List.getElem?_eq_none (l := vals) h]
    cases (List.range vals.length)[i]? <;> rfl


end Sqlair
