import SqlairProofs.Bind.Perm
import SqlairProofs.Bind.LocDefs

/-!
# C08 "perm" for prepared statements: the gap-A hypothesis can be dropped

`SqlairProofs/Bind/Perm.lean` proves argument-order invariance of `bindInputs` under two
hypotheses, `PtrSliceSym tt args` (gap A) and `SliceCanonOn tt (args.map argKey)` (gap B), and shows
by counterexamples that both are needed for ARBITRARY typed expressions `tes`.

Here: when the input locators of `tes` are well-kinded (`InputLocsKindOK tt tes`, which is what
`bindTypes` guarantees: field locators name struct types, map-key locators name map types, slice
locators name NAMED slice types), the gap-A hypothesis is not needed.  Reason: in every gap-A
situation the offending argument has an *unusable* type `s` (`Unusable tt s`: an anonymous slice
`[]P`, `P` of kind pointer, but not "`P` is the anonymous `*T` with `T` a struct or map").  No
well-kinded locator can mark such an argument as used -- not directly (`s` is neither a struct, nor a
map, nor a named slice) and not as a bulk argument (`s` is neither `[]T` nor `[]*T` for a struct/map
`T`) -- so `bindInputs` fails in EVERY order (`bindInputs_error_of_unusable`): with
"type-and-slice" in one order and at the latest with "argument-not-used" in the other.

The two gap-A counterexamples of `Perm.lean` are consistent with this: both `cxA_tes` and `cxA2_tes`
use the locator `.slice 2 #[]` whose type (`[]*S` resp. `[]P`) is an ANONYMOUS slice, so they are
not `InputLocsKindOK` (checked below); without that locator the argument `B` would be unused and
both orders would fail ("type-and-slice" resp. "argument-not-used", also checked below).

Main results:
* `bindInputs_error_of_unusable`
* `bindInputs_perm_invariant_of_kindOK`
-/

namespace Sqlair

/-! ## unusable argument types -/

/-- `s` is an anonymous slice `[]P` whose element type `P` has kind pointer, but NOT
    (`P` is anonymous and `P.elem` is a struct or map type), i.e. `s` is not `[]*T` for a
    struct/map type `T`.  An argument of such a type can be neither a slice input (anonymous) nor a
    bulk-insert argument. -/
def Unusable (tt : TypeTable) (s : Nat) : Prop :=
  (tt.get s).kind = .slice ∧ (tt.get s).name.size = 0 ∧ (tt.get (tt.get s).elem).kind = .ptr ∧
  ¬ ((tt.get (tt.get s).elem).name.size = 0 ∧
     ((tt.get (tt.get (tt.get s).elem).elem).kind = .struct ∨
      (tt.get (tt.get (tt.get s).elem).elem).kind = .map))

instance (tt : TypeTable) (s : Nat) : Decidable (Unusable tt s) := by
  unfold Unusable; infer_instance

/-- every violation of the gap-A side condition involves an unusable slice type -/
theorem unusable_of_not_ptrSliceOK {tt : TypeTable} {t s : Nat} (h : ¬ PtrSliceOK tt t s) :
    Unusable tt s := by
  unfold PtrSliceOK at h
  simp only [Classical.not_imp] at h
  obtain ⟨_, h1, h2, h3, h4, h5⟩ := h
  refine ⟨h1, h2, h3, ?_⟩
  rintro ⟨h6, h7⟩
  apply h5
  rw [h4] at h7
  exact ⟨by rcases h7 with h7 | h7 <;> simp [h7], fun _ => h6⟩

/-! ## what `locateParams` can report as the used argument type -/

private theorem isSliceOf_iff {tt : TypeTable} {s t : Nat} :
    isSliceOf tt s t = true ↔ (tt.get s).kind = .slice ∧ (tt.get s).name.size = 0 ∧ (tt.get s).elem = t := by
  simp [isSliceOf, and_assoc]

private theorem isSliceOfPtr_iff {tt : TypeTable} {s t : Nat} :
    isSliceOfPtr tt s t = true ↔
      (tt.get s).kind = .slice ∧ (tt.get s).name.size = 0 ∧ (tt.get (tt.get s).elem).kind = .ptr ∧
      (tt.get (tt.get s).elem).name.size = 0 ∧ (tt.get (tt.get s).elem).elem = t := by
  simp [isSliceOfPtr, and_assoc]

/-- `locateBulk` returns the value of an entry whose key is `[]t` or `[]*t` -/
private theorem locateBulk_some {tt : TypeTable} {m : TypeToValue} {t : Nat} {v : GoVal}
    (h : locateBulk tt m t = some v) :
    ∃ k, (k, v) ∈ m ∧ (isSliceOf tt k t = true ∨ isSliceOfPtr tt k t = true) := by
  unfold locateBulk at h
  split at h
  · rename_i p hp
    cases h
    have h1 := List.find?_some hp
    exact ⟨p.1, List.mem_of_find?_eq_some hp, Or.inl h1⟩
  · cases hp : m.find? (fun p => isSliceOfPtr tt p.1 t) with
    | none => simp [hp] at h
    | some p =>
      simp only [hp, Option.map_some, Option.some.injEq] at h
      subst h
      have h1 := List.find?_some hp
      exact ⟨p.1, List.mem_of_find?_eq_some hp, Or.inr h1⟩

/-- an unusable type is neither `[]t` nor `[]*t` for a struct or map type `t` -/
theorem Unusable.not_bulk {tt : TypeTable} {s t : Nat} (hu : Unusable tt s)
    (ht : (tt.get t).kind = .struct ∨ (tt.get t).kind = .map)
    (h : isSliceOf tt s t = true ∨ isSliceOfPtr tt s t = true) : False := by
  obtain ⟨_, _, hptr, hno⟩ := hu
  rcases h with h | h
  · obtain ⟨_, _, he⟩ := isSliceOf_iff.1 h
    rw [he] at hptr
    rcases ht with ht | ht <;> rw [ht] at hptr <;> cases hptr
  · obtain ⟨_, _, _, hn, he⟩ := isSliceOfPtr_iff.1 h
    exact hno ⟨hn, by rw [he]; exact ht⟩

/-- the entries of the validated map are keyed by the type id of their value -/
def KeyedByTid (m : TypeToValue) : Prop := ∀ e ∈ m, e.1 = e.2.tid

private theorem keyedByTid_map_argEntry (args : List GoVal) : KeyedByTid (args.map argEntry) := by
  intro e he
  obtain ⟨a, _, rfl⟩ := List.mem_map.1 he
  rfl

/-- a well-kinded locator never reports an unusable type as the type of the argument it used -/
theorem locateParams_argType_ne_unusable {tt : TypeTable} {m : TypeToValue} {l : Loc} {p : Params}
    {s : Nat} (hm : KeyedByTid m) (hl : l.kindOK tt) (hu : Unusable tt s)
    (h : locateParams tt m l = .ok p) : p.argType ≠ s := by
  -- the bulk case, shared by `.field` and `.mapKey`
  have bulk : ∀ (tid : Nat) (hd : VH) (els : List GoVal),
      ((tt.get tid).kind = .struct ∨ (tt.get tid).kind = .map) →
      locateBulk tt m tid = some (.slice hd els) → hd.t ≠ s := by
    intro tid hd els hkind hb heq
    obtain ⟨k, hmem, hk⟩ := locateBulk_some hb
    have hks : k = s := (hm (k, .slice hd els) hmem).trans heq
    rw [hks] at hk
    exact hu.not_bulk hkind hk
  cases l with
  | slice tid n =>
    obtain ⟨_, hname⟩ := hl
    simp only [locateParams] at h
    split at h
    · cases h
      intro heq
      have heq' : tid = s := heq
      rw [heq'] at hname
      exact hname hu.2.1
    · cases h
    · cases h
  | mapKey tid n key =>
    have hkind : (tt.get tid).kind = .map := hl
    simp only [locateParams] at h
    split at h
    · split at h
      · cases h
      · cases h
        intro heq
        have heq' : tid = s := heq
        have := hu.1
        rw [← heq', hkind] at this
        cases this
    · cases h
    · split at h
      · rename_i hd els hb
        split at h
        · cases h
        · split at h
          · cases h
          · cases h
            exact bulk tid hd els (Or.inr hkind) hb
      · cases h
      · cases h
  | field tid n f =>
    have hkind : (tt.get tid).kind = .struct := hl
    simp only [locateParams] at h
    split at h
    · split at h
      · cases h
      · cases h
        intro heq
        have heq' : tid = s := heq
        have := hu.1
        rw [← heq', hkind] at this
        cases this
    · split at h
      · rename_i hd els hb
        split at h
        · cases h
        · split at h
          · cases h
          · cases h
            exact bulk tid hd els (Or.inl hkind) hb
      · cases h
      · cases h

/-! ## the `argUsed` invariant of the query builder -/

/-- `t` is the argument type reported by some well-kinded locator -/
def Usable (tt : TypeTable) (m : TypeToValue) (t : Nat) : Prop :=
  ∃ l : Loc, l.kindOK tt ∧ ∃ p, locateParams tt m l = .ok p ∧ p.argType = t

theorem Usable.ne_unusable {tt : TypeTable} {m : TypeToValue} {t s : Nat} (hm : KeyedByTid m)
    (h : Usable tt m t) (hu : Unusable tt s) : t ≠ s := by
  obtain ⟨l, hl, p, hp, rfl⟩ := h
  exact locateParams_argType_ne_unusable hm hl hu hp

/-- every type marked as used comes from a well-kinded locator -/
def UsedInv (tt : TypeTable) (m : TypeToValue) (qb : QB) : Prop := ∀ t ∈ qb.argUsed, Usable tt m t

private theorem mem_markUsed {used : List Nat} {t x : Nat} (h : x ∈ markUsed used t) : x = t ∨ x ∈ used := by
  unfold markUsed at h
  split at h
  · exact Or.inr h
  · exact List.mem_cons.1 h

private theorem TCol.bind_argType {tt : TypeTable} {m : TypeToValue} {c : TCol} {ic0 ic : Nat} {bc : BCol}
    (h : c.bind tt m ic0 = .ok (bc, ic)) (t : Nat) (ht : bc.argType = some t) :
    ∃ l p, c.loc? = some l ∧ locateParams tt m l = .ok p ∧ p.argType = t := by
  cases c with
  | literal column lit =>
    simp only [TCol.bind, Except.ok.injEq, Prod.mk.injEq] at h
    obtain ⟨rfl, _⟩ := h
    cases ht
  | insert loc column explicit =>
    simp only [TCol.bind] at h
    split at h
    · cases h
    · rename_i p hp
      split at h
      · cases h
      · split at h
        · cases h
        · simp only [Except.ok.injEq, Prod.mk.injEq] at h
          obtain ⟨rfl, _⟩ := h
          simp only [Option.some.injEq] at ht
          exact ⟨loc, p, rfl, hp, ht⟩

theorem bindCols_usedInv {tt : TypeTable} {m : TypeToValue} :
    ∀ (cols : List TCol) (qb : QB) (acc : List BCol) (bulk : Bool) (numRows : Nat)
      (r : QB × List BCol × Nat),
      (∀ c ∈ cols, ∀ l, c.loc? = some l → l.kindOK tt) →
      UsedInv tt m qb → bindCols tt m cols qb acc bulk numRows = .ok r → UsedInv tt m r.1
  | [], qb, acc, bulk, numRows, r, _, hinv, h => by
    simp only [bindCols, Except.ok.injEq] at h
    subst h
    exact hinv
  | c :: rest, qb, acc, bulk, numRows, r, hk, hinv, h => by
    simp only [bindCols] at h
    split at h
    · cases h
    · rename_i bc ic hb
      split at h
      · cases h
      · refine bindCols_usedInv rest _ _ _ _ r (fun c' hc' => hk c' (List.mem_cons_of_mem _ hc')) ?_ h
        cases hat : bc.argType with
        | none => exact hinv
        | some t =>
          intro x hx
          rcases mem_markUsed hx with rfl | hx
          · obtain ⟨l, p, hl, hp, hpt⟩ := TCol.bind_argType hb x hat
            exact ⟨l, hk c (List.mem_cons_self ..) l hl, p, hp, hpt⟩
          · exact hinv x hx

private theorem addInsert_argUsed {qb qb' : QB} {cols : List BCol} {n : Nat}
    (h : addInsert qb cols n = .ok qb') : qb'.argUsed = qb.argUsed := by
  unfold addInsert at h
  split at h
  · cases h
  · cases h; rfl

theorem addToQuery_usedInv {tt : TypeTable} {m : TypeToValue} {qb qb' : QB} {te : TExpr}
    (hk : ∀ l ∈ te.inputLocs, l.kindOK tt) (hinv : UsedInv tt m qb)
    (h : addToQuery tt m qb te = .ok qb') : UsedInv tt m qb' := by
  cases te with
  | bypass chunk =>
    simp only [addToQuery, Except.ok.injEq] at h
    subst h; exact hinv
  | output cols =>
    simp only [addToQuery, Except.ok.injEq] at h
    subst h; exact hinv
  | input loc =>
    simp only [addToQuery] at h
    split at h
    · cases h
    · rename_i p hp
      split at h
      · cases h
      · split at h
        · cases h
        · simp only [Except.ok.injEq] at h
          subst h
          intro x hx
          rcases mem_markUsed hx with rfl | hx
          · exact ⟨loc, hk loc (by simp [TExpr.inputLocs]), p, hp, rfl⟩
          · exact hinv x hx
  | insert cols =>
    simp only [addToQuery] at h
    split at h
    · cases h
    · rename_i qb1 bcs nr hb
      have h1 : UsedInv tt m qb1 :=
        bindCols_usedInv cols qb [] false 1 (qb1, bcs, nr)
          (fun c hc l hl => hk l (List.mem_filterMap.2 ⟨c, hc, hl⟩)) hinv hb
      intro x hx
      rw [addInsert_argUsed h] at hx
      exact h1 x hx

/-- a successful `foldlM` in `Except` preserves every invariant preserved by the successful steps -/
private theorem foldlM_except_invariant {α β ε : Type} (f : β → α → Except ε β) (P : β → Prop) (Q : α → Prop)
    (step : ∀ b a b', Q a → P b → f b a = .ok b' → P b') :
    ∀ (l : List α) (b b' : β), (∀ a ∈ l, Q a) → P b → l.foldlM f b = .ok b' → P b'
  | [], b, b', _, hb, h => by
    cases h; exact hb
  | a :: l, b, b', hq, hb, h => by
    rw [List.foldlM_cons] at h
    cases hs : f b a with
    | error e => rw [hs] at h; cases h
    | ok b1 =>
      rw [hs] at h
      exact foldlM_except_invariant f P Q step l b1 b' (fun a' ha' => hq a' (List.mem_cons_of_mem _ ha'))
        (step b a b1 (hq a (List.mem_cons_self ..)) hb hs) h

theorem foldlM_addToQuery_usedInv {tt : TypeTable} {m : TypeToValue} {tes : List TExpr} {qb : QB}
    (hk : InputLocsKindOK tt tes) (h : tes.foldlM (addToQuery tt m) ({} : QB) = .ok qb) :
    UsedInv tt m qb :=
  foldlM_except_invariant (addToQuery tt m) (UsedInv tt m) (fun te => ∀ l ∈ te.inputLocs, l.kindOK tt)
    (fun _ _ _ hq hb hs => addToQuery_usedInv hq hb hs) tes {} qb hk
    (fun t ht => by cases ht) h

/-! ## main results -/

/-- **Key lemma.**  If the input locators are well-kinded, any argument list containing an argument
    of an unusable type is rejected by `bindInputs` (by `validateInputs`, by a locator, or at the
    latest with "argument-not-used"). -/
theorem bindInputs_error_of_unusable (tt : TypeTable) (tes : List TExpr) {args : List GoVal}
    {b : GoVal} (hk : InputLocsKindOK tt tes) (hb : b ∈ args) (hu : Unusable tt (argKey b)) :
    (bindInputs tt tes args).toOption = none := by
  unfold bindInputs
  cases hv : validateInputs tt args [] with
  | error e => rfl
  | ok m =>
    obtain ⟨rfl, _⟩ := (validateInputs_nil_ok_iff tt args m).1 hv
    simp only
    cases hf : tes.foldlM (addToQuery tt (args.map argEntry)) ({} : QB) with
    | error e => rfl
    | ok qb =>
      have hinv := foldlM_addToQuery_usedInv hk hf
      have hnot : qb.argUsed.contains (argKey b) = false := by
        cases hc : qb.argUsed.contains (argKey b) with
        | false => rfl
        | true =>
          have hmem : argKey b ∈ qb.argUsed := by simpa using hc
          exact absurd rfl ((hinv _ hmem).ne_unusable (keyedByTid_map_argEntry args) hu)
      have hall : (args.map argEntry).all (fun p => qb.argUsed.contains p.1) = false := by
        rw [List.all_eq_false]
        exact ⟨argEntry b, List.mem_map.2 ⟨b, hb, rfl⟩, by
          show ¬ qb.argUsed.contains (argKey b) = true
          rw [hnot]; exact Bool.false_ne_true⟩
      simp only [hall]
      rfl

/-- **C08 for prepared statements.**  When the input locators of `tes` are well-kinded (as
    `bindTypes` guarantees), acceptance and the whole result of `bindInputs` do not depend on the
    order of the arguments; only the gap-B (canonical slice types) hypothesis remains.
    In the gap-A situations of `Perm.lean` BOTH orders fail. -/
theorem bindInputs_perm_invariant_of_kindOK (tt : TypeTable) (tes : List TExpr) {args args' : List GoVal}
    (hk : InputLocsKindOK tt tes) (hB : SliceCanonOn tt (args.map argKey)) (hp : args.Perm args') :
    (bindInputs tt tes args).toOption = (bindInputs tt tes args').toOption := by
  by_cases hA : PtrSliceSym tt args
  · exact bindInputs_perm_invariant_partial tt tes hA hB hp
  · have hex : ∃ a ∈ args, ∃ b ∈ args, ¬ PtrSliceOK tt (argKey a) (argKey b) := by
      apply Classical.byContradiction
      intro hne
      apply hA
      intro a ha b hb
      apply Classical.byContradiction
      intro hn
      exact hne ⟨a, ha, b, hb, hn⟩
    obtain ⟨a, _, b, hb, hn⟩ := hex
    have hu := unusable_of_not_ptrSliceOK hn
    rw [bindInputs_error_of_unusable tt tes hk hb hu,
      bindInputs_error_of_unusable tt tes hk (hp.mem_iff.1 hb) hu]

/-- with the table-only gap-B hypothesis -/
theorem bindInputs_perm_invariant_of_kindOK' (tt : TypeTable) (tes : List TExpr) {args args' : List GoVal}
    (hk : InputLocsKindOK tt tes) (hB : SliceCanon tt) (hp : args.Perm args') :
    (bindInputs tt tes args).toOption = (bindInputs tt tes args').toOption :=
  bindInputs_perm_invariant_of_kindOK tt tes hk (hB.on _) hp

/-! ## non-vacuity and the relation to the gap-A counterexamples -/

/-- the non-vacuity data of `Perm.lean` is well-kinded -/
example : InputLocsKindOK nvTT nvTes := by unfold InputLocsKindOK; decide +kernel

/-- the theorem applied to it (both sides are `some _`, see `Perm.lean`) -/
example : (bindInputs nvTT nvTes [nvA, nvB]).toOption = (bindInputs nvTT nvTes [nvB, nvA]).toOption :=
  bindInputs_perm_invariant_of_kindOK nvTT nvTes (by unfold InputLocsKindOK; decide +kernel)
    (by decide +kernel) (List.Perm.swap _ _ _)

/-- the typed expressions of both gap-A counterexamples are NOT well-kinded: the locator
    `.slice 2 #[]` names the anonymous slice type `[]*S` resp. `[]P` -/
example : ¬ InputLocsKindOK cxA_tt cxA_tes := by unfold InputLocsKindOK; decide +kernel
example : ¬ InputLocsKindOK cxA2_tt cxA2_tes := by unfold InputLocsKindOK; decide +kernel

/-- the offending argument types of the gap-A counterexamples are unusable -/
example : Unusable cxA_tt (argKey cxA_B) ∧ Unusable cxA2_tt (argKey cxA2_B) :=
  ⟨by decide +kernel, by decide +kernel⟩

/-- gap-A arguments with well-kinded expressions (only the `$S[:]` input): the gap-A hypothesis
    fails, the theorem applies nevertheless, and both orders are rejected -- one with
    "type-and-slice", the other with "argument-not-used" -/
example :
    ¬ PtrSliceSym cxA_tt [cxA_A, cxA_B] ∧
    InputLocsKindOK cxA_tt [.input (.slice 0 #[83])] ∧
    bindInputs cxA_tt [.input (.slice 0 #[83])] [cxA_A, cxA_B] = .error "type-and-slice" ∧
    bindInputs cxA_tt [.input (.slice 0 #[83])] [cxA_B, cxA_A] = .error "argument-not-used" :=
  ⟨by decide +kernel, by unfold InputLocsKindOK; decide +kernel, rfl, rfl⟩

example :
    (bindInputs cxA_tt [.input (.slice 0 #[83])] [cxA_A, cxA_B]).toOption =
    (bindInputs cxA_tt [.input (.slice 0 #[83])] [cxA_B, cxA_A]).toOption :=
  bindInputs_perm_invariant_of_kindOK cxA_tt _ (by unfold InputLocsKindOK; decide +kernel)
    (by decide +kernel) (List.Perm.swap _ _ _)

end Sqlair

/-
Output of `#print axioms` (Lean 4.33.0), run in a scratch copy of this file:

#print axioms Sqlair.bindInputs_error_of_unusable
  'Sqlair.bindInputs_error_of_unusable' depends on axioms: [propext, Classical.choice, Quot.sound]
#print axioms Sqlair.bindInputs_perm_invariant_of_kindOK
  'Sqlair.bindInputs_perm_invariant_of_kindOK' depends on axioms: [propext, Classical.choice, Quot.sound]
#print axioms Sqlair.bindInputs_perm_invariant_of_kindOK'
  'Sqlair.bindInputs_perm_invariant_of_kindOK'' depends on axioms: [propext, Classical.choice, Quot.sound]
-/
