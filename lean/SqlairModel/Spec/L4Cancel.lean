/-
  Spec/L4Cancel: the clause `cancelReported` of `Driver/Rt.lean`, restated verbatim in the
  model library so that `SqlairProofs` can state a theorem about it without importing `Driver`.
-/
import SqlairModel.Spec.L4

namespace Sqlair.Rt

/-- C14, the cancellation half of its last sentence: when the query's context is cancelled
    while the result set is still open (the reference machine says so: it has every Close
    of the sequence return the context's error), no Close of the implementation presents
    the iteration as ended normally -/
def cancelReported (c : Case) (p : Pred) (o : Obs) : Bool :=
  if c.op != "iter" || c.cancelAt.isNone then true else
  let want := (c.calls.zip p.returns).filterMap fun (call, r) => if call == "close" then some r else none
  if want.isEmpty || !want.all (· == "ctx") then true else
  (closeResults c o).all (· != "")

end Sqlair.Rt
