// Package zoo is the fixed collection of named Go types the harness binds queries to.
// It covers every structural feature sqlair's type analysis looks at: tags (plain,
// unicode, numeric, quoted, omitempty, malformed), embedding (by value, by pointer,
// nested, unexported, non-struct, recursive), pointer / Valuer / Scanner / interface
// fields, maps (string keys, named string keys, wrong keys) and slices.
package zoo

import (
	"database/sql"
	"database/sql/driver"
	"fmt"
	"reflect"
	"strings"

	"github.com/canonical/sqlair"
	"verifharness/internal/zoo/other"
)

type Person struct {
	ID       int    `db:"id"`
	Name     string `db:"name"`
	Postcode int    `db:"address_id"`
}

type Address struct {
	ID       int    `db:"id"`
	District string `db:"district"`
	Street   string `db:"street"`
}

type Manager Person

// Omit has omitempty members of several kinds.
type Omit struct {
	ID   int     `db:"id,omitempty"`
	Name string  `db:"name, omitempty"`
	V    *int    `db:"v,omitempty"`
	W    string  `db:"w"`
	F    float64 `db:"f,omitempty"`
}

// OmitAll has omitempty members only: a zero value contributes no column at all.
type OmitAll struct {
	Auto int    `db:"auto,omitempty"`
	Gen  string `db:"gen,omitempty"`
}

// OmitKinds has omitempty members whose kinds are not scalars: structs (a Scanner/Valuer,
// sql.Null*), byte slices (nil and empty-but-not-nil differ for IsZero), interfaces, bool,
// pointers to structs.
type OmitKinds struct {
	ID int            `db:"id"`
	NS sql.NullString `db:"ns,omitempty"`
	NI sql.NullInt64  `db:"ni,omitempty"`
	V  MyV            `db:"v,omitempty"`
	Bs []byte         `db:"bs,omitempty"`
	A  any            `db:"a,omitempty"`
	Ok bool           `db:"ok,omitempty"`
	PV *MyV           `db:"pv,omitempty"`
}

// Emb embeds by value; EmbPtr by pointer; Deep nests both.
type Emb struct {
	Person
	Extra string `db:"extra"`
}

type Loc struct {
	Lat float64 `db:"lat"`
	Lon float64 `db:"lon,omitempty"`
}

type EmbPtr struct {
	*Loc
	N int `db:"n"`
}

type Deep struct {
	Emb
	*EmbPtr
	Top bool `db:"top"`
}

// Deep3 / Deep4 / Wide reach members through three and four levels of embedding, with
// several members at the deepest level and siblings after the embedded field.
type Coords struct {
	X   float64 `db:"cx"`
	Y   float64 `db:"cy"`
	Alt int64   `db:"alt"`
}

type Place struct {
	Coords
	Label string `db:"label"`
}

type Building struct {
	Floors int `db:"floors"`
	Place
	Owner string `db:"owner"`
}

type Deep3 struct {
	Building
	Name string `db:"site"`
}

type Deep4 struct {
	Tag string `db:"tag"`
	*Deep3
	Last int `db:"last"`
}

// Diamond: the same tag-less struct is reached through two embedding paths (no cycle).
type Record struct {
	Created int
	Note    string
}

type Employee struct {
	Record
	ID   int    `db:"id"`
	Name string `db:"name"`
}

type Office struct {
	Record
	City     string `db:"city"`
	OfficeID int    `db:"office_id"`
}

type EmployeeOffice struct {
	Employee
	*Office
}

// Tags has unusual but valid tags.
type Tags struct {
	A int    `db:"名前"`
	B int    `db:"9"`
	C string `db:"\"quoted\""`
	D string `db:"'q k'"`
	E int    `db:"_x"`
	F int    `db:"col_1"`
	G int    `db:"é"`
	H int    `db:"\"first.name\""`
	I int    `db:"'f(x)'"`
	J int    `db:"\"a b; c\""`
	// a tag that is another tag followed by a non-ASCII digit (a name character)
	K string `db:"住所"`
	L string `db:"住所２"`
	M int    `db:"n٣"`
	// format verbs: column text is data, never a format string
	N int    `db:"\"pct%done\""`
	O string `db:"'%d%%'"`
}

// SLevel and SCSV are Scanners (and Valuers) that are not structs: a defined integer and a
// defined slice of strings, both with pointer-receiver Scan. NULL reaches Scan as nil.
type SLevel int

func (l SLevel) Value() (driver.Value, error) { return int64(l), nil }
func (l *SLevel) Scan(v any) error {
	switch x := v.(type) {
	case int64:
		*l = SLevel(x)
	case nil:
		*l = -1
	default:
		return fmt.Errorf("SLevel: cannot scan %T", v)
	}
	return nil
}

type SCSV []string

func (c SCSV) Value() (driver.Value, error) {
	if c == nil {
		return "NIL", nil
	}
	return "[" + strings.Join(c, ",") + "]", nil
}
func (c *SCSV) Scan(v any) error {
	switch x := v.(type) {
	case []byte:
		*c = strings.Split(string(x), ",")
	case string:
		*c = strings.Split(x, ",")
	case nil:
		*c = SCSV{}
	default:
		return fmt.Errorf("SCSV: cannot scan %T", v)
	}
	return nil
}

// PLevel is a Valuer through its POINTER only: a member of type PLevel is an ordinary
// integer for the driver, however the struct holding it is passed (T, *T, []T, []*T).
type PLevel int

func (l *PLevel) Value() (driver.Value, error) { return fmt.Sprintf("level-%d", int(*l)), nil }

// PValued has a member whose pointer type is a Valuer, next to ordinary ones.
type PValued struct {
	ID int    `db:"id"`
	Lv PLevel `db:"lv"`
	N  string `db:"n"`
}

// RNode embeds a pointer to itself; ROuter and ROuter2 reach that cycle from outside it
// (by value and through a pointer): Prepare must report the recursion, wherever it starts.
type RNode struct {
	*RNode
	ID int `db:"id"`
}

type ROuter struct {
	RNode
	Name string `db:"name"`
}

type ROuter2 struct {
	*ROuter
	N int `db:"n"`
}

// HCity / HStreet / HHome: a pointer embedded inside a struct that is itself embedded by
// value; with the inner pointer nil the members promoted through it are unreachable (an
// error, not a panic).
type HCity struct {
	City string `db:"city"`
}

type HStreet struct {
	*HCity
	Street string `db:"street"`
}

type HHome struct {
	HStreet
	No int `db:"no"`
}

// ScanKinds has Scanner members of non-struct kinds.
type ScanKinds struct {
	ID   int     `db:"id"`
	Lv   SLevel  `db:"lv"`
	Tags SCSV    `db:"tags"`
	PLv  *SLevel `db:"plv"`
}

// MyV implements Valuer and Scanner.
type MyV struct{ X int64 }

func (m MyV) Value() (driver.Value, error) { return m.X, nil }
func (m *MyV) Scan(v any) error {
	switch x := v.(type) {
	case int64:
		m.X = x
	case nil:
		m.X = -1
	default:
		return fmt.Errorf("MyV: cannot scan %T", v)
	}
	return nil
}

type MyInt int
type MyStr string

// Kinds has one field of every supported leaf kind.
type Kinds struct {
	I    int            `db:"i"`
	I8   int8           `db:"i8"`
	U16  uint16         `db:"u16"`
	I64  int64          `db:"i64"`
	S    string         `db:"s"`
	B    bool           `db:"b"`
	F    float64        `db:"f"`
	Bs   []byte         `db:"bs"`
	PS   *string        `db:"ps"`
	PI   *int64         `db:"pi"`
	NS   sql.NullString `db:"ns"`
	NI   sql.NullInt64  `db:"ni"`
	V    MyV            `db:"v"`
	PV   *MyV           `db:"pv"`
	Any  any            `db:"anyf"`
	MI   MyInt          `db:"mi"`
	MS   MyStr          `db:"ms"`
	Skip int
	priv int
}

// EmbTagged: an embedded field with a tag is an ordinary member.
type EmbTagged struct {
	MyV `db:"myv"`
	Z   int `db:"z"`
}

type inner struct {
	X int `db:"x"`
}

// EmbUnexp: an unexported embedded struct is skipped.
type EmbUnexp struct {
	inner
	Y int `db:"y"`
}

// EmbNonStruct: an embedded non-struct without tag is skipped.
type EmbNonStruct struct {
	MyInt
	*MyStr
	Z int `db:"z"`
}

type NoTags struct {
	A int
	B string
}

type Empty struct{}

// --- rejected struct types ----------------------------------------------------------

type DupTags struct {
	Person
	Address
}

type DupDirect struct {
	A int `db:"a"`
	B int `db:"a"`
}

type BadUnexported struct {
	A int `db:"a"`
	b int `db:"b"`
}

type BadFlag struct {
	A int `db:"a,omitzero"`
}

type BadTag1 struct {
	A int `db:"5a"`
}

type BadTag2 struct {
	A int `db:"a b"`
}

type BadTag3 struct {
	A int `db:","`
}

type BadTag4 struct {
	A int `db:"'open"`
}

type BadTag5 struct {
	A int `db:"-x"`
}

// tags made of or padded with white space, stray commas
type BadTag6 struct {
	A int `db:" "`
}

type BadTag7 struct {
	A int `db:"  ,omitempty"`
}

type BadTag8 struct {
	A int `db:" id"`
}

type BadTag9 struct {
	A int `db:"id "`
}

type BadTag10 struct {
	A int `db:"\t"`
}

type BadTag11 struct {
	A int `db:"a,"`
}

type BadTag12 struct {
	A int `db:"a,omitempty,omitempty"`
}

type BadTag13 struct {
	A int `db:",omitempty"`
}

// Rec embeds a pointer to itself; Rec2/Rec3 form a cycle.
type Rec struct {
	*Rec
	ID int `db:"id"`
}

type Rec2 struct {
	*Rec3
	A int `db:"a"`
}

type Rec3 struct {
	*Rec2
	B int `db:"b"`
}

// --- maps and slices ----------------------------------------------------------------

type M = sqlair.M
type MS map[string]string
type MI map[string]int
type KeyT string
type MK map[KeyT]any
type BadMapInt map[int]string
type BadMapAny map[any]any

type S = sqlair.S
type Ints []int
type Strs []string
type Persons []Person
type PtrPersons []*Person
type Bytes []byte

// Level is a defined string type with its own driver value; Levels a slice of it (the
// elements of $Levels[:] must go through Level.Value); Graded has members of both kinds
// and of a named byte-slice type.
type Level string

func (l Level) Value() (driver.Value, error) { return "L:" + string(l), nil }

type Levels []Level

type Graded struct {
	ID   int    `db:"id"`
	Lv   Level  `db:"lv"`
	Blob Bytes  `db:"blob"`
	PLv  *Level `db:"plv"`
}

// Entry describes a zoo type.
type Entry struct {
	Name string
	Type reflect.Type
	// Tags are the valid db tags (structs) or suggested keys (maps).
	Tags []string
	Kind string // struct | map | slice
	// Bad: Prepare must reject a sample of this type.
	Bad bool
}

func e(v any, kind string, bad bool, tags ...string) Entry {
	t := reflect.TypeOf(v)
	return Entry{Name: t.Name(), Type: t, Tags: tags, Kind: kind, Bad: bad}
}

var mapKeys = []string{"k", "id", "name", "n", "p1", "mask", "'q k'", "名前", "9"}

// Entries is the zoo.
// WideOnly: generated wide structs that only the concurrent first-use scenario of the bind
// layer meets (they take no part in the generators).
var WideOnly []Entry

var Entries = []Entry{
	e(Person{}, "struct", false, "id", "name", "address_id"),
	e(Address{}, "struct", false, "id", "district", "street"),
	e(Manager{}, "struct", false, "id", "name", "address_id"),
	e(Omit{}, "struct", false, "id", "name", "v", "w", "f"),
	e(OmitAll{}, "struct", false, "auto", "gen"),
	e(OmitKinds{}, "struct", false, "id", "ns", "ni", "v", "bs", "a", "ok", "pv"),
	e(Emb{}, "struct", false, "id", "name", "address_id", "extra"),
	e(Loc{}, "struct", false, "lat", "lon"),
	e(EmbPtr{}, "struct", false, "lat", "lon", "n"),
	e(Deep{}, "struct", false, "id", "name", "address_id", "extra", "lat", "lon", "n", "top"),
	e(Deep3{}, "struct", false, "cx", "cy", "alt", "label", "floors", "owner", "site"),
	e(Deep4{}, "struct", false, "cx", "cy", "alt", "label", "floors", "owner", "site", "tag", "last"),
	e(EmployeeOffice{}, "struct", false, "id", "name", "city", "office_id"),
	e(Tags{}, "struct", false, "名前", "9", "\"quoted\"", "'q k'", "_x", "col_1", "é", "\"first.name\"", "'f(x)'", "\"a b; c\"", "住所", "住所２", "n٣", "\"pct%done\"", "'%d%%'"),
	e(Kinds{}, "struct", false, "i", "i8", "u16", "i64", "s", "b", "f", "bs", "ps", "pi", "ns", "ni", "v", "pv", "anyf", "mi", "ms"),
	e(EmbTagged{}, "struct", false, "myv", "z"),
	e(EmbUnexp{}, "struct", false, "y"),
	e(EmbNonStruct{}, "struct", false, "z"),
	e(NoTags{}, "struct", false),
	e(Empty{}, "struct", false),
	e(DupTags{}, "struct", true, "id"),
	e(DupDirect{}, "struct", true, "a"),
	e(BadUnexported{}, "struct", true, "a"),
	e(BadFlag{}, "struct", true, "a"),
	e(BadTag1{}, "struct", true, "5a"),
	e(BadTag2{}, "struct", true, "a"),
	e(BadTag3{}, "struct", true, "a"),
	e(BadTag4{}, "struct", true, "a"),
	e(BadTag5{}, "struct", true, "x"),
	e(BadTag6{}, "struct", true, "a"),
	e(BadTag7{}, "struct", true, "a"),
	e(BadTag8{}, "struct", true, "id"),
	e(BadTag9{}, "struct", true, "id"),
	e(BadTag10{}, "struct", true, "a"),
	e(BadTag11{}, "struct", true, "a"),
	e(BadTag12{}, "struct", true, "a"),
	e(BadTag13{}, "struct", true, "a"),
	e(Rec{}, "struct", true, "id"),
	e(Rec2{}, "struct", true, "a", "b"),
	e(M{}, "map", false, mapKeys...),
	e(MS{}, "map", false, mapKeys...),
	e(MI{}, "map", false, mapKeys...),
	e(MK{}, "map", false, mapKeys...),
	e(BadMapInt{}, "map", true, "k"),
	e(BadMapAny{}, "map", true, "k"),
	e(S{}, "slice", false),
	e(Ints{}, "slice", false),
	e(Strs{}, "slice", false),
	e(Persons{}, "slice", false),
	e(PtrPersons{}, "slice", false),
	e(Bytes{}, "slice", false),
	e(Levels{}, "slice", false),
	e(Graded{}, "struct", false, "id", "lv", "blob", "plv"),
	e(ScanKinds{}, "struct", false, "id", "lv", "tags", "plv"),
	e(HHome{}, "struct", false, "city", "street", "no"),
	e(PValued{}, "struct", false, "id", "lv", "n"),
}

// Shadows are types with the same name as a zoo type but from another package.
var Shadows = map[string]reflect.Type{
	"Person":  reflect.TypeOf(other.Person{}),
	"M":       reflect.TypeOf(other.M{}),
	"Ints":    reflect.TypeOf(other.Ints{}),
	"Address": reflect.TypeOf(other.Address{}),
	"Omit":    reflect.TypeOf(other.Omit{}),
	"MS":      reflect.TypeOf(other.MS{}),
	"Kinds":   reflect.TypeOf(other.Kinds{}),
	"S":       reflect.TypeOf(other.S{}),
}

// ByName finds an entry.
func ByName(name string) (Entry, bool) {
	for _, x := range Entries {
		if x.Name == name {
			return x, true
		}
	}
	return Entry{}, false
}
