/-
  Counting: open driver statements vs. cache entries, evicted statements and operations
  between `prepare` and `insert`; cache entries vs. the key sets.
-/
import SqlairProofs.Cache.Gc

namespace Sqlair.Cache

/-- driver statements on which `Close` has not been called -/
def openCount (st : St) : Nat := (st.ds.filter (fun x => !x.closeCalled)).length

/-- number of (statement, DB) slots in the cache -/
def entryCount (st : St) : Nat := (st.stmtDB.map (·.2.length)).sum

def Op.isPrepared (o : Op) : Bool := match o.pc with | .prepared _ => true | _ => false

/-- operations that have prepared a driver statement and not yet inserted it -/
def preparedCount (st : St) : Nat := (st.ops.filter (fun p => p.2.isPrepared)).length

def Op.preparedId (o : Op) : Nat := match o.pc with | .prepared id => id | _ => 0

theorem finCount_eq (ds : List DStmt) : finCount ds = (ds.filter (·.finalizer)).length := by
  unfold finCount
  rw [List.count_eq_countP, List.countP_map, List.countP_eq_length_filter]
  congr 1
  apply List.filter_congr
  intro x _
  simp

theorem open_le {st : St} (hi : Inv st) : openCount st ≤ entryCount st + finCount st.ds + preparedCount st := by
  let openIds := (st.ds.filter (fun x => !x.closeCalled)).map (·.id)
  let cacheIds := st.stmtDB.flatMap (fun p => p.2.map (·.2))
  let finIds := (st.ds.filter (·.finalizer)).map (·.id)
  let prepIds := (st.ops.filter (fun p => p.2.isPrepared)).map (·.2.preparedId)
  have hnd : openIds.Nodup := by
    have : (st.ds.map (·.id)).Nodup := by rw [hi.dsOK.ids]; exact List.nodup_range'
    exact this.sublist (List.Sublist.map _ List.filter_sublist)
  have hsub : openIds ⊆ cacheIds ++ finIds ++ prepIds := by
    intro i hi'
    obtain ⟨x, hx, rfl⟩ := List.mem_map.1 hi'
    obtain ⟨hxm, hxc⟩ := List.mem_filter.1 hx
    simp only [Bool.not_eq_true'] at hxc
    have hg := hi.dsOK.ids.get_of_mem hxm
    rcases hi.noLeak x.id x hg with h | h | ⟨s, d, h⟩ | ⟨t, o, hm, hpc⟩
    · rw [hxc] at h; cases h
    · apply List.mem_append_left; apply List.mem_append_right
      exact List.mem_map.2 ⟨x, List.mem_filter.2 ⟨hxm, h⟩, rfl⟩
    · apply List.mem_append_left; apply List.mem_append_left
      obtain ⟨row, hrow, hid⟩ := lookup2_some_hasKey h
      exact List.mem_flatMap.2 ⟨(s, row), alook_some_mem hrow, List.mem_map.2 ⟨(d, x.id), alook_some_mem hid, rfl⟩⟩
    · apply List.mem_append_right
      refine List.mem_map.2 ⟨(t, o), List.mem_filter.2 ⟨hm, ?_⟩, ?_⟩
      · simp [Op.isPrepared, hpc]
      · simp [Op.preparedId, hpc]
  have := hnd.length_le_of_subset hsub
  have e1 : openIds.length = openCount st := by simp [openIds, openCount]
  have e2 : cacheIds.length = entryCount st := by
    simp only [cacheIds, entryCount, List.length_flatMap, List.length_map]
  have e3 : finIds.length = finCount st.ds := by rw [finCount_eq]; simp [finIds]
  have e4 : prepIds.length = preparedCount st := by simp [prepIds, preparedCount]
  simp only [List.length_append] at this
  omega

theorem sum_map_le {α : Type} (f : α → Nat) (b : Nat) : ∀ (l : List α), (∀ a ∈ l, f a ≤ b) → (l.map f).sum ≤ l.length * b := by
  intro l
  induction l with
  | nil => intro _; simp
  | cons a l ih =>
    intro h
    simp only [List.map_cons, List.sum_cons, List.length_cons]
    have h1 := h a (List.mem_cons_self ..)
    have h2 := ih (fun a ha => h a (List.mem_cons_of_mem _ ha))
    rw [Nat.add_mul]
    omega

theorem entries_le {st : St} (hi : Inv st) : entryCount st ≤ st.stmtDB.length * st.dbStmt.length := by
  unfold entryCount
  apply sum_map_le
  intro p hp
  have hnd := hi.maps.row_nodup p hp
  have hal : alook st.stmtDB p.1 = some p.2 := alook_of_mem_nodup hi.maps.sKeys_nodup (by cases p; exact hp)
  have hsub : p.2.map (·.1) ⊆ st.dbStmt.map (·.1) := by
    intro d hd
    obtain ⟨q, hq, rfl⟩ := List.mem_map.1 hd
    have hq' : alook p.2 q.1 = some q.2 := alook_of_mem_nodup hnd (by cases q; exact hq)
    have : lookup2 st.stmtDB p.1 q.1 ≠ none := by
      rw [lookup2_eq, hal]; simp [hq']
    have hidx := (hi.maps.index p.1 q.1).2 this
    apply alook_isSome_iff.1
    unfold getIdx at hidx
    cases h : alook st.dbStmt q.1 with
    | none => rw [h] at hidx; simp at hidx
    | some l => rfl
  have := hnd.length_le_of_subset hsub
  simpa using this

end Sqlair.Cache
