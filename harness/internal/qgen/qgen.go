// Package qgen generates SQLair query strings: grammar based (mostly valid), glued with
// operators / blanks / keywords / literals / comments / non-ASCII text, mutated, and a
// malformed stream of raw bytes.  Every choice derives from the rng passed in.
package qgen

import (
	"strings"

	"verifharness/internal/rng"
)

// TypeDesc describes a type the generated queries may refer to.
type TypeDesc struct {
	Name string
	Kind string   // struct | map | slice
	Tags []string // db tags (struct) or suggested keys (map)
	Rare bool     // picked less often (types Prepare rejects)
	Hot  bool     // picked more often (members reached through several levels of embedding)
	Elem string   // slice types: name of the element type when it is itself a type of the schema
}

type Schema struct {
	Types []TypeDesc
}

// DefaultSchema is used by the parser layer (no real types needed).
var DefaultSchema = Schema{Types: []TypeDesc{
	{Name: "T", Kind: "struct", Tags: []string{"a", "b", "x", "id", "name"}},
	{Name: "Person", Kind: "struct", Tags: []string{"id", "name", "address_id", "\"quoted\"", "名前", "9"}},
	{Name: "Address", Kind: "struct", Tags: []string{"id", "street", "district"}},
	{Name: "M", Kind: "map", Tags: []string{"k", "mask", "n", "id", "name", "p1", "'q k'"}},
	{Name: "Ünï_1", Kind: "struct", Tags: []string{"é", "col_1"}},
	{Name: "_P", Kind: "map", Tags: []string{"a", "b"}},
	{Name: "S", Kind: "slice"},
	{Name: "Ids", Kind: "slice"},
}}

type G struct {
	R *rng.R
	S *Schema
	// Stats of what was generated.
	Forms map[string]int
}

func New(r *rng.R, s *Schema) *G { return &G{R: r, S: s, Forms: map[string]int{}} }

func (g *G) count(f string) { g.Forms[f]++ }

var blanks = []string{" ", " ", " ", "  ", "\t", "\n", "\r\n", " \n  "}
var glueOps = []string{"&", "|", "+", "-", "/", "*", "%", "=", "<", ">", "(", ")", "[", "]", ",", ";", ".", "==", "<>", "||", ">=", "!=", ":", "::", "$", "@", "?", "#"}
var keywords = []string{"SELECT", "FROM", "WHERE", "AND", "OR", "IN", "AS", "as", "aS", "VALUES", "values", "INSERT INTO t", "UPDATE t SET", "DELETE FROM", "LIMIT", "GROUP BY", "ORDER BY", "JOIN", "ON", "NOT", "NULL", "LIKE", "RETURNING", "asx", "VALUESx", "xAS"}
var plainIdents = []string{"a", "b", "c", "col1", "name", "id", "t", "p", "x_1", "_y", "foo", "count", "max"}
var oddIdents = []string{"\"quoted col\"", "'single'", "\"a\"\"b\"", "名前", "éa", "9", "123", "1a", "a1", "\"\"", "'it''s'", "\"&T.x\"", "'$M.k'", "\"--\"", "'/*'"}
var nonASCII = []string{"\u0080", "\u007f", "\u0081", "\u00ff", "\u0100", "\u07ff", "\u0800", "\uffff", "\U00010000", "\U0010ffff", "\x00", "é", "名", "ß", "ſ", "K", "٣", "²", "€", " ", " ", "😀", "�"}
var literals = []string{"'x'", "''", "'it''s'", "\"d\"", "'a,b'", "'(' ", "')'", "'$T.a'", "'&T.*'", "'--'", "'/* */'", "\"'\"", "'\"'", "'\n'", "''''", "'(*) VALUES ($T.*)'"}
var comments = []string{"-- c\n", "--\n", "-- $T.a\n", "-- 'q\n", "/* c */", "/**/", "/* $T.a */", "/* ' */", "/* -- */", "-- /* \n", "/* \n */", "--x", "/* unterminated", "-- &T.* AS\n", "/*/", "/* * / */"}
var numbers = []string{"1", "42", "3.14", "-1", "0x1F", "1e5", "NULL", "TRUE"}
var funcs = []string{"count('x)", "upper('anon)", "f(\"a)", "g(1, 'it''s'')", "count(*)", "max(a)", "f(a, b)", "coalesce(a, 'x')", "f(g(1), ')')", "f('--', \"(\")", "now()", "f(/* ) */ 1)", "f(-- )\n 2)", "substr(name, 1, 2)", "f($T.a)", "f((1),(2))", "strftime('%Y', a)", "printf('%05d%%', id)", "f(a % 2, b %s c)", "like(name, 'a%v')"}

func (g *G) blank() string {
	if g.R.Chance(1, 14) {
		// a comment where a blank may stand, also inside expressions
		if g.R.Chance(1, 2) {
			return g.R.Pick(blanks) + g.R.Pick(comments) + g.R.Pick(blanks)
		}
		return g.R.Pick(blanks) + g.RandComment() + g.R.Pick(blanks)
	}
	return g.R.Pick(blanks)
}
func (g *G) optBlank() string {
	if g.R.Chance(1, 3) {
		return g.blank()
	}
	return ""
}

func (g *G) typ(kind string) TypeDesc {
	var c []TypeDesc
	for _, t := range g.S.Types {
		if kind == "" || t.Kind == kind || (kind == "member" && t.Kind != "slice") {
			c = append(c, t)
			if !t.Rare {
				c = append(c, t, t, t, t, t, t, t)
			}
			if t.Hot {
				for k := 0; k < 24; k++ {
					c = append(c, t)
				}
			}
		}
	}
	if len(c) == 0 || g.R.Chance(1, 40) {
		// wrong-kind or unknown type on purpose
		if g.R.Chance(1, 2) || len(g.S.Types) == 0 {
			return TypeDesc{Name: g.R.Pick([]string{"Unknown", "t", "x9", "_"}), Kind: "struct", Tags: []string{"a"}}
		}
		return g.S.Types[g.R.Intn(len(g.S.Types))]
	}
	return c[g.R.Intn(len(c))]
}

func (g *G) tag(t TypeDesc) string {
	if len(t.Tags) == 0 || g.R.Chance(1, 30) {
		return g.R.Pick(append(plainIdents, oddIdents...))
	}
	return t.Tags[g.R.Intn(len(t.Tags))]
}

func (g *G) column() string {
	id := g.R.Pick(plainIdents)
	if g.R.Chance(1, 8) {
		id = g.R.Pick(oddIdents)
	}
	switch g.R.Intn(10) {
	case 0, 1:
		return g.R.Pick(plainIdents) + "." + id
	case 2:
		return g.R.Pick(funcs)
	default:
		return id
	}
}

// Member input: $T.m
func (g *G) memberInput() string {
	g.count("member")
	t := g.typ("member")
	return "$" + t.Name + "." + g.tag(t)
}

func (g *G) sliceInput() string {
	g.count("slice")
	t := g.typ("slice")
	switch g.R.Intn(6) {
	case 0:
		return "$" + t.Name + "[ : ]"
	case 1:
		return "$" + t.Name + "[:\n]"
	}
	return "$" + t.Name + "[:]"
}

func (g *G) sep() string { return g.optBlank() + "," + g.optBlank() }

func (g *G) list(n int, f func() string) string {
	var sb strings.Builder
	sb.WriteString("(" + g.optBlank())
	for i := 0; i < n; i++ {
		if i > 0 {
			sb.WriteString(g.sep())
		}
		sb.WriteString(f())
	}
	sb.WriteString(g.optBlank() + ")")
	return sb.String()
}

func (g *G) as() string {
	return g.blank() + g.R.Pick([]string{"AS", "AS", "AS", "as", "As"}) + g.blank()
}

// OutputExpr draws one output expression.
func (g *G) OutputExpr() string { return g.outputExpr() }

func (g *G) outputExpr() string {
	switch g.R.Intn(14) {
	case 12, 13:
		// asterisk column with named members (generated columns with a table prefix)
		g.count("out:t.* AS &T.m")
		pre := "*"
		if g.R.Chance(2, 3) {
			pre = g.R.Pick(plainIdents) + ".*"
		}
		n := 1 + g.R.Intn(2)
		used := map[string]bool{}
		member := func() string {
			t := g.typ("member")
			m := g.tag(t)
			for i := 0; used[t.Name+"."+m] && i < 5; i++ {
				m = g.tag(t)
			}
			used[t.Name+"."+m] = true
			return "&" + t.Name + "." + m
		}
		if n == 1 && g.R.Chance(1, 2) {
			return pre + g.as() + member()
		}
		if g.R.Chance(1, 3) {
			// an asterisk among other columns, as many columns as named members: the counts
			// agree, the asterisk still stands for an unknown number of columns
			g.count("out:(t.*, c) AS (&T.m, &T.n)")
			cols := []string{pre}
			for len(cols) < 2 || g.R.Chance(1, 3) {
				cols = append(cols, g.column())
			}
			if g.R.Chance(1, 2) {
				cols[0], cols[len(cols)-1] = cols[len(cols)-1], cols[0]
			}
			k := len(cols)
			return "(" + strings.Join(cols, g.sep()) + ")" + g.as() + g.list(k, member)
		}
		if g.R.Chance(1, 2) {
			pre = "(" + pre + ")"
		}
		return pre + g.as() + g.list(n, member)
	case 0, 1:
		g.count("out:&T.*")
		return "&" + g.typ("struct").Name + ".*"
	case 2, 3:
		g.count("out:&T.m")
		t := g.typ("member")
		return "&" + t.Name + "." + g.tag(t)
	case 4:
		g.count("out:c AS &T.m")
		t := g.typ("member")
		return g.column() + g.as() + "&" + t.Name + "." + g.tag(t)
	case 5:
		g.count("out:t.* AS &T.*")
		return g.R.Pick(plainIdents) + ".*" + g.as() + "&" + g.typ("struct").Name + ".*"
	case 6:
		g.count("out:* AS &T.*")
		return "*" + g.as() + "&" + g.typ("struct").Name + ".*"
	case 7:
		g.count("out:(cols) AS (&T.*)")
		t := g.typ("member")
		n := 1 + g.R.Intn(3)
		used := map[string]bool{}
		return g.list(n, func() string {
			c := g.tag(t)
			for i := 0; used[c] && i < 5; i++ {
				c = g.tag(t)
			}
			used[c] = true
			if g.R.Chance(1, 4) {
				return g.R.Pick(plainIdents) + "." + c
			}
			return c
		}) + g.as() + "(" + g.optBlank() + "&" + t.Name + ".*" + g.optBlank() + ")"
	case 8:
		g.count("out:(cols) AS (types)")
		n := 1 + g.R.Intn(3)
		cols := g.list(n, g.column)
		used := map[string]bool{}
		types := g.list(n, func() string {
			t := g.typ("member")
			m := g.tag(t)
			for i := 0; used[t.Name+"."+m] && i < 5; i++ {
				m = g.tag(t)
			}
			used[t.Name+"."+m] = true
			return "&" + t.Name + "." + m
		})
		return cols + g.as() + types
	case 9:
		g.count("out:(t.*) AS (types)")
		n := 1 + g.R.Intn(3)
		usedT := map[string]bool{}
		types := g.list(n, func() string {
			t := g.typ("struct")
			for i := 0; usedT[t.Name] && i < 5; i++ {
				t = g.typ("struct")
			}
			usedT[t.Name] = true
			if len(usedT) == 2 && g.R.Chance(2, 3) || len(usedT) > 2 && g.R.Chance(1, 2) {
				// asterisk and named targets mixed in one list
				return "&" + t.Name + "." + g.tag(t)
			}
			return "&" + t.Name + ".*"
		})
		pre := "*"
		if g.R.Chance(1, 2) {
			pre = g.R.Pick(plainIdents) + ".*"
		}
		if g.R.Chance(1, 2) {
			pre = "(" + pre + ")"
		}
		return pre + g.as() + types
	case 10:
		g.count("out:malformed")
		// deliberately malformed pairings
		switch g.R.Intn(5) {
		case 0:
			return g.list(2, g.column) + g.as() + "&" + g.typ("struct").Name + ".*"
		case 1:
			return g.column() + g.as() + "(&" + g.typ("struct").Name + ".*)"
		case 2:
			return "&" + g.typ("slice").Name + "[:]"
		case 3:
			return "&" + g.typ("struct").Name
		default:
			return g.R.Pick(funcs) + g.as() + "&" + g.typ("struct").Name + ".*"
		}
	default:
		g.count("out:f() AS &T.m")
		t := g.typ("member")
		return g.R.Pick(funcs) + g.as() + "&" + t.Name + "." + g.tag(t)
	}
}

func (g *G) values() string {
	return g.optBlank() + g.R.Pick([]string{"VALUES", "VALUES", "values", "Values"}) + g.optBlank()
}

func (g *G) insertExpr() string {
	switch g.R.Intn(6) {
	case 0, 1:
		g.count("ins:(*)")
		n := 1 + g.R.Intn(3)
		usedT := map[string]bool{}
		return "(" + g.optBlank() + "*" + g.optBlank() + ")" + g.values() + g.list(n, func() string {
			t := g.typ("member")
			if t.Kind == "struct" && !usedT[t.Name] && g.R.Chance(2, 3) {
				usedT[t.Name] = true
				return "$" + t.Name + ".*"
			}
			return "$" + t.Name + "." + g.tag(t)
		})
	case 2, 3:
		g.count("ins:(cols) asterisk")
		t := g.typ("struct")
		n := 1 + g.R.Intn(3)
		used := map[string]bool{}
		cols := g.list(n, func() string {
			c := g.tag(t)
			for i := 0; used[c] && i < 5; i++ {
				c = g.tag(t)
			}
			used[c] = true
			return c
		})
		srcs := []string{"$" + t.Name + ".*"}
		if g.R.Chance(1, 3) {
			srcs = append(srcs, "$"+g.typ("map").Name+".*")
			// spare columns, which only the map given with an asterisk can supply (wherever
			// it is written among the sources)
			for k := g.R.Intn(3); k > 0; k-- {
				sp := g.R.Pick([]string{"k", "extra", "spare_1", "note", "zz9"})
				if !used[sp] {
					used[sp] = true
					if g.R.Chance(1, 2) {
						cols = cols[:len(cols)-1] + g.sep() + sp + ")"
					} else {
						cols = "(" + sp + g.sep() + cols[1:]
					}
				}
			}
		}
		if g.R.Chance(1, 4) {
			t2 := g.typ("member")
			srcs = append(srcs, "$"+t2.Name+"."+g.tag(t2))
		}
		g.R.Intn(1)
		for i := range srcs {
			j := g.R.Intn(i + 1)
			srcs[i], srcs[j] = srcs[j], srcs[i]
		}
		i := 0
		return cols + g.values() + g.list(len(srcs), func() string { i++; return srcs[i-1] })
	default:
		g.count("ins:(cols) basic")
		n := 1 + g.R.Intn(4)
		cols := g.list(n, func() string { return g.R.Pick(plainIdents) })
		vals := g.list(n, func() string {
			switch g.R.Intn(8) {
			case 6:
				return g.RandLiteral()
			case 7:
				return g.R.Pick(numbers) + g.optBlank() + g.RandComment()
			case 0:
				return g.R.Pick(literals)
			case 1:
				return g.R.Pick(numbers)
			case 2:
				return g.R.Pick(funcs)
			default:
				t := g.typ("member")
				return "$" + t.Name + "." + g.tag(t)
			}
		})
		return cols + g.values() + vals
	}
}

func (g *G) expr() string {
	switch g.R.Intn(10) {
	case 0, 1, 2:
		return g.outputExpr()
	case 3, 4, 5:
		return g.memberInput()
	case 6:
		return g.sliceInput()
	default:
		return g.insertExpr()
	}
}

var bodyAlphabet = []string{"*", "*", "/", "-", "%d", "%", "\x00", "\x00 AND a = $T.a", "\u0080", "'", "\"", " ", "x", "\n", "$T.a", "&T.*", "(", ")", ",", "**", "*/x", "--"}

func (g *G) body(n int, forbid string) string {
	var sb strings.Builder
	for i := 0; i < n; i++ {
		t := g.R.Pick(bodyAlphabet)
		if forbid != "" && strings.Contains(t, forbid) {
			continue
		}
		sb.WriteString(t)
	}
	return sb.String()
}

// RandComment builds a comment with a random body (runs of '*', '/', '-', quotes, newlines).
func (g *G) RandComment() string {
	g.count("rand-comment")
	switch g.R.Intn(5) {
	case 0:
		return "--" + g.body(g.R.Intn(6), "\n") + "\n"
	case 1:
		return "/*" + g.body(g.R.Intn(6), "") // possibly unterminated
	default:
		b := g.body(g.R.Intn(6), "")
		// make sure the body itself does not contain the terminator
		b = strings.ReplaceAll(b, "*/", "* /")
		stars := strings.Repeat("*", g.R.Intn(3))
		return "/*" + stars + b + stars + "*/"
	}
}

// RandLiteral builds a quoted literal with a random body, quotes doubled.
func (g *G) RandLiteral() string {
	g.count("rand-literal")
	q := g.R.Pick([]string{"'", "\""})
	if g.R.Chance(1, 3) {
		// multi-line literal made of line breaks, escaped quotes and filler; often unclosed
		var sb strings.Builder
		sb.WriteString(q)
		n := 1 + g.R.Intn(6)
		for i := 0; i < n; i++ {
			sb.WriteString(g.R.Pick([]string{"\n", "\n", q + q, q + q, "x", " ", "ab", "\r\n"}))
		}
		if g.R.Chance(1, 2) {
			sb.WriteString(q)
		}
		return sb.String()
	}
	b := g.body(g.R.Intn(6), "")
	b = strings.ReplaceAll(b, q, q+q)
	if g.R.Chance(1, 6) {
		return q + b // unclosed
	}
	return q + b + q
}

func (g *G) glue() string {
	switch g.R.Intn(17) {
	case 14, 15:
		return g.RandComment()
	case 16:
		return g.RandLiteral()
	case 0, 1, 2:
		return g.blank()
	case 3, 4:
		return g.R.Pick(glueOps)
	case 5:
		return g.R.Pick(keywords)
	case 6:
		return g.R.Pick(plainIdents)
	case 7:
		return g.R.Pick(literals)
	case 8:
		return g.R.Pick(comments)
	case 9:
		return g.R.Pick(nonASCII)
	case 10:
		return g.R.Pick(numbers)
	case 11:
		return g.R.Pick(oddIdents)
	case 12:
		return g.R.Pick(funcs)
	default:
		return ""
	}
}

// Skeleton produces a conventional statement.
func (g *G) Skeleton() string {
	switch g.R.Intn(5) {
	case 0:
		g.count("skel:select")
		n := 1 + g.R.Intn(3)
		var outs []string
		for i := 0; i < n; i++ {
			outs = append(outs, g.outputExpr())
		}
		if g.R.Chance(1, 3) {
			// a plain column computed from an input, under a plain alias (no output expression)
			g.count("skel:input-in-call-as-alias")
			call := g.R.Pick([]string{"coalesce(a, %s)", "CAST(%s AS INT)", "f(%s)", "EXISTS(SELECT 1 FROM t WHERE a = %s)", "max(b, %s)"})
			col := strings.Replace(call, "%s", g.memberInput(), 1) + g.R.Pick([]string{" AS ", " as ", "\nAS\t", " AS\n"}) + g.R.Pick(plainIdents)
			if g.R.Chance(1, 2) {
				outs = append(outs, col)
			} else {
				outs = append([]string{col}, outs...)
			}
		}
		q := "SELECT " + strings.Join(outs, g.sep()) + " FROM " + g.R.Pick(plainIdents)
		if g.R.Chance(2, 3) {
			q += g.where()
		}
		return q
	case 1:
		g.count("skel:insert")
		q := "INSERT INTO " + g.R.Pick(plainIdents) + g.blank() + g.insertExpr()
		if g.R.Chance(1, 4) {
			q += " RETURNING " + g.outputExpr()
		}
		return q
	case 2:
		g.count("skel:update")
		return "UPDATE t SET " + g.R.Pick(plainIdents) + g.optBlank() + "=" + g.optBlank() + g.memberInput() + g.where()
	case 3:
		g.count("skel:delete")
		return "DELETE FROM t" + g.where()
	default:
		g.count("skel:select-in")
		return "SELECT " + g.outputExpr() + " FROM t WHERE " + g.R.Pick(plainIdents) + " IN (" + g.sliceInput() + ")"
	}
}

func (g *G) where() string {
	q := " WHERE "
	n := 1 + g.R.Intn(3)
	for i := 0; i < n; i++ {
		if i > 0 {
			q += g.R.Pick([]string{" AND ", " OR ", "\nAND "})
		}
		op := g.R.Pick([]string{"=", " = ", "<", ">=", "<>", " LIKE ", "&", "|", "+1=", "%", "-", "/"})
		if g.R.Chance(1, 10) {
			// a named slice together with its own element type in one statement
			var c []TypeDesc
			for _, t := range g.S.Types {
				if t.Kind == "slice" && t.Elem != "" {
					c = append(c, t)
				}
			}
			paired := false
			if len(c) > 0 {
				st := c[g.R.Intn(len(c))]
				for _, et := range g.S.Types {
					if et.Name == st.Elem && len(et.Tags) > 0 {
						g.count("slice-with-its-element-type")
						q += g.R.Pick(plainIdents) + op + "$" + et.Name + "." + g.tag(et) + " AND " + g.R.Pick(plainIdents) + " IN ($" + st.Name + "[:])"
						paired = true
						break
					}
				}
			}
			if paired {
				continue
			}
		}
		switch g.R.Intn(4) {
		case 0:
			// the slice first, last or in the middle of the list
			switch g.R.Intn(4) {
			case 0:
				q += g.R.Pick(plainIdents) + " IN (" + g.R.Pick([]string{g.memberInput(), "1, 2", "'x'", g.memberInput() + ", 7"}) + ", " + g.sliceInput() + g.R.Pick([]string{"", "", ", " + g.memberInput(), ", 1"}) + ")"
			case 1:
				q += g.R.Pick(plainIdents) + " IN (" + g.sliceInput() + "," + g.sliceInput() + ", " + g.sliceInput() + ")"
			default:
				q += g.R.Pick(plainIdents) + " IN (" + g.sliceInput() + g.R.Pick([]string{"", ", " + g.memberInput(), ", 1"}) + ")"
			}
		case 1:
			q += g.R.Pick(plainIdents) + op + g.R.Pick(literals)
		default:
			q += g.R.Pick(plainIdents) + op + g.memberInput()
		}
	}
	return q
}

// Soup produces a random token sequence: expressions glued by anything.
func (g *G) Soup() string {
	g.count("soup")
	n := 1 + g.R.Intn(7)
	var sb strings.Builder
	for i := 0; i < n; i++ {
		if g.R.Chance(2, 5) {
			if g.R.Chance(1, 6) {
				// something glued directly in front of an expression
				g.count("sticky-prefix")
				sb.WriteString(g.R.Pick(stickyPrefixes))
			}
			sb.WriteString(g.expr())
		} else {
			sb.WriteString(g.glue())
		}
		if g.R.Chance(1, 2) {
			sb.WriteString(g.glue())
		}
	}
	return sb.String()
}

var stickyPrefixes = []string{"$", "&", "$$", "$&", "&$", "x", "1", "@", ".", ":", "$T", "&T.", "$T.", "$1", "US$", "(", ")", "*", "'", "\"", "-", "/", "$ ", "& "}

var hot = []byte("$&()*'\"-/.[]:, \n")

// Mutate applies 1..3 small edits near interesting characters.
func (g *G) Mutate(q string) string {
	g.count("mutate")
	b := []byte(q)
	n := 1 + g.R.Intn(3)
	for i := 0; i < n; i++ {
		if len(b) == 0 {
			b = append(b, hot[g.R.Intn(len(hot))])
			continue
		}
		p := g.R.Intn(len(b))
		// prefer a position at a hot character
		for k := 0; k < 4; k++ {
			if strings.IndexByte(string(hot), b[p]) >= 0 {
				break
			}
			p = g.R.Intn(len(b))
		}
		switch g.R.Intn(7) {
		case 0: // delete
			b = append(b[:p], b[p+1:]...)
		case 1: // duplicate
			b = append(b[:p+1], b[p:]...)
		case 2: // insert hot
			b = append(b[:p], append([]byte{hot[g.R.Intn(len(hot))]}, b[p:]...)...)
		case 3: // swap with neighbour
			if p+1 < len(b) {
				b[p], b[p+1] = b[p+1], b[p]
			}
		case 4: // truncate
			b = b[:p]
		case 5: // insert glue
			gl := g.glue()
			b = append(b[:p], append([]byte(gl), b[p:]...)...)
		default: // replace by hot
			b[p] = hot[g.R.Intn(len(hot))]
		}
	}
	return string(b)
}

// Raw produces arbitrary bytes (malformed stream), biased to ASCII specials.
func (g *G) Raw() string {
	g.count("raw")
	n := g.R.Intn(24)
	b := make([]byte, n)
	for i := range b {
		switch g.R.Intn(4) {
		case 0:
			b[i] = hot[g.R.Intn(len(hot))]
		case 1:
			b[i] = byte(g.R.Intn(256))
		case 2:
			b[i] = "TMSaxAVLUEs"[g.R.Intn(11)]
		default:
			b[i] = byte(32 + g.R.Intn(95))
		}
	}
	return string(b)
}

// leading produces a query that begins, at its very first byte, with an expression whose
// first token is unusual (a number, an odd identifier, a function call).
func (g *G) leading() string {
	g.count("leading-expr")
	first := g.R.Pick([]string{"0", "1", "42", "9", "123", "1a", "3.14", "-1", "x", "_y", "count(*)", "\"q\"", "'s'", "名前", "t.a", "*", "t.*"})
	t := g.typ("member")
	var e string
	switch g.R.Intn(5) {
	case 0:
		e = first + g.as() + "&" + t.Name + "." + g.tag(t)
	case 1:
		e = first + g.as() + "(&" + t.Name + "." + g.tag(t) + ")"
	case 2:
		e = "(" + first + g.sep() + g.column() + ")" + g.as() + "(&" + t.Name + ".*)"
	case 3:
		e = first + g.sep() + g.column() + g.as() + "&" + t.Name + ".*"
	default:
		e = first + g.as() + "&" + t.Name + ".*"
	}
	tail := g.R.Pick([]string{" FROM t", ", $" + t.Name + " FROM t", " FROM t WHERE a = " + g.memberInput(), "", "\nFROM t", " " + g.glue()})
	return e + tail
}

// Query draws from all streams; seeds are existing queries to mutate/splice.
func (g *G) Query(seeds []string) string {
	if g.R.Chance(1, 25) {
		return g.leading()
	}
	if g.R.Chance(1, 30) {
		// a byte order mark (or another invisible rune) in front: it is part of the text
		g.count("invisible-prefix")
		return g.R.Pick([]string{"\ufeff", "\ufeff", "\u200b", "\u00a0", "\ufeff\n"}) + g.queryBody(seeds)
	}
	return g.queryBody(seeds)
}

func (g *G) queryBody(seeds []string) string {
	switch x := g.R.Intn(20); {
	case x < 6:
		return g.Skeleton()
	case x < 11:
		return g.Soup()
	case x < 14:
		return g.Mutate(g.Skeleton())
	case x < 16 && len(seeds) > 0:
		return g.Mutate(seeds[g.R.Intn(len(seeds))])
	case x < 17 && len(seeds) > 1:
		g.count("splice")
		a, b := seeds[g.R.Intn(len(seeds))], seeds[g.R.Intn(len(seeds))]
		return a[:g.R.Intn(len(a)+1)] + b[g.R.Intn(len(b)+1):]
	case x < 18 && len(seeds) > 0:
		g.count("seed")
		return seeds[g.R.Intn(len(seeds))]
	case x < 19:
		return g.Raw()
	default:
		return g.Mutate(g.Soup())
	}
}
