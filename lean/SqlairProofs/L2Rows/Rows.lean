/-
  L2Rows/Rows: the row-level lemma (`ByTag`) and the rectangle lemma (`Grid`) put together:
  `holdsC04rows` accepts every observation whose values are, row by row, the texts the index
  paths of `getStructFields` reach (`fieldByIndex`), for a selection of the fields of `T` that
  is the column list of the statement or a sublist of the sorted tags.
-/
import SqlairProofs.L2Rows.ByTag
import SqlairProofs.L2Rows.Grid

namespace Sqlair

theorem eraseDups_of_nodup : ∀ (l : List Bytes), l.Nodup → l.eraseDups = l := by
  intro l
  induction hl : l.length using Nat.strongRecOn generalizing l with
  | _ n ih =>
    intro hnd
    cases l with
    | nil => rfl
    | cons a as =>
      rw [List.eraseDups_cons]
      rw [List.nodup_cons] at hnd
      have hf : as.filter (fun b => !b == a) = as := by
        rw [List.filter_eq_self]
        intro b hb
        have : b ≠ a := fun e => hnd.1 (e ▸ hb)
        simpa using this
      rw [hf, ih as.length (by simp [← hl]) as rfl hnd.2]

theorem mapM_option_some {α β : Type} (f : α → Option β) : ∀ (l : List α) (res : List β),
    l.mapM f = some res → (∀ x ∈ l, ∃ y, f x = some y) ∧
      (∀ x l', l = x :: l' → ∃ y res', f x = some y ∧ res = y :: res') := by
  intro l
  induction l with
  | nil => intro res _; exact ⟨fun x hx => (nomatch hx), fun x l' h => (nomatch h)⟩
  | cons a l ih =>
    intro res h
    rw [List.mapM_cons] at h
    cases hfa : f a with
    | none => rw [hfa] at h; cases h
    | some y =>
      cases hl : l.mapM f with
      | none => rw [hfa, hl] at h; cases h
      | some ys =>
        rw [hfa, hl] at h
        have hres : res = y :: ys := by cases h; rfl
        refine ⟨?_, ?_⟩
        · intro x hx
          rcases List.mem_cons.1 hx with rfl | hx
          · exact ⟨y, hfa⟩
          · exact (ih ys hl).1 x hx
        · intro x l' e
          cases e
          exact ⟨y, ys, hfa, hres⟩

theorem c04tail_of_mapM_none {C : Cls} {tt : TypeTable} {s : OSeg} {o : BindObs} {rows : List GoVal}
    (h : rows.mapM (tagsOfVal C tt 8) = none) : c04tail C tt s o rows = true := by
  unfold c04tail
  split
  · rfl
  · rw [h]

/-- the fields of a struct sample, as `getArgInfo` computes them -/
theorem getArgInfo_fields {C : Cls} {tt : TypeTable} {tid tid' : Nat} {n : Bytes} {fields : List SField}
    {stags : List Bytes} (h : getArgInfo C tt tid = .ok (.struct tid' n fields stags)) :
    getStructFields C tt (tt.size + 1) [] tid = .ok fields ∧ (tt.get tid).kind = .struct ∧
      (fields.map (·.tag)).Nodup ∧ stags = sortBytes (fields.map (·.tag)) := by
  unfold getArgInfo at h
  simp only [] at h
  split at h
  · split at h <;> cases h
  · rename_i hk
    split at h
    · cases h
    · rename_i fs hfs
      split at h
      · cases h
      · rename_i hdup
        cases h
        refine ⟨hfs, hk, ?_, rfl⟩
        have : ∀ (fs : List SField) (seen : List Bytes), firstDupTag fs seen = false →
            (fs.map (·.tag)).Nodup ∧ ∀ f ∈ fs, f.tag ∉ seen := by
          intro fs
          induction fs with
          | nil => intro seen _; exact ⟨List.nodup_nil, fun f hf => by cases hf⟩
          | cons f rest ih =>
            intro seen h
            simp only [firstDupTag] at h
            split at h
            · cases h
            · rename_i hc
              obtain ⟨h1, h2⟩ := ih _ h
              refine ⟨?_, ?_⟩
              · rw [List.map_cons, List.nodup_cons]
                refine ⟨?_, h1⟩
                intro hin
                obtain ⟨f', hf', e⟩ := List.mem_map.1 hin
                exact h2 f' hf' (by rw [e]; simp)
              · intro f' hf'
                rcases List.mem_cons.1 hf' with rfl | hf'
                · simpa using hc
                · intro hin
                  exact h2 f' hf' (List.mem_cons_of_mem _ hin)
        exact (this fields [] (by simpa using hdup)).1
  · cases h
  · cases h

/-- a row of type `T` or `*T`: the struct it stands for -/
def rowStruct (row : GoVal) : GoVal := indirect row

/-- the text the index path `idx` reaches in the row -/
def fbiText (row : GoVal) (idx : List Nat) : String :=
  match fieldByIndex (rowStruct row) idx true with
  | .ok v => v.h.r
  | .error _ => ""

/-- a row is a well-formed value of type `T` or a non-nil `*T` -/
def RowOf (tt : TypeTable) (tid : Nat) (row : GoVal) : Prop :=
  ValWF tt row ∧ (row.tid = tid ∨ ∃ h p, row = .ptr h (some p) ∧ p.tid = tid)

/-- C04, row level: in a well-formed row of type `T` or `*T` on which `tagsOfVal` succeeds, the
    tags listed are the tags of the fields `getArgInfo` computes for `T`, in the same order, and
    the member found by tag is the value the index path reaches -/
theorem row_by_tag {C : Cls} {tt : TypeTable} {tid tid' : Nat} {n : Bytes} {fields : List SField}
    {stags : List Bytes} (hemb : embPtrOK tt = true)
    (hinfo : getArgInfo C tt tid = .ok (.struct tid' n fields stags))
    {row : GoVal} (hrow : RowOf tt tid row) {tags : List Bytes} (ht : tagsOfVal C tt 8 row = some tags) :
    tags = fields.map (·.tag) ∧
    ∀ f ∈ fields, ∃ fv, fieldByIndex (rowStruct row) f.index true = .ok fv ∧
      valueByTag C tt 8 row f.tag = some fv := by
  obtain ⟨hgs, hk, hnd, _⟩ := getArgInfo_fields hinfo
  obtain ⟨hwf, hty⟩ := hrow
  rcases hty with hty | ⟨h, p, rfl, hp⟩
  · obtain ⟨hw, fsw, rfl, _⟩ := hwf.struct_inv (by rw [hty]; exact hk)
    have := getStructFields_rowSpec C tt hemb _ _ _ _ hgs 8 hw fsw hwf hty tags ht
    exact ⟨this.tags, this.vals hnd⟩
  · have hpwf : ValWF tt p := by
      cases hwf with
      | ptr _ _ _ _ h => exact h
    obtain ⟨hw, fsw, rfl, _⟩ := hpwf.struct_inv (by rw [hp]; exact hk)
    have ht' : tagsOfVal C tt 7 (.struct hw fsw) = some tags := by simpa [tagsOfVal] using ht
    have := getStructFields_rowSpec C tt hemb _ _ _ _ hgs 7 hw fsw hpwf hp tags ht'
    refine ⟨this.tags, ?_⟩
    intro f hf
    obtain ⟨fv, h1, h2⟩ := this.vals hnd f hf
    exact ⟨fv, h1, by simpa [valueByTag] using h2⟩

/-- C04 for struct rows, up to the bookkeeping of the bind layer: `holdsC04rows` is true of
    every observation whose values are, row by row, the texts the index paths reach for a
    selection `sel` of the fields of `T` that is the written column list (`colInsert`) or a
    sublist of the sorted tags (`astInsert`) -/
theorem holdsC04rows_of_paths {C : Cls} {tt : TypeTable} {segs : List OSeg} {arg : GoVal} {o : BindObs}
    {s : OSeg} {a : Acc} {tid tid' : Nat} {n : Bytes} {fields : List SField} {stags : List Bytes}
    (hemb : embPtrOK tt = true)
    (hinfo : getArgInfo C tt tid = .ok (.struct tid' n fields stags))
    (hsegs : segs.filter (·.kind != .bypass) = [s]) (htypes : s.types = [a])
    (hrows : ∀ row ∈ rowsOfArg arg, RowOf tt tid row)
    (sel : List SField) (hsel : ∀ f ∈ sel, f ∈ fields)
    (hvals : o.params.map (·.2) = ((rowsOfArg arg).map fun row => sel.map fun f => fbiText row f.index).flatten)
    (hcols : (s.kind = .colInsert ∧ s.cols.map (·.column) = sel.map (·.tag)) ∨
      (s.kind = .astInsert ∧ (sel.map (·.tag)).Sublist stags)) :
    holdsC04rows C tt segs [arg] o = true := by
  rw [holdsC04rows_eq_tail C tt segs arg o s a hsegs htypes]
  suffices c04tail C tt s o (rowsOfArg arg) = true by rw [this]; simp
  cases hm : (rowsOfArg arg).mapM (tagsOfVal C tt 8) with
  | none => exact c04tail_of_mapM_none hm
  | some tagLists =>
    obtain ⟨hall, hhead⟩ := mapM_option_some _ _ _ hm
    obtain ⟨_, _, hnd, hst⟩ := getArgInfo_fields hinfo
    let g : GoVal → Bytes → String := fun row t =>
      match valueByTag C tt 8 row t with
      | some fv => fv.h.r
      | none => ""
    have hrowfacts : ∀ row ∈ rowsOfArg arg, ∀ f ∈ sel, ∃ fv, valueByTag C tt 8 row f.tag = some fv ∧
        fbiText row f.index = fv.h.r := by
      intro row hr f hf
      obtain ⟨tags, ht⟩ := hall row hr
      obtain ⟨fv, h1, h2⟩ := (row_by_tag hemb hinfo (hrows row hr) ht).2 f (hsel f hf)
      exact ⟨fv, h2, by simp [fbiText, h1]⟩
    apply c04tail_of_grid (colTags := sel.map (·.tag)) (g := g)
    · rw [hvals]
      congr 1
      apply List.map_congr_left
      intro row hr
      rw [List.map_map]
      apply List.map_congr_left
      intro f hf
      obtain ⟨fv, h1, h2⟩ := hrowfacts row hr f hf
      simp only [Function.comp, g, h1, h2]
    · intro row hr t ht
      obtain ⟨f, hf, rfl⟩ := List.mem_map.1 ht
      obtain ⟨fv, h1, _⟩ := hrowfacts row hr f hf
      exact ⟨fv, h1, by simp only [g, h1]⟩
    · rcases hcols with ⟨hk, hc⟩ | ⟨hk, hc⟩
      · exact .inl ⟨hk, hc⟩
      · refine .inr ⟨hk, ?_⟩
        intro tags tl he
        rw [hm] at he
        cases hra : rowsOfArg arg with
        | nil => rw [hra] at hm; simp at hm; subst hm; cases he
        | cons r0 rest =>
          obtain ⟨y, res', hy, hres⟩ := hhead r0 rest hra
          cases he
          cases hres
          have := (row_by_tag hemb hinfo (hrows r0 (by rw [hra]; simp)) hy).1
          rw [this, eraseDups_of_nodup _ hnd, ← hst]
          exact hc

end Sqlair
