/-
  Cache: port of /repo/cache.go and of the cache-related parts of DB.Query's run closure,
  as a transition system over *atomic steps* (DESIGN §3 "Concurrency" and "GC
  environment"): the critical sections of the code (look-up under RLock, PrepareContext
  outside the lock, insert/evict under Lock, execution, the three finalizer bodies) are the
  atoms; an execution is any list of steps respecting per-operation program order, so a
  theorem over all step lists covers all interleavings at that granularity.

  Garbage collection is modelled by *enabling conditions* on the finalizer steps: a
  finalizer may fire, at any point, for an object unreachable from the roots — handles the
  caller still holds, operations in flight (a Query references its Statement and DB), open
  Iterators (an Iterator references the driver statement it runs on).  That these are the
  edges Go's runtime sees is an assumption (DESIGN §3, §10).
-/
namespace Sqlair.Cache

/-- `driverStmt` together with the state of its `sql.Stmt` -/
structure DStmt where
  id : Nat
  db : Nat
  sql : Nat                 -- identifies the generated SQL text (argument shape)
  closeCalled : Bool := false
  closeCalls : Nat := 0     -- how often sql.Stmt.Close was called on it
  driverClosed : Bool := false
  finalizer : Bool := false -- evicted: closeDriverStmt runs when it becomes unreachable
deriving DecidableEq, Repr, Inhabited

inductive Ev where
  | prepare (ds db sql : Nat)
  | exec (ds db sql : Nat)
  | close (ds : Nat)             -- driver-level close
  | execClosed (ds : Nat)        -- an execution hit "sql: statement is closed"
deriving DecidableEq, Repr, Inhabited

/-- where an in-flight Query execution is -/
inductive PC where
  | start                  -- Query created, nothing done
  | missed                 -- looked up: miss, PrepareContext next
  | prepared (ds : Nat)    -- prepared outside the lock, insert/evict next
  | ready (ds : Nat)       -- has its driver statement, execution next
  | done
deriving DecidableEq, Repr, Inhabited

structure Op where
  s : Nat
  d : Nat
  sql : Nat
  pc : PC := .start
deriving DecidableEq, Repr, Inhabited

structure St where
  stmtDB : List (Nat × List (Nat × Nat)) := []   -- statement id ↦ (db id ↦ driver stmt id)
  dbStmt : List (Nat × List Nat) := []            -- db id ↦ statement ids
  ds : List DStmt := []
  nextS : Nat := 1
  nextD : Nat := 1
  liveS : List Nat := []      -- Statement handles the caller holds
  liveD : List Nat := []
  ops : List (Nat × Op) := [] -- in-flight operations by thread/operation id
  iters : List (Nat × Nat) := []  -- open iterators: handle ↦ driver stmt id
  log : List Ev := []
deriving Repr, Inhabited

inductive Step where
  | newS
  | newD
  | query (t s d sql : Nat)        -- DB.Query: creates the Query (captures s and d)
  | lookup (t : Nat)               -- lookupStmt (RLock)
  | prepare (t : Nat)              -- db.sqldb.PrepareContext (no lock)
  | insert (t : Nat)               -- driverPrepareStmt's critical section (Lock)
  | exec (t : Nat) (iter : Option Nat)  -- Exec/QueryContext; `some h` keeps an Iterator h open
  | iterClose (h : Nat)
  | dropS (s : Nat)
  | dropD (d : Nat)
  | finS (s : Nat)                 -- removeAndCloseStmtFunc
  | finD (d : Nat)                 -- removeAndCloseDBFunc
  | finDS (ds : Nat)               -- closeDriverStmt
deriving DecidableEq, Repr, Inhabited

/-! ### association-list helpers -/

def lookup2 (m : List (Nat × List (Nat × Nat))) (s d : Nat) : Option Nat :=
  match m.find? (·.1 == s) with
  | none => none
  | some (_, row) => (row.find? (·.1 == d)).map (·.2)

def set2 (m : List (Nat × List (Nat × Nat))) (s d v : Nat) : List (Nat × List (Nat × Nat)) :=
  m.map fun (k, row) =>
    if k == s then (k, if row.any (·.1 == d) then row.map (fun p => if p.1 == d then (d, v) else p) else row ++ [(d, v)])
    else (k, row)

def del2 (m : List (Nat × List (Nat × Nat))) (s d : Nat) : List (Nat × List (Nat × Nat)) :=
  m.map fun (k, row) => if k == s then (k, row.filter (·.1 != d)) else (k, row)

def addIdx (m : List (Nat × List Nat)) (d s : Nat) : List (Nat × List Nat) :=
  m.map fun (k, l) => if k == d then (k, if l.contains s then l else l ++ [s]) else (k, l)

def delIdx (m : List (Nat × List Nat)) (d s : Nat) : List (Nat × List Nat) :=
  m.map fun (k, l) => if k == d then (k, l.filter (· != s)) else (k, l)

def St.getDS (st : St) (id : Nat) : Option DStmt := st.ds.find? (·.id == id)

def St.updDS (st : St) (id : Nat) (f : DStmt → DStmt) : St :=
  { st with ds := st.ds.map fun x => if x.id == id then f x else x }

def St.emit (st : St) (e : Ev) : St := { st with log := st.log ++ [e] }

def St.getOp (st : St) (t : Nat) : Option Op := (st.ops.find? (·.1 == t)).map (·.2)

def St.setOp (st : St) (t : Nat) (o : Op) : St :=
  { st with ops := if st.ops.any (·.1 == t) then st.ops.map (fun p => if p.1 == t then (t, o) else p) else st.ops ++ [(t, o)] }

/-- does an open iterator still depend on the driver statement? -/
def St.iterHolds (st : St) (ds : Nat) : Bool := st.iters.any (·.2 == ds)

/-- does an in-flight operation hold the driver statement in a local variable? -/
def St.opHolds (st : St) (ds : Nat) : Bool :=
  st.ops.any fun (_, o) => o.pc == .prepared ds || o.pc == .ready ds

/-- `sql.Stmt.Close`: idempotent; the driver-level close waits for dependent rows -/
def St.closeStmt (st : St) (id : Nat) : St :=
  match st.getDS id with
  | none => st
  | some x =>
    let st := st.updDS id fun x => { x with closeCalled := true, closeCalls := x.closeCalls + 1 }
    if !x.closeCalled && !st.iterHolds id then
      (st.updDS id fun x => { x with driverClosed := true }).emit (.close id)
    else st

/-! ### enabling conditions of the finalizers (the GC reachability model) -/

def St.sReachable (st : St) (s : Nat) : Bool :=
  st.liveS.contains s || st.ops.any fun (_, o) => o.s == s && o.pc != .done

def St.dReachable (st : St) (d : Nat) : Bool :=
  st.liveD.contains d || st.ops.any fun (_, o) => o.d == d && o.pc != .done

def St.inCache (st : St) (ds : Nat) : Bool := st.stmtDB.any fun (_, row) => row.any (·.2 == ds)

def St.dsReachable (st : St) (ds : Nat) : Bool := st.inCache ds || st.opHolds ds || st.iterHolds ds

/-- one atomic step; `none` = the step is not enabled in this state -/
def step (st : St) : Step → Option St
  | .newS =>
    let id := st.nextS
    some { st with nextS := id + 1, stmtDB := st.stmtDB ++ [(id, [])], liveS := st.liveS ++ [id] }
  | .newD =>
    let id := st.nextD
    some { st with nextD := id + 1, dbStmt := st.dbStmt ++ [(id, [])], liveD := st.liveD ++ [id] }
  | .query t s d sql =>
    -- the caller must hold both handles and the operation id must be fresh
    if st.liveS.contains s && st.liveD.contains d && (st.getOp t).isNone
    then some (st.setOp t { s := s, d := d, sql := sql }) else none
  | .lookup t =>
    match st.getOp t with
    | some o =>
      if o.pc != .start then none else
      match lookup2 st.stmtDB o.s o.d with
      | some id =>
        match st.getDS id with
        | some x => if x.sql == o.sql then some (st.setOp t { o with pc := .ready id })
                    else some (st.setOp t { o with pc := .missed })
        | none => some (st.setOp t { o with pc := .missed })
      | none => some (st.setOp t { o with pc := .missed })
    | none => none
  | .prepare t =>
    match st.getOp t with
    | some o =>
      if o.pc != .missed then none else
      let id := st.ds.length + 1
      let st : St := { st with ds := st.ds ++ [({ id := id, db := o.d, sql := o.sql } : DStmt)] }
      some ((st.emit (.prepare id o.d o.sql)).setOp t { o with pc := .prepared id })
    | none => none
  | .insert t =>
    match st.getOp t with
    | some o =>
      match o.pc with
      | .prepared id =>
        -- evict what is there: it gets a finalizer and leaves the cache
        let st := match lookup2 st.stmtDB o.s o.d with
          | some old => st.updDS old fun x => { x with finalizer := true }
          | none => st
        let st := { st with stmtDB := set2 st.stmtDB o.s o.d id, dbStmt := addIdx st.dbStmt o.d o.s }
        some (st.setOp t { o with pc := .ready id })
      | _ => none
    | none => none
  | .exec t iter =>
    match st.getOp t with
    | some o =>
      match o.pc with
      | .ready id =>
        match st.getDS id with
        | some x =>
          let st := st.setOp t { o with pc := .done }
          if x.closeCalled then some (st.emit (.execClosed id)) else
          let st := st.emit (.exec id x.db x.sql)
          match iter with
          | some h => if st.iters.any (·.1 == h) then none else some { st with iters := st.iters ++ [(h, id)] }
          | none => some st
        | none => none
      | _ => none
    | none => none
  | .iterClose h =>
    match st.iters.find? (·.1 == h) with
    | some (_, id) =>
      let st := { st with iters := st.iters.filter (·.1 != h) }
      -- a close that was waiting for the rows reaches the driver now
      match st.getDS id with
      | some x =>
        if x.closeCalled && !x.driverClosed && !st.iterHolds id
        then some ((st.updDS id fun x => { x with driverClosed := true }).emit (.close id))
        else some st
      | none => some st
    | none => none
  | .dropS s => if st.liveS.contains s then some { st with liveS := st.liveS.filter (· != s) } else none
  | .dropD d => if st.liveD.contains d then some { st with liveD := st.liveD.filter (· != d) } else none
  | .finS s =>
    if st.sReachable s || !(st.stmtDB.any (·.1 == s)) then none else
    let row := ((st.stmtDB.find? (·.1 == s)).map (·.2)).getD []
    let st := row.foldl (fun st (d, id) => { st.closeStmt id with dbStmt := delIdx (st.closeStmt id).dbStmt d s }) st
    some { st with stmtDB := st.stmtDB.filter (·.1 != s) }
  | .finD d =>
    if st.dReachable d || !(st.dbStmt.any (·.1 == d)) then none else
    let ss := ((st.dbStmt.find? (·.1 == d)).map (·.2)).getD []
    let st := ss.foldl (fun st s =>
      match lookup2 st.stmtDB s d with
      | some id => { st.closeStmt id with stmtDB := del2 (st.closeStmt id).stmtDB s d }
      | none => st   -- Go would dereference nil here; unreachable by index consistency
      ) st
    some { st with dbStmt := st.dbStmt.filter (·.1 != d) }
  | .finDS id =>
    match st.getDS id with
    | some x =>
      if !x.finalizer || st.dsReachable id then none else
      -- a finalizer runs at most once
      some ((st.closeStmt id).updDS id fun x => { x with finalizer := false })
    | none => none

/-- run a list of steps, skipping those that are not enabled -/
def run (st : St) (steps : List Step) : St := steps.foldl (fun st s => (step st s).getD st) st

/-- all finalizers that are enabled, in a fixed order (used for the `gc` barrier of the
    sequential correspondence; which order the runtime picks is not observable there) -/
def enabledFinalizers (st : St) : List Step :=
  (st.ds.filter (fun x => x.finalizer && !st.dsReachable x.id)).map (fun x => Step.finDS x.id) ++
  (st.stmtDB.filter (fun p => !st.sReachable p.1)).map (fun p => Step.finS p.1) ++
  (st.dbStmt.filter (fun p => !st.dReachable p.1)).map (fun p => Step.finD p.1)

/-- garbage collection to quiescence -/
def gc : Nat → St → St
  | 0, st => st
  | f+1, st =>
    match enabledFinalizers st with
    | [] => st
    | s :: _ => gc f ((step st s).getD st)

end Sqlair.Cache
