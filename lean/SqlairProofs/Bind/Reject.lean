/-
  Bind/Reject: the argument errors of the INSERT/bulk/omitempty family (C04 rejections), each
  stated at the function that detects it, and the lifting of a failing step to `bindInputs`.
-/
import SqlairProofs.Bind.Errors
namespace Sqlair

theorem ColsBound.mem {tt : TypeTable} {m : TypeToValue} : ∀ {cols : List TCol} {bcs : List BCol},
    ColsBound tt m cols bcs → ∀ c ∈ cols, ∃ bc ∈ bcs, ColBound tt m c bc := by
  intro cols
  induction cols with
  | nil => intro bcs _ c hc; cases hc
  | cons c0 rest ih =>
    intro bcs h c hc
    cases bcs with
    | nil => exact absurd h (by simp [ColsBound])
    | cons bc0 bcs =>
      obtain ⟨h0, hrest⟩ := h
      rcases List.mem_cons.1 hc with rfl | hc
      · exact ⟨bc0, List.mem_cons_self, h0⟩
      · obtain ⟨bc, hbc, hb⟩ := ih hrest c hc
        exact ⟨bc, List.mem_cons_of_mem _ hbc, hb⟩

/-- a failing step makes `bindInputs` fail -/
theorem bindInputs_error_of_step {tt : TypeTable} {tes : List TExpr} {args : List GoVal}
    {m : TypeToValue} {te : TExpr} (hm : validateInputs tt args [] = .ok m) (hte : te ∈ tes)
    (herr : ∀ qb, ∃ e, addToQuery tt m qb te = .error e) : ∃ e, bindInputs tt tes args = .error e := by
  cases hres : bindInputs tt tes args with
  | error e => exact ⟨e, rfl⟩
  | ok pq =>
    exfalso
    obtain ⟨pre, post, rfl⟩ := List.append_of_mem hte
    obtain ⟨m', q1, q2, hm', _, hs, _⟩ := bindInputs_step_at hres
    rw [hm] at hm'; cases hm'
    obtain ⟨e, he⟩ := herr q1
    rw [he] at hs; cases hs

/-! ### the rejections, at the function that detects them -/

/-- unequal bulk lengths are rejected by `bindCols` (seen at `addToQuery`) -/
theorem insert_rejects_mismatched_bulk {tt : TypeTable} {m : TypeToValue} {qb : QB} {cols : List TCol}
    {l1 l2 : Loc} {c1 c2 : Bytes} {e1 e2 : Bool} {p1 p2 : Params}
    (h1 : TCol.insert l1 c1 e1 ∈ cols) (h2 : TCol.insert l2 c2 e2 ∈ cols)
    (hp1 : locateParams tt m l1 = .ok p1) (hp2 : locateParams tt m l2 = .ok p2)
    (hb1 : p1.bulk = true) (hb2 : p2.bulk = true) (hne : p1.vals.length ≠ p2.vals.length) :
    ∃ e, addToQuery tt m qb (.insert cols) = .error e := by
  cases hres : addToQuery tt m qb (.insert cols) with
  | error e => exact ⟨e, rfl⟩
  | ok qb' =>
    exfalso
    obtain ⟨bcs, numRows, s⟩ := addToQuery_insert_spec hres
    obtain ⟨b1, hb1m, hcb1⟩ := s.cols.mem _ h1
    obtain ⟨b2, hb2m, hcb2⟩ := s.cols.mem _ h2
    simp only [ColBound] at hcb1 hcb2
    obtain ⟨q1, hq1, hv1, _, hk1, _⟩ := hcb1
    obtain ⟨q2, hq2, hv2, _, hk2, _⟩ := hcb2
    rw [hp1] at hq1; cases hq1
    rw [hp2] at hq2; cases hq2
    have := s.bulk_len b1 hb1m (by rw [hk1, hb1])
    have := s.bulk_len b2 hb2m (by rw [hk2, hb2])
    rw [hv1] at *; rw [hv2] at *
    omega

/-- the detecting test, with its exact error class: a bulk column whose length differs from
    the established number of rows -/
theorem bindCols_rejects_mismatched_bulk {tt : TypeTable} {m : TypeToValue} {c : TCol}
    {rest : List TCol} {qb : QB} {acc : List BCol} {numRows : Nat} {bc : BCol} {ic : Nat}
    (hb : c.bind tt m qb.inputCount = .ok (bc, ic)) (hbulk : bc.bulk = true)
    (hne : bc.vals.length ≠ numRows) :
    bindCols tt m (c :: rest) qb acc true numRows = .error "mismatched-bulk-lengths" := by
  unfold bindCols
  simp [hb, hbulk, hne]

/-- an empty bulk slice is rejected by `locateParams` -/
theorem locateParams_rejects_empty_bulk {tt : TypeTable} {m : TypeToValue} {l : Loc} {hd : VH}
    (hl : ∀ t n, l ≠ .slice t n) (hg : ttvGet m l.tid = none)
    (hbulk : locateBulk tt m l.tid = some (.slice hd [])) :
    locateParams tt m l = .error "empty-slice" := by
  cases l with
  | slice t n => exact absurd rfl (hl t n)
  | mapKey tid n key => simp only [Loc.tid] at hg hbulk; simp [locateParams, hg, hbulk]
  | field tid n f => simp only [Loc.tid] at hg hbulk; simp [locateParams, hg, hbulk]

/-- `bulkFieldVals` on an omitempty field: all rows agree on zero-ness with the result -/
theorem bulkFieldVals_om_uniform (f : SField) (hf : f.omitEmpty = true) :
    ∀ (els : List GoVal) (first om : Bool) (acc vals : List String) (om' : Bool),
    (first = true → om = false) →
    bulkFieldVals f els first om acc = .ok (vals, om') →
    (first = false → om' = om) ∧
    ∀ e ∈ els, ∀ s v, bulkElem e = .ok s → fieldByIndex s f.index true = .ok v → v.h.zero = om' := by
  intro els
  induction els with
  | nil =>
    intro first om acc vals om' _ h
    simp [bulkFieldVals] at h
    exact ⟨fun _ => h.2.symm, by simp⟩
  | cons x rest ih =>
    intro first om acc vals om' hfo h
    unfold bulkFieldVals at h
    split at h
    · cases h
    · rename_i s hs
      split at h
      · cases h
      · rename_i v hv
        simp only [hf, if_true] at h
        split at h
        · rename_i hc
          simp at hc
          obtain ⟨ih1, ih2⟩ := ih _ _ _ _ _ (by simp) h
          have hom' : om' = true := ih1 rfl
          refine ⟨fun hff => (by rw [hc.1] at hff; cases hff), ?_⟩
          intro e he s' v' hs' hv'
          rcases List.mem_cons.1 he with rfl | he
          · rw [hs] at hs'; cases hs'; rw [hv] at hv'; cases hv'; rw [hom']; exact hc.2
          · exact ih2 e he s' v' hs' hv'
        · split at h
          · cases h
          · rename_i hc hne
            simp at hne
            obtain ⟨ih1, ih2⟩ := ih _ _ _ _ _ (by simp) h
            have hom' : om' = om := ih1 rfl
            refine ⟨fun _ => hom', ?_⟩
            intro e he s' v' hs' hv'
            rcases List.mem_cons.1 he with rfl | he
            · rw [hs] at hs'; cases hs'; rw [hv] at hv'; cases hv'; rw [hom']; exact hne
            · exact ih2 e he s' v' hs' hv'

/-- a mix of zero and non-zero values under omitempty is rejected by `bulkFieldVals` -/
theorem bulkFieldVals_rejects_mix {f : SField} (hf : f.omitEmpty = true) {els : List GoVal}
    {e1 e2 s1 s2 v1 v2 : GoVal} (h1 : e1 ∈ els) (h2 : e2 ∈ els)
    (hs1 : bulkElem e1 = .ok s1) (hs2 : bulkElem e2 = .ok s2)
    (hv1 : fieldByIndex s1 f.index true = .ok v1) (hv2 : fieldByIndex s2 f.index true = .ok v2)
    (hz1 : v1.h.zero = true) (hz2 : v2.h.zero = false) :
    ∃ e, bulkFieldVals f els true false [] = .error e := by
  cases hres : bulkFieldVals f els true false [] with
  | error e => exact ⟨e, rfl⟩
  | ok r =>
    exfalso
    obtain ⟨vals, om'⟩ := r
    obtain ⟨_, hall⟩ := bulkFieldVals_om_uniform f hf els true false [] vals om' (fun _ => rfl) hres
    have a := hall e1 h1 s1 v1 hs1 hv1
    have b := hall e2 h2 s2 v2 hs2 hv2
    rw [hz1] at a; rw [hz2] at b; rw [← a] at b; cases b

/-- … hence by `locateParams` -/
theorem locateParams_rejects_mix {tt : TypeTable} {m : TypeToValue} {tid : Nat} {n : Bytes} {f : SField}
    (hf : f.omitEmpty = true) {hd : VH} {els : List GoVal}
    (hg : ttvGet m tid = none) (hbulk : locateBulk tt m tid = some (.slice hd els))
    {e1 e2 s1 s2 v1 v2 : GoVal} (h1 : e1 ∈ els) (h2 : e2 ∈ els)
    (hs1 : bulkElem e1 = .ok s1) (hs2 : bulkElem e2 = .ok s2)
    (hv1 : fieldByIndex s1 f.index true = .ok v1) (hv2 : fieldByIndex s2 f.index true = .ok v2)
    (hz1 : v1.h.zero = true) (hz2 : v2.h.zero = false) :
    ∃ e, locateParams tt m (.field tid n f) = .error e := by
  obtain ⟨e, he⟩ := bulkFieldVals_rejects_mix hf h1 h2 hs1 hs2 hv1 hv2 hz1 hz2
  have hne : els.isEmpty = false := by cases els with | nil => cases h1 | cons _ _ => rfl
  exact ⟨e, by simp [locateParams, hg, hbulk, hne, he]⟩

/-- an omitted (zero, omitempty) value is a single located value -/
theorem locateParams_om_single {tt : TypeTable} {m : TypeToValue} {l : Loc} {p : Params}
    (h : locateParams tt m l = .ok p) (hom : p.om = true) (hb : p.bulk = false) : p.vals.length = 1 := by
  apply locateParams_single h hb
  intro t n hl
  subst hl
  obtain ⟨_, _, hg, _⟩ := locateParams_slice h
  simp [locateParams, hg] at h
  subst h; simp at hom

/-- an explicitly referenced omitempty member that is zero is rejected: plain input -/
theorem input_rejects_explicit_zero {tt : TypeTable} {m : TypeToValue} {qb : QB} {l : Loc} {p : Params}
    (h : locateParams tt m l = .ok p) (hom : p.om = true) :
    addToQuery tt m qb (.input l) = .error "omitempty-explicit-zero" := by
  simp [addToQuery, h, hom]

/-- … explicit insert column (`$T.member` rather than `$T.*`) -/
theorem TCol.bind_rejects_explicit_zero {tt : TypeTable} {m : TypeToValue} {l : Loc} {column : Bytes}
    {ic : Nat} {p : Params} (h : locateParams tt m l = .ok p) (hom : p.om = true) :
    (TCol.insert l column true).bind tt m ic = .error "omitempty-explicit-zero" := by
  have : ¬ (p.bulk = false ∧ 1 < p.vals.length) := by
    rintro ⟨hb, hl⟩
    have := locateParams_om_single h hom hb
    omega
  unfold TCol.bind
  simp only [h]
  rw [if_neg (by simpa using this)]
  simp [hom]

/-- a column whose locator fails or is an explicit zero omitempty member makes the insert fail -/
theorem insert_rejects_column {tt : TypeTable} {m : TypeToValue} {qb : QB} {cols : List TCol}
    {l : Loc} {c : Bytes} {ex : Bool} (hc : TCol.insert l c ex ∈ cols)
    (hbad : (∃ e, locateParams tt m l = .error e) ∨
            (∃ p, locateParams tt m l = .ok p ∧ p.om = true ∧ ex = true)) :
    ∃ e, addToQuery tt m qb (.insert cols) = .error e := by
  cases hres : addToQuery tt m qb (.insert cols) with
  | error e => exact ⟨e, rfl⟩
  | ok qb' =>
    exfalso
    obtain ⟨bcs, numRows, s⟩ := addToQuery_insert_spec hres
    obtain ⟨b, _, hcb⟩ := s.cols.mem _ hc
    simp only [ColBound] at hcb
    obtain ⟨q, hq, _, _, _, _, _, hex⟩ := hcb
    rcases hbad with ⟨e, he⟩ | ⟨p, hp, hom, hexp⟩
    · rw [he] at hq; cases hq
    · rw [hp] at hq; cases hq
      have := hex hom
      rw [hexp] at this; cases this

theorem input_rejects_locate_error {tt : TypeTable} {m : TypeToValue} {qb : QB} {l : Loc} {e : String}
    (h : locateParams tt m l = .error e) : addToQuery tt m qb (.input l) = .error e := by
  simp [addToQuery, h]

end Sqlair
