/-
  L4Sound, the driver log: after `Query.Iter` every operation only appends row events
  (`next`, `rowsClose`, `stmtClose`), and none at all when no result set was opened.
-/
import SqlairProofs.L4Sound.Predict
import SqlairProofs.Runtime.Get

namespace Sqlair.Rt

/-- events of an open result set -/
def Ev.l4s_isRow : Ev → Bool
  | .next | .rowsClose | .stmtClose => true
  | _ => false

/-- `w'` extends `w` by row events only -/
def l4s_RowExt (w w' : World) : Prop := ∃ evs, w'.log = w.log ++ evs ∧ evs.all Ev.l4s_isRow = true

theorem l4s_RowExt.refl (w : World) : l4s_RowExt w w := ⟨[], by simp, rfl⟩

theorem l4s_RowExt.of_eq {w w' : World} (h : w' = w) : l4s_RowExt w w' := h ▸ l4s_RowExt.refl w

theorem l4s_RowExt.trans {w1 w2 w3 : World} (h1 : l4s_RowExt w1 w2) (h2 : l4s_RowExt w2 w3) : l4s_RowExt w1 w3 := by
  obtain ⟨e1, h1, a1⟩ := h1
  obtain ⟨e2, h2, a2⟩ := h2
  exact ⟨e1 ++ e2, by rw [h2, h1, List.append_assoc], by simp [List.all_append, a1, a2]⟩

theorem l4s_RowExt.emit (w : World) (e : Ev) (h : e.l4s_isRow = true) : l4s_RowExt w (w.emit e) :=
  ⟨[e], rfl, by simp [h]⟩

theorem l4s_Rows_close_ext (r : Rows) (w : World) : l4s_RowExt w (r.close w).2.1 := by
  cases hc : r.closed
  · rw [Rows.close_of_open hc]
    cases hs : r.closeStmt <;> cases hh : r.holdsConn
    · exact ⟨[.rowsClose], by simp [World.emit], rfl⟩
    · exact ⟨[.rowsClose], by simp [World.emit], rfl⟩
    · exact ⟨[.rowsClose, .stmtClose], by simp [World.emit], rfl⟩
    · exact ⟨[.rowsClose, .stmtClose], by simp [World.emit], rfl⟩
  · rw [Rows.close_of_closed hc]; exact l4s_RowExt.refl w

theorem l4s_Rows_next_ext (r : Rows) (w : World) : l4s_RowExt w (r.next w).2.1 := by
  unfold Rows.next
  split
  · exact l4s_RowExt.refl w
  · have h0 : l4s_RowExt w (w.emit .next) := l4s_RowExt.emit w .next rfl
    split
    · exact h0.trans (l4s_Rows_close_ext _ _)
    · exact h0.trans (l4s_Rows_close_ext _ _)
    · exact h0

theorem l4s_Rows_cancel_ext (r : Rows) (w : World) : l4s_RowExt w (r.cancel w).2 := by
  unfold Rows.cancel
  split
  · exact l4s_RowExt.refl w
  · exact l4s_Rows_close_ext _ _

theorem l4s_Iter_next_ext (it : Iter) (w : World) : l4s_RowExt w (it.next w).2.1 := by
  rcases Iter.next_cases it w with hn | ⟨r, _, _, hn⟩
  · rw [hn]; exact l4s_RowExt.refl w
  · rw [hn]; exact l4s_Rows_next_ext r w

theorem l4s_Iter_close_ext (it : Iter) (w : World) : l4s_RowExt w (it.close w).2.1 := by
  cases hr : it.rows with
  | none => rw [Iter.close_of_rows_none hr]; exact l4s_RowExt.refl w
  | some r => rw [Iter.close_of_rows hr]; exact l4s_Rows_close_ext r w

theorem l4s_Iter_cancel_ext (it : Iter) (w : World) : l4s_RowExt w (it.cancel w).2 := by
  cases hr : it.rows with
  | none => rw [Iter.cancel_of_rows_none hr]; exact l4s_RowExt.refl w
  | some r => rw [Iter.cancel_of_rows hr]; exact l4s_Rows_cancel_ext r w

theorem l4s_step_ext (it : Iter) (w : World) (c : Call) : l4s_RowExt w (step it w c).2.1 := by
  cases c with
  | next => exact l4s_Iter_next_ext it w
  | get a => exact l4s_RowExt.refl w
  | close => exact l4s_Iter_close_ext it w
  | cancel => exact l4s_Iter_cancel_ext it w

theorem l4s_run_ext (it : Iter) (w : World) (cs : List Call) : l4s_RowExt w (run it w cs).2.1 := by
  induction cs generalizing it w with
  | nil => exact l4s_RowExt.refl w
  | cons c cs ih => rw [run_cons]; exact (l4s_step_ext it w c).trans (ih _ _)

theorem l4s_getAllLoop_ext (f : Nat) : ∀ (it : Iter) (w : World) (acc : List Nat) (dv : Bool),
    l4s_RowExt w (getAllLoop f it w acc dv).2.1 := by
  induction f with
  | zero => intro it w acc dv; exact l4s_RowExt.refl w
  | succ f ih =>
    intro it w acc dv
    have hn := l4s_Iter_next_ext it w
    cases hb : (it.next w).2.2
    · rw [getAllLoop_done hb]; exact hn
    · cases hg : (it.next w).1.get (if dv then .valid else .invalid) with
      | row id => rw [getAllLoop_row hb hg]; exact hn.trans (ih _ _ _ _)
      | err e => rw [getAllLoop_err hb hg]; exact hn.trans (l4s_Iter_close_ext _ _)
      | outcome x => rw [getAllLoop_outcome hb hg]; exact hn

/-- `Get`: rejected before anything runs, or `Query.Iter` followed by row events -/
theorem l4s_queryGet_ext (s : Script) (c : GetCall) (w : World) :
    ((queryGet s c w).2 = w ∧ s.hasOutputs = false) ∨ l4s_RowExt (iterOpen s w).2 (queryGet s c w).2 := by
  rcases queryGet_snd s c w with ⟨h, hrej⟩ | ⟨_, h | h⟩
  · left
    simp only [Bool.and_eq_true, Bool.not_eq_true'] at hrej
    exact ⟨h, hrej.1⟩
  · right; rw [h]; exact l4s_Iter_close_ext _ _
  · right; rw [h]; exact (l4s_Iter_next_ext _ _).trans (l4s_Iter_close_ext _ _)

theorem l4s_queryGetAll_ext (s : Script) (n : Nat) (dv : Bool) (w : World) :
    ((queryGetAll s n dv w).2 = w ∧ s.hasOutputs = false) ∨ l4s_RowExt (iterOpen s w).2 (queryGetAll s n dv w).2 := by
  have h2 : l4s_RowExt (iterOpen s w).2 (gaLoop s dv w).2.1 := l4s_getAllLoop_ext _ _ _ _ _
  rcases queryGetAll_snd s n dv w with ⟨h, hrej⟩ | ⟨_, ⟨h, _⟩ | h⟩
  · left
    simp only [Bool.and_eq_true, Bool.not_eq_true'] at hrej
    exact ⟨h, hrej.1⟩
  · right; rw [h]; exact h2
  · right; rw [h]; exact h2.trans (l4s_Iter_close_ext _ _)

/-! ### nothing opened: nothing happens -/

theorem l4s_run_world_of_rows_none {it : Iter} (h : it.rows = none) (w : World) (cs : List Call) :
    (run it w cs).2.1 = w := (run_of_rows_none h w cs).2.2

/-! ### `Query.Iter` -/

/-- the events of `Query.Iter` are prepare / exec / query / stmtClose -/
def Ev.l4s_isOpen : Ev → Bool
  | .prepare | .exec | .query | .stmtClose => true
  | _ => false

theorem l4s_openEvents_isOpen (s : Script) : s.openEvents.all Ev.l4s_isOpen = true := by
  obtain ⟨ho, ca, tx, td, cd, pe, re, fe, ce, res⟩ := s
  cases ho <;> cases ca <;> cases tx <;> cases td <;> cases cd <;> cases pe <;> cases re <;>
    simp [Script.openEvents, Ev.l4s_isOpen]

theorem l4s_iterOpen_log (s : Script) (w : World) : (iterOpen s w).2.log = w.log ++ s.openEvents := by
  rw [iterOpen_eq]

theorem l4s_iterOpen_inUse (s : Script) (w : World) :
    (iterOpen s w).2.inUse = w.inUse + (if s.opensRows && !s.onTx then 1 else 0) := by
  rw [iterOpen_eq]

/-- number of `query` events of `Query.Iter` -/
theorem l4s_openEvents_query (s : Script) :
    s.openEvents.count .query = if s.opensRows || (s.hasOutputs && s.runErr.isSome && Ev.query ∈ s.openEvents) then 1 else 0 := by
  obtain ⟨ho, ca, tx, td, cd, pe, re, fe, ce, res⟩ := s
  cases ho <;> cases ca <;> cases tx <;> cases td <;> cases cd <;> cases pe <;> cases re <;>
    simp [Script.openEvents, Script.opensRows, Script.runsOK, Script.openErr]

theorem l4s_openEvents_rowsClose (s : Script) : s.openEvents.count .rowsClose = 0 := by
  obtain ⟨ho, ca, tx, td, cd, pe, re, fe, ce, res⟩ := s
  cases ho <;> cases ca <;> cases tx <;> cases td <;> cases cd <;> cases pe <;> cases re <;>
    simp [Script.openEvents]

end Sqlair.Rt
