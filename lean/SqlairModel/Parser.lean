/-
  Parser: function-by-function port of /repo/internal/expr/parser.go (repaired tree).

  Conventions (DESIGN §3, Appendix A, Appendix F):
  * `Sc` is the scanner part of the Go `Parser` struct (pos, nextPos, char, lineNum,
    lineStart).  The three fields only the main loop touches (prevExprEnd,
    currentExprStart, exprs) live in `PS`; parse helpers take and return `Sc`.
  * `save` is "keep the old `Sc`", `restore` is "return it".  Where the Go code returns
    without restoring, the model returns the moved state.
  * every Go loop is a structurally recursive function on a fuel argument; loops with an
    error channel report exhaustion as `EKind.fuel`, scanner loops return `none`.
    `SqlairProofs/Parser/Total.lean` proves neither can happen.
  * runes are `Nat`; the decoder and the letter/digit classifier are fields of `Env`.
-/
import SqlairModel.Bytes

namespace Sqlair

structure Env where
  inp : Bytes
  /-- rune decoder: (rune, size) of the rune starting at a byte offset -/
  dec : Bytes → Nat → Nat × Nat
  letter : Nat → Bool
  digit : Nat → Bool

@[inline] def Env.len (E : Env) : Nat := E.inp.size

structure Sc where
  pos : Nat
  nextPos : Nat
  char : Nat
  lineNum : Nat
  lineStart : Nat
deriving DecidableEq, Repr, Inhabited

/-- kinds of parse error; names are kept so that the message can be rendered -/
inductive EKind where
  | missingQuote            -- missing closing quote in string literal
  | missingParen            -- missing closing parenthesis          (skipEnclosedParentheses)
  | sliceInOutput (name : Bytes)  -- cannot use slice syntax "%s[:]" in output expression
  | sliceInOutputAnon       -- cannot use slice syntax in output expression
  | invalidSlice (name : Bytes)   -- invalid slice: expected '%s[:]'
  | unqualified (name : Bytes)    -- unqualified type, expected %s.* or %s.<db tag> or %s[:]
  | invalidSuffix (name : Bytes)  -- invalid identifier suffix following %q
  | invalidInList           -- invalid expression in list
  | missingParens           -- missing closing parentheses             (parseList)
  | asMissingParens         -- missing parentheses around types after "AS"
  | asUnexpectedParens      -- unexpected parentheses around types after "AS"
  | funcIntoStar (raw : Bytes)    -- cannot read function call %q into asterisk
  | starInInput (ty : Bytes)      -- invalid asterisk placement in input "$T.*"
  | valuesMissingParens     -- missing parentheses around types after "VALUES"
  | starInBasic             -- internal error: cannot have asterisk accessor in renaming expression
  | fuel                    -- model artefact: a loop ran out of fuel (proved unreachable)
deriving DecidableEq, Repr, Inhabited

structure PErr where
  line : Nat
  col : Nat
  kind : EKind
deriving DecidableEq, Repr, Inhabited

inductive Res (α : Type) where
  | ok : α → Res α
  | no : Res α
  | err : PErr → Res α
deriving Repr

structure Col where
  table : Bytes
  column : Bytes
  func : Bool
deriving DecidableEq, Repr, Inhabited

structure Acc where
  ty : Bytes
  member : Bytes
deriving DecidableEq, Repr, Inhabited

inductive Val where
  | lit (text : Bytes)
  | acc (a : Acc)
deriving DecidableEq, Repr, Inhabited

inductive SegKind where
  | bypass | output | member | slice | astInsert | colInsert | basicInsert
deriving DecidableEq, Repr, Inhabited

/-- one node of the parsed query; its raw text is `inp[a:b)` -/
structure Seg where
  kind : SegKind
  a : Nat
  b : Nat
  cols : List Col := []
  types : List Acc := []
  vals : List Val := []
deriving DecidableEq, Repr, Inhabited

def star : Bytes := #[42]

section
variable (E : Env)

@[inline] def isNameChar (c : Nat) : Bool := E.letter c || E.digit c || c == 95
@[inline] def isInitialNameChar (c : Nat) : Bool := E.letter c || c == 95

@[inline] def colNum (s : Sc) : Nat := s.pos - s.lineStart + 1

@[inline] def errAt (s : Sc) (k : EKind) : PErr := { line := s.lineNum, col := colNum s, kind := k }

/-- `advanceChar` (repaired: newline bookkeeping before the end-of-input return) -/
def advanceChar (s : Sc) : Sc :=
  let s1 : Sc := if s.char = 10 ∧ s.pos < E.len
    then { s with lineStart := s.nextPos, lineNum := s.lineNum + 1 } else s
  if s1.nextPos ≥ E.len then { s1 with char := 0, pos := s1.nextPos }
  else
    let d := E.dec E.inp s1.nextPos
    { s1 with char := d.1, pos := s1.nextPos, nextPos := s1.nextPos + d.2 }

def Sc.zero : Sc := { pos := 0, nextPos := 0, char := 0, lineNum := 1, lineStart := 0 }

/-- `init` -/
def initSc : Sc := advanceChar E Sc.zero

@[inline] def peekChar (c : Nat) (s : Sc) : Bool := s.pos < E.len && s.char == c

/-- `skipChar`: (state, skipped?) -/
def skipChar (c : Nat) (s : Sc) : Sc × Bool :=
  if s.pos < E.len ∧ s.char = c then (advanceChar E s, true) else (s, false)

/-- loop of `skipCharFind`: `some s'` = found and skipped, `some`/`none` see below -/
def skipCharFindLoop (c : Nat) : Nat → Sc → Option (Option Sc)
  | 0, _ => none                       -- out of fuel
  | f+1, s =>
    if s.pos < E.len then
      if s.char = c then some (some (advanceChar E s))
      else skipCharFindLoop c f (advanceChar E s)
    else some none                     -- end of input, not found

/-- `skipCharFind`: restores when the char is not found -/
def skipCharFind (c : Nat) (s : Sc) : Sc × Bool :=
  match skipCharFindLoop E c (E.len + 1) s with
  | some (some s') => (s', true)
  | _ => (s, false)

/-- `skipString` for an ASCII keyword given as byte values -/
def skipString (kw : List Nat) (s : Sc) : Sc × Bool :=
  if s.pos + kw.length ≤ E.len ∧ foldEqAt E.inp s.pos kw = true then
    let pos := s.pos + kw.length
    let d := if pos < E.len then E.dec E.inp pos else (0xFFFD, 0)
    ({ s with pos := pos, char := d.1, nextPos := pos + d.2 }, true)
  else (s, false)

def kwAS : List Nat := [65, 83]
def kwVALUES : List Nat := [86, 65, 76, 85, 69, 83]

/-- inner loop of `skipComment` (after the opener); `endc` is 10 or 42 -/
def commentLoop (endc : Nat) : Nat → Sc → Option Sc
  | 0, _ => none
  | f+1, s =>
    if s.pos < E.len then
      if s.char = endc then
        if endc = 42 then
          let r := skipChar E 47 (advanceChar E s)
          if r.2 then some r.1 else commentLoop endc f r.1
        else some s
      else commentLoop endc f (advanceChar E s)
    else some s

/-- `skipComment` -/
def skipComment (s : Sc) : Sc × Bool :=
  let c := s.char
  let r1 := skipChar E 45 s
  let r1 := if r1.2 then r1 else skipChar E 47 s
  if r1.2 then
    let r2 := if c = 45 then skipChar E 45 r1.1
              else if c = 47 then skipChar E 42 r1.1 else (r1.1, false)
    if r2.2 then
      match commentLoop E (if c = 45 then 10 else 42) (E.len + 1) r2.1 with
      | some s3 => (s3, true)
      | none => (s, false)
    else (s, false)
  else (s, false)

/-- loop of `skipStringLiteral`; result `some (some s)` closed at s, `some none`
    unclosed, `none` out of fuel -/
def strLitLoop (c : Nat) : Nat → Bool → Sc → Option (Option Sc)
  | 0, _, _ => none
  | f+1, maybeCloser, s =>
    let r := skipCharFind E c s
    if r.2 then
      if maybeCloser && !(peekChar E c r.1) then some (some r.1)
      else strLitLoop c f (!maybeCloser) r.1
    else some none

/-- `skipStringLiteral` -/
def skipStringLiteral (s : Sc) : Sc × Res Unit :=
  let c := s.char
  let r := skipChar E 34 s
  let r := if r.2 then r else skipChar E 39 s
  if r.2 then
    match strLitLoop E c (E.len + 1) true r.1 with
    | some (some s') => (s', .ok ())
    | some none => (s, .err (errAt s .missingQuote))
    | none => (s, .err (errAt s .fuel))
  else (s, .no)

def blanksLoop : Nat → Sc → Option Sc
  | 0, _ => none
  | f+1, s =>
    if s.pos < E.len then
      let r := skipComment E s
      if r.2 then blanksLoop f r.1
      else if s.char = 32 ∨ s.char = 9 ∨ s.char = 13 ∨ s.char = 10 then blanksLoop f (advanceChar E s)
      else some s
    else some s

/-- `skipBlanks` (its result is never used by the parser) -/
def skipBlanks (s : Sc) : Sc := (blanksLoop E (E.len + 1) s).getD s

/-- `for p.pos < len && isNameChar(p.char) { advanceChar }` -/
def nameLoop : Nat → Sc → Option Sc
  | 0, _ => none
  | f+1, s =>
    if s.pos < E.len ∧ isNameChar E s.char = true then nameLoop f (advanceChar E s) else some s

def parenLoop (cp : Sc) : Nat → Nat → Sc → Sc × Res Unit
  | 0, _, s => (s, .err (errAt cp .fuel))
  | f+1, count, s =>
    if count > 0 ∧ s.pos ≠ E.len then
      match skipStringLiteral E s with
      | (_, .err e) => (cp, .err e)
      | (s1, .ok _) => parenLoop cp f count s1
      | (_, .no) =>
        let r := skipComment E s
        if r.2 then parenLoop cp f count r.1 else
        let r := skipChar E 40 s
        if r.2 then parenLoop cp f (count+1) r.1 else
        let r := skipChar E 41 s
        if r.2 then parenLoop cp f (count-1) r.1 else
        parenLoop cp f count (advanceChar E s)
    else if count > 0 then (cp, .err (errAt cp .missingParen))
    else (s, .ok ())

/-- `skipEnclosedParentheses` -/
def skipEnclosedParentheses (s : Sc) : Sc × Res Unit :=
  let r := skipChar E 40 s
  if r.2 then parenLoop E s (E.len + 1) 1 r.1 else (s, .no)

/-- `skipLiteralInList`: `.ok` = stopped on ',' or ')', `.no` = end of input -/
def litLoop : Nat → Sc → Sc × Res Unit
  | 0, s => (s, .err (errAt s .fuel))
  | f+1, s =>
    if s.pos < E.len then
      match skipStringLiteral E s with
      | (s1, .err e) => (s1, .err e)
      | (s1, .ok _) => litLoop f s1
      | (_, .no) =>
        match skipEnclosedParentheses E s with
        | (s1, .err e) => (s1, .err e)
        | (s1, .ok _) => litLoop f s1
        | (_, .no) =>
          let r := skipComment E s
          if r.2 then litLoop f r.1 else
          if s.char = 44 ∨ s.char = 41 then (s, .ok ())
          else litLoop f (advanceChar E s)
    else (s, .no)

def skipLiteralInList (s : Sc) : Sc × Res Unit := litLoop E (E.len + 1) s

/-- `parseIdentifier` -/
def parseIdentifier (s : Sc) : Sc × Res Bytes :=
  match skipStringLiteral E s with
  | (s1, .err e) => (s1, .err e)
  | (s1, .ok _) => (s1, .ok (E.inp.extract s.pos s1.pos))
  | (_, .no) =>
    let s2 := (nameLoop E (E.len + 1) s).getD s
    if s2.pos > s.pos then (s2, .ok (E.inp.extract s.pos s2.pos)) else (s2, .no)

/-- `parseIdentifierAsterisk` -/
def parseIdentifierAsterisk (s : Sc) : Sc × Res Bytes :=
  let r := skipChar E 42 s
  if r.2 then (r.1, .ok star) else parseIdentifier E s

/-- `parseTypeName`: `none` = no name here -/
def parseTypeName (s : Sc) : Sc × Option Bytes :=
  let s1 := if isInitialNameChar E s.char = true
    then (nameLoop E (E.len + 1) (advanceChar E s)).getD (advanceChar E s) else s
  if s1.pos > s.pos then (s1, some (E.inp.extract s.pos s1.pos)) else (s1, none)

/-- `parseColumnAccessor` -/
def parseColumnAccessor (s : Sc) : Sc × Res Col :=
  let r := skipChar E 42 s
  if r.2 then (r.1, .ok { table := #[], column := star, func := false }) else
  match parseIdentifier E s with
  | (_, .err e) => (s, .err e)
  | (_, .no) => (s, .no)
  | (s1, .ok id) =>
    let r := skipChar E 46 s1
    if r.2 then
      match parseIdentifierAsterisk E r.1 with
      | (s2, .err e) => (s2, .err e)
      | (s2, .ok idCol) => (s2, .ok { table := id, column := idCol, func := false })
      | (_, .no) => (s, .no)
    else
      match skipEnclosedParentheses E s1 with
      | (_, .err e) => (s, .err e)
      | (s2, .ok _) => (s2, .ok { table := #[], column := E.inp.extract s.pos s2.pos, func := true })
      | (_, .no) => (s1, .ok { table := #[], column := id, func := false })

/-- `parseSliceAccessor` -/
def parseSliceAccessor (s : Sc) : Sc × Res Bytes :=
  match parseTypeName E s with
  | (s1, none) => (s1, .no)
  | (s1, some id) =>
    let r := skipChar E 91 s1
    if !r.2 then (s, .no) else
    let s2 := skipBlanks E r.1
    let r := skipChar E 58 s2
    if !r.2 then (r.1, .err (errAt s (.invalidSlice id))) else
    let s3 := skipBlanks E r.1
    let r := skipChar E 93 s3
    if !r.2 then (r.1, .err (errAt s (.invalidSlice id))) else
    (r.1, .ok id)

/-- `parseTypeAndMember` -/
def parseTypeAndMember (s : Sc) : Sc × Res Acc :=
  let identifierCol := colNum s - 1
  match parseTypeName E s with
  | (s1, some id) =>
    let r := skipChar E 46 s1
    if !r.2 then (r.1, .err { line := r.1.lineNum, col := identifierCol, kind := .unqualified id }) else
    match parseIdentifierAsterisk E r.1 with
    | (s2, .err e) => (s2, .err e)
    | (s2, .no) => (s2, .err (errAt s2 (.invalidSuffix id)))
    | (s2, .ok idField) => (s2, .ok { ty := id, member := idField })
  | (_, none) => (s, .no)

/-- `parseTargetType` (repaired: restores on not-this) -/
def parseTargetType (s : Sc) : Sc × Res Acc :=
  let r := skipChar E 38 s
  if r.2 then
    match parseSliceAccessor E r.1 with
    | (s1, .ok st) => (s1, .err (errAt s (.sliceInOutput st)))
    | (s1, .err _) => (s1, .err (errAt s .sliceInOutputAnon))
    | (s1, .no) =>
      match parseTypeAndMember E s1 with
      | (_, .no) => (s, .no)
      | x => x
  else (s, .no)

/-- `parseInputMemberAccessor` (does not restore the '$' on not-this) -/
def parseInputMemberAccessor (s : Sc) : Sc × Res Acc :=
  let r := skipChar E 36 s
  if r.2 then parseTypeAndMember E r.1 else (s, .no)

/-- loop of `parseList` -/
def listLoop {α : Type} (fn : Sc → Sc × Res α) (cp : Sc) : Nat → Bool → List α → Sc → Sc × Res (List α)
  | 0, _, _, s => (s, .err (errAt cp .fuel))
  | f+1, first, acc, s =>
    let s1 := skipBlanks E s
    match fn s1 with
    | (s2, .ok x) =>
      let s3 := skipBlanks E s2
      let r := skipChar E 41 s3
      if r.2 then (r.1, .ok (acc ++ [x])) else
      let r := skipChar E 44 s3
      if r.2 then listLoop fn cp f false (acc ++ [x]) r.1
      else (cp, .err (errAt cp .missingParens))
    | (s2, .err e) => (s2, .err e)
    | (s2, .no) => if first then (cp, .no) else (cp, .err (errAt s2 .invalidInList))

/-- `parseList` -/
def parseList {α : Type} (fn : Sc → Sc × Res α) (s : Sc) : Sc × Res (List α) :=
  let r := skipChar E 40 s
  if r.2 then listLoop E fn s (E.len + 1) true [] r.1 else (s, .no)

/-- `parseColumns`: errors are discarded, the state is *not* restored on failure -/
def parseColumns (s : Sc) : Sc × Option (List Col × Bool) :=
  match parseColumnAccessor E s with
  | (s1, .ok c) => (s1, some ([c], false))
  | (s1, _) =>
    match parseList E (parseColumnAccessor E) s1 with
    | (s2, .ok cs) => (s2, some (cs, true))
    | (s2, _) => (s2, none)

/-- `parseTargetTypes` -/
def parseTargetTypes (s : Sc) : Sc × Res (List Acc × Bool) :=
  match parseTargetType E s with
  | (s1, .err e) => (s1, .err e)
  | (s1, .ok t) => (s1, .ok ([t], false))
  | (s1, .no) =>
    match parseList E (parseTargetType E) s1 with
    | (s2, .err e) => (s2, .err e)
    | (s2, .ok ts) => (s2, .ok (ts, true))
    | (s2, .no) => (s2, .no)

def starCountTypes (ts : List Acc) : Nat := (ts.filter (fun t => t.member == star)).length

/-- `parseOutputExpr` -/
def parseOutputExpr (s : Sc) : Sc × Res Seg :=
  match parseTargetType E s with
  | (s1, .err e) => (s1, .err e)
  | (s1, .ok t) => (s1, .ok { kind := .output, a := s.pos, b := s1.pos, cols := [], types := [t] })
  | (cp, .no) =>
    match parseColumns E cp with
    | (_, none) => (cp, .no)
    | (s2, some (cols, parenCols)) =>
      let s3 := skipBlanks E s2
      let r := skipString E kwAS s3
      if !r.2 then (cp, .no) else
      let s4 := skipBlanks E r.1
      match parseTargetTypes E s4 with
      | (s5, .err e) => (s5, .err e)
      | (_, .no) => (cp, .no)
      | (s5, .ok (types, parenTypes)) =>
        if parenCols && !parenTypes then (s5, .err (errAt s4 .asMissingParens))
        else if !parenCols && parenTypes then (s5, .err (errAt s4 .asUnexpectedParens))
        else
          match (if starCountTypes types > 0 then cols.find? (·.func) else none) with
          | some c => (s5, .err (errAt cp (.funcIntoStar c.column)))
          | none => (s5, .ok { kind := .output, a := s.pos, b := s5.pos, cols := cols, types := types })

/-- `parseSliceInputExpr` -/
def parseSliceInputExpr (s : Sc) : Sc × Res Seg :=
  let r := skipChar E 36 s
  if !r.2 then (s, .no) else
  match parseSliceAccessor E r.1 with
  | (_, .err e) => (s, .err e)
  | (s1, .ok st) => (s1, .ok { kind := .slice, a := s.pos, b := s1.pos, types := [{ ty := st, member := #[] }] })
  | (_, .no) => (s, .no)

/-- `parseMemberInputExpr` -/
def parseMemberInputExpr (s : Sc) : Sc × Res Seg :=
  match parseInputMemberAccessor E s with
  | (_, .err e) => (s, .err e)
  | (_, .no) => (s, .no)
  | (s1, .ok ma) =>
    if ma.member == star then (s, .err (errAt s (.starInInput ma.ty)))
    else (s1, .ok { kind := .member, a := s.pos, b := s1.pos, types := [ma] })

/-- `parseComplexInsertValues` -/
def parseComplexInsertValues (s : Sc) : Sc × Res (List Acc) :=
  match parseList E (parseInputMemberAccessor E) s with
  | (_, .err e) => (s, .err e)
  | (s1, .ok srcs) => (s1, .ok srcs)
  | (s1, .no) =>
    match parseInputMemberAccessor E s1 with
    | (_, .ok _) => (s, .err (errAt s .valuesMissingParens))
    | _ => (s, .no)

/-- `parseAsteriskInsertExpr` (repaired: restores on not-this) -/
def parseAsteriskInsertExpr (s : Sc) : Sc × Res Seg :=
  let r := skipChar E 40 s
  if !r.2 then (s, .no) else
  let r := skipChar E 42 (skipBlanks E r.1)
  if !r.2 then (s, .no) else
  let r := skipChar E 41 (skipBlanks E r.1)
  if !r.2 then (s, .no) else
  let r := skipString E kwVALUES (skipBlanks E r.1)
  if !r.2 then (s, .no) else
  match parseComplexInsertValues E (skipBlanks E r.1) with
  | (s1, .ok srcs) => (s1, .ok { kind := .astInsert, a := s.pos, b := s1.pos, types := srcs })
  | (s1, .err e) => (s1, .err e)
  | (_, .no) => (s, .no)

/-- loop of `parseBasicInsertValues` -/
def basicLoop (cp : Sc) : Nat → Bool → List Val → Sc → Sc × Res (List Val)
  | 0, _, _, s => (s, .err (errAt cp .fuel))
  | f+1, inputParsed, vs, s =>
    let s1 := skipBlanks E s
    -- one item: (state, updated inputParsed, updated values) or an early return
    let item : Sc × Res (Bool × List Val) :=
      match parseInputMemberAccessor E s1 with
      | (s2, .err e) => (s2, .err e)
      | (s2, .ok ma) =>
        if ma.member == star then (s2, .err (errAt s1 .starInBasic))
        else (s2, .ok (true, vs ++ [.acc ma]))
      | (s2, .no) =>
        match skipLiteralInList E s2 with
        | (s3, .err e) => (s3, .err e)
        | (s3, .ok _) => (s3, .ok (inputParsed, vs ++ [.lit (E.inp.extract s1.pos s3.pos)]))
        | (_, .no) => (cp, .no)
    match item with
    | (s2, .err e) => (s2, .err e)
    | (s2, .no) => (s2, .no)
    | (s2, .ok (ip, vs')) =>
      let s3 := skipBlanks E s2
      let r := skipChar E 41 s3
      if r.2 then (if ip then (r.1, .ok vs') else (r.1, .no)) else
      let r := skipChar E 44 s3
      if r.2 then basicLoop cp f ip vs' r.1 else (cp, .no)

/-- `parseBasicInsertValues` -/
def parseBasicInsertValues (s : Sc) : Sc × Res (List Val) :=
  let r := skipChar E 40 s
  if !r.2 then
    match parseInputMemberAccessor E s with
    | (_, .ok _) => (s, .err (errAt s .valuesMissingParens))
    | _ => (s, .no)
  else basicLoop E s (E.len + 1) false [] r.1

/-- `parseInsertExpr` -/
def parseInsertExpr (s : Sc) : Sc × Res Seg :=
  match parseAsteriskInsertExpr E s with
  | (s1, .err e) => (s1, .err e)
  | (s1, .ok seg) => (s1, .ok seg)
  | (cp, .no) =>
    match parseColumns E cp with
    | (s1, some (columns, true)) =>
      let r := skipString E kwVALUES (skipBlanks E s1)
      if !r.2 then (cp, .no) else
      let colcp := skipBlanks E r.1
      let complex : Option (Sc × List Acc) :=
        match parseComplexInsertValues E colcp with
        | (s2, .ok srcs) => if starCountTypes srcs != 0 then some (s2, srcs) else none
        | _ => none
      match complex with
      | some (s2, srcs) =>
        (s2, .ok { kind := .colInsert, a := cp.pos, b := s2.pos, cols := columns, types := srcs })
      | none =>
        match parseBasicInsertValues E colcp with
        | (_, .err e) => (cp, .err e)
        | (s3, .ok vals) =>
          (s3, .ok { kind := .basicInsert, a := cp.pos, b := s3.pos, cols := columns, vals := vals })
        | (_, .no) => (cp, .no)
    | _ => (cp, .no)

/-- `parseInputExpr`: slice, member, insert — in that order -/
def parseInputExpr (s : Sc) : Sc × Res Seg :=
  match parseSliceInputExpr E s with
  | (s1, .err e) => (s1, .err e)
  | (s1, .ok x) => (s1, .ok x)
  | (s1, .no) =>
    match parseMemberInputExpr E s1 with
    | (s2, .err e) => (s2, .err e)
    | (s2, .ok x) => (s2, .ok x)
    | (s2, .no) => parseInsertExpr E s2

/-- the characters after which a name character may start an expression -/
def isBlankLikeTrigger (c : Nat) : Bool :=
  c == 32 || c == 9 || c == 10 || c == 13 || c == 61 || c == 44 || c == 91 || c == 62 ||
  c == 60 || c == 43 || c == 45 || c == 47 || c == 124 || c == 37

/-- the characters that may start an expression themselves: ( * $ & -/
def isExprTrigger (c : Nat) : Bool := c == 40 || c == 42 || c == 36 || c == 38

/-- loop of `advanceToNextExpression`; the Bool says whether the trailing
    `skipBlanks` is still to be done (false for the early `return nil`) -/
def advLoop : Nat → Sc → Sc × Res Bool
  | 0, s => (s, .err (errAt s .fuel))
  | f+1, s =>
    if s.pos < E.len then
      match skipStringLiteral E s with
      | (s1, .err e) => (s1, .err e)
      | (s1, .ok _) => advLoop f s1
      | (_, .no) =>
        let r := skipComment E s
        if r.2 then advLoop f r.1 else
        if isExprTrigger s.char then (s, .ok true)
        else if isBlankLikeTrigger s.char then
          let s1 := advanceChar E s
          if s1.pos ≥ E.len then (s1, .ok false)
          else if isNameChar E s1.char then (s1, .ok true)
          else advLoop f s1
        else advLoop f (advanceChar E s)
    else (s, .ok true)

/-- `advanceToNextExpression` -/
def advanceToNextExpression (s : Sc) : Sc × Option PErr :=
  if s.pos < E.len ∧ s.pos = 0 ∧ isNameChar E s.char = true then (s, none) else
  match advLoop E (E.len + 1) s with
  | (s1, .err e) => (s1, some e)
  | (s1, .ok true) => (skipBlanks E s1, none)
  | (s1, _) => (s1, none)

/-- main-loop state -/
structure PS where
  sc : Sc
  prevExprEnd : Nat
  currentExprStart : Nat
  exprs : List Seg
deriving Repr

/-- `add` -/
def PS.add (st : PS) (e : Option Seg) : PS :=
  let exprs := if st.prevExprEnd ≠ st.currentExprStart
    then st.exprs ++ [{ kind := .bypass, a := st.prevExprEnd, b := st.currentExprStart }] else st.exprs
  let exprs := match e with | some x => exprs ++ [x] | none => exprs
  { st with exprs := exprs, prevExprEnd := st.sc.pos, currentExprStart := st.sc.pos }

/-- the `for` loop of `Parse` -/
def parseLoop : Nat → PS → Except PErr PS
  | 0, st => .error (errAt st.sc .fuel)
  | f+1, st =>
    match advanceToNextExpression E st.sc with
    | (_, some e) => .error e
    | (sc1, none) =>
      let st1 : PS := { st with sc := sc1, currentExprStart := sc1.pos }
      if sc1.pos = E.len then .ok st1 else
      match parseOutputExpr E sc1 with
      | (_, .err e) => .error e
      | (sc2, .ok seg) => parseLoop f (PS.add { st1 with sc := sc2 } (some seg))
      | (sc2, .no) =>
        match parseInputExpr E sc2 with
        | (_, .err e) => .error e
        | (sc3, .ok seg) => parseLoop f (PS.add { st1 with sc := sc3 } (some seg))
        | (sc3, .no) => parseLoop f { st1 with sc := advanceChar E sc3 }

/-- `Parse`: the list of nodes, or the error (without the "cannot parse expression: "
    prefix; the position is rendered by `errorAt`) -/
def parse : Except PErr (List Seg) :=
  match parseLoop E (E.len + 2) { sc := initSc E, prevExprEnd := 0, currentExprStart := 0, exprs := [] } with
  | .error e => .error e
  | .ok st => .ok (st.add none).exprs

end
end Sqlair
