/-
  L2Rows/Inputs: a statement whose expressions are member inputs only: one parameter per
  expression (for the clause `inputsCounted` of the driver).
-/
import SqlairProofs.L2Rows.Shape

namespace Sqlair

def TExpr.isInput : TExpr → Bool
  | .input _ => true
  | _ => false

/-- bypass chunks and member inputs (no slice input) -/
def MemberInputs (es : List TExpr) : Prop :=
  ∀ e ∈ es, (∃ c, e = TExpr.bypass c) ∨ (∃ l, e = TExpr.input l ∧ l.nonSlice)

theorem MemberInputs.nil : MemberInputs [] := fun _ he => nomatch he

theorem bindSegs_members : ∀ (segs : List OSeg) (st st' : TEB),
    (segs.filter (·.kind != .bypass)).all (·.kind == .member) = true → bindSegs st segs = .ok st' →
    ∃ new, st'.exprs = st.exprs ++ new ∧ MemberInputs new ∧
      (new.filter TExpr.isInput).length = (segs.filter (·.kind != .bypass)).length := by
  intro segs
  induction segs with
  | nil =>
    intro st st' _ h
    simp only [bindSegs] at h
    cases h
    exact ⟨[], by simp, MemberInputs.nil, rfl⟩
  | cons x rest ih =>
    intro st st' hall h
    by_cases hx : x.kind = .bypass
    · have hf : (x :: rest).filter (·.kind != .bypass) = rest.filter (·.kind != .bypass) := by
        rw [List.filter_cons]; simp [hx]
      rw [hf] at hall ⊢
      simp only [bindSegs, bindSeg_bypass_ok hx] at h
      obtain ⟨new, h1, h2, h3⟩ := ih _ _ hall h
      refine ⟨.bypass x.raw :: new, by rw [h1]; simp [TEB.add], ?_, by simpa [TExpr.isInput] using h3⟩
      intro e he
      rcases List.mem_cons.1 he with rfl | he
      · exact .inl ⟨_, rfl⟩
      · exact h2 e he
    · have hx' : (x.kind != .bypass) = true := by simpa using hx
      have hf : (x :: rest).filter (·.kind != .bypass) = x :: rest.filter (·.kind != .bypass) := by
        rw [List.filter_cons, if_pos hx']
      rw [hf] at hall ⊢
      rw [List.all_cons, Bool.and_eq_true] at hall
      have hk : x.kind = .member := by simpa using hall.1
      simp only [bindSegs] at h
      split at h
      · cases h
      · rename_i st1 hs
        unfold bindSeg at hs
        rw [hk] at hs
        simp only at hs
        split at hs
        · rename_i a _
          split at hs
          · cases hs
          · rename_i l st0 hi
            cases hs
            obtain ⟨hns, hex, _⟩ := inputMember_ok hi
            obtain ⟨new, h1, h2, h3⟩ := ih _ _ hall.2 h
            refine ⟨.input l :: new, by rw [h1]; simp [TEB.add, hex], ?_, ?_⟩
            · intro e he
              rcases List.mem_cons.1 he with rfl | he
              · exact .inr ⟨l, rfl, hns⟩
              · exact h2 e he
            · rw [List.filter_cons, if_pos (by rfl), List.length_cons, List.length_cons, h3]
        · cases hs

theorem foldlM_members_params {tt : TypeTable} {m : TypeToValue} : ∀ (es : List TExpr) (qb qb' : QB),
    MemberInputs es → es.foldlM (addToQuery tt m) qb = .ok qb' →
    qb'.params.length = qb.params.length + (es.filter TExpr.isInput).length := by
  intro es
  induction es with
  | nil => intro qb qb' _ h; cases h; rfl
  | cons e rest ih =>
    intro qb qb' hall h
    rw [foldlM_except_cons] at h
    cases hs : addToQuery tt m qb e with
    | error x => rw [hs] at h; cases h
    | ok q1 =>
      rw [hs] at h
      have := ih q1 qb' (fun y hy => hall y (List.mem_cons_of_mem _ hy)) h
      rw [this]
      rcases hall e List.mem_cons_self with ⟨c, rfl⟩ | ⟨l, rfl, hns⟩
      · simp only [addToQuery] at hs
        cases hs
        simp [TExpr.isInput]
      · obtain ⟨p, s⟩ := addToQuery_input_spec hs
        have h1 := locateParams_single s.located s.not_bulk ((Loc.nonSlice_iff l).1 hns)
        rw [s.params, List.length_append, inputParams_length, h1, List.filter_cons, if_pos (by rfl), List.length_cons]
        omega

/-- one parameter per expression when all expressions are member inputs -/
theorem members_params_length {C : Cls} {tt : TypeTable} {segs : List OSeg} {samples : List (Option Nat)}
    {tes : List TExpr} {args : List GoVal} {pq : Primed}
    (hall : (segs.filter (·.kind != .bypass)).all (·.kind == .member) = true)
    (hp : bindTypes C tt segs samples = .ok tes) (hb : bindInputs tt tes args = .ok pq) :
    pq.params.length = (segs.filter (·.kind != .bypass)).length := by
  obtain ⟨infos, st, _, hs, _, rfl⟩ := bindTypes_ok_unfold hp
  obtain ⟨new, h1, h2, h3⟩ := bindSegs_members _ _ _ hall hs
  simp only [List.nil_append] at h1
  obtain ⟨m, qb, _, hq, _, rfl⟩ := bindInputs_ok_unfold hb
  rw [h1] at hq
  have := foldlM_members_params _ _ _ h2 hq
  simpa [h3] using this

end Sqlair
