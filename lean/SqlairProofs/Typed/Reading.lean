/-
  Typed/Reading: consequences of `WellTyped` in the words of the informal property C07
  (every type named in the query has exactly one sample, every sample is named, …) and
  reading aids for the projections used by `NodeOK` on the infos Prepare produces.
-/
import SqlairProofs.Typed.WellTyped
import SqlairProofs.Bind.Tag

namespace Sqlair

/-! ### the info table -/

theorem inj_of_nodup_map {α β : Type} {f : α → β} : ∀ {l : List α}, (l.map f).Nodup →
    ∀ {x y : α}, x ∈ l → y ∈ l → f x = f y → x = y := by
  intro l
  induction l with
  | nil => intro _ x y h; cases h
  | cons a rest ih =>
    intro hn x y hx hy he
    rw [List.map_cons, List.nodup_cons] at hn
    rcases List.mem_cons.1 hx with h1 | h1
    · rcases List.mem_cons.1 hy with h2 | h2
      · rw [h1, h2]
      · subst h1
        exact absurd (List.mem_map.2 ⟨y, h2, he.symm⟩) hn.1
    · rcases List.mem_cons.1 hy with h2 | h2
      · subst h2
        exact absurd (List.mem_map.2 ⟨x, h1, he⟩) hn.1
      · exact ih hn.2 h1 h2 he

theorem lookupInfo_mem {infos : List (Bytes × ArgInfo)} {T : Bytes} {ai : ArgInfo}
    (h : lookupInfo infos T = some ai) : (T, ai) ∈ infos := by
  unfold lookupInfo at h
  obtain ⟨p, hp, rfl⟩ := Option.map_eq_some_iff.1 h
  have hm := List.mem_of_find?_eq_some hp
  have hk : p.1 = T := by simpa using List.find?_some hp
  subst hk
  exact hm

theorem lookupInfo_of_mem : ∀ {infos : List (Bytes × ArgInfo)}, (infos.map (·.1)).Nodup →
    ∀ {T : Bytes} {ai : ArgInfo}, (T, ai) ∈ infos → lookupInfo infos T = some ai := by
  intro infos
  induction infos with
  | nil => intro _ T ai h; cases h
  | cons p rest ih =>
    intro hn T ai h
    rw [List.map_cons, List.nodup_cons] at hn
    unfold lookupInfo
    rw [List.find?_cons]
    rcases List.mem_cons.1 h with h | h
    · subst h; simp
    · have : ¬ p.1 = T := by
        intro he
        exact hn.1 (List.mem_map.2 ⟨(T, ai), h, he.symm⟩)
      have hb : (p.1 == T) = false := by simpa using this
      simp only [hb]
      exact ih hn.2 h

/-- with pairwise distinct names, "the sample named `T`" is membership in the table -/
theorem lookupInfo_iff_mem {infos : List (Bytes × ArgInfo)} (hn : (infos.map (·.1)).Nodup)
    {T : Bytes} {ai : ArgInfo} : lookupInfo infos T = some ai ↔ (T, ai) ∈ infos :=
  ⟨lookupInfo_mem, lookupInfo_of_mem hn⟩

theorem SampleInfo.unique {C : Cls} {tt : TypeTable} {tid : Nat} {a b : ArgInfo}
    (ha : SampleInfo C tt tid a) (hb : SampleInfo C tt tid b) : a = b := by
  have h1 := getArgInfo_ok_iff.2 ha
  have h2 := getArgInfo_ok_iff.2 hb
  rw [h1] at h2; cases h2; rfl

/-- the info table of valid samples: `T ↦ ai` iff some sample has the name `T` and `ai` is
    its info -/
theorem SamplesOK.lookup_iff {C : Cls} {tt : TypeTable} {samples : List (Option Nat)}
    {infos : List (Bytes × ArgInfo)} (h : SamplesOK C tt samples infos) (T : Bytes) (ai : ArgInfo) :
    lookupInfo infos T = some ai ↔
      ∃ tid, some tid ∈ samples ∧ sampleName tt tid = T ∧ SampleInfo C tt tid ai := by
  rw [lookupInfo_iff_mem h.nodup_keys]
  obtain ⟨tids, h1, _, _, h4, h5⟩ := h
  subst h1
  constructor
  · intro hm
    obtain ⟨i, hi, he⟩ := List.getElem_of_mem hm
    have hi' : i < tids.length := by omega
    have := h5 (tids[i], infos[i]) (by
      rw [List.mem_iff_getElem]
      exact ⟨i, by simp [List.length_zip]; omega, by simp⟩)
    rw [he] at this
    exact ⟨tids[i], List.mem_map.2 ⟨_, List.getElem_mem hi', rfl⟩, this.1.symm, this.2⟩
  · rintro ⟨tid, hm, rfl, hs⟩
    obtain ⟨t, ht, he⟩ := List.mem_map.1 hm
    cases he
    obtain ⟨i, hi, he⟩ := List.getElem_of_mem ht
    have hi' : i < infos.length := by omega
    have := h5 (tids[i], infos[i]) (by
      rw [List.mem_iff_getElem]
      exact ⟨i, by simp [List.length_zip]; omega, by simp⟩)
    rw [he] at this
    have h2 := this.2.unique hs
    have : infos[i] = (sampleName tt tid, ai) := by
      rw [← this.1, ← h2]
    rw [← this]
    exact List.getElem_mem hi'

/-- on the infos Prepare produces, `T.*` expands to all tags of the struct -/
theorem SampleInfo.starTags_eq {C : Cls} {tt : TypeTable} {tid : Nat} {tid' : Nat} {n : Bytes}
    {fields : List SField} {tags : List Bytes} (h : SampleInfo C tt tid (.struct tid' n fields tags)) :
    (ArgInfo.struct tid' n fields tags).starTags = tags ∧ ∀ t, t ∈ tags → ∃ f ∈ fields, f.tag = t := by
  rcases h with h | h | h
  · cases h.2.2
  · cases h.2
  · obtain ⟨_, fs, _, _, he⟩ := h
    simp only [ArgInfo.struct.injEq] at he
    obtain ⟨_, _, e3, e4⟩ := he
    subst e3
    subst e4
    have hall : ∀ t ∈ sortBytes (fields.map (·.tag)), ∃ f ∈ fields, f.tag = t := by
      intro t ht
      have := mem_sortBytes ht
      simpa using this
    refine ⟨?_, hall⟩
    unfold ArgInfo.starTags
    rw [List.filter_eq_self]
    intro t ht
    obtain ⟨f, hf, he⟩ := hall t ht
    exact List.any_eq_true.2 ⟨f, hf, by simp [he]⟩

/-! ### every type named by a well-typed node has a sample -/

theorem MemberOK.hasSample {infos : List (Bytes × ArgInfo)} {T m : Bytes} (h : MemberOK infos T m) :
    (lookupInfo infos T).isSome = true := by
  obtain ⟨ai, h, _⟩ := h; simp [h]

theorem StarOK.hasSample {infos : List (Bytes × ArgInfo)} {T : Bytes} (h : StarOK infos T) :
    (lookupInfo infos T).isSome = true := by
  obtain ⟨_, _, _, _, h, _⟩ := h; simp [h]

theorem AccessorOK.hasSample {infos : List (Bytes × ArgInfo)} {a : Acc} (h : AccessorOK infos a) :
    (lookupInfo infos a.ty).isSome = true := by
  by_cases hs : a.member = star
  · exact (h.1 hs).hasSample
  · exact (h.2 hs).hasSample

theorem NodeOK.types_have_samples {infos : List (Bytes × ArgInfo)} {used : List Bytes} {s : OSeg}
    (h : NodeOK infos used s) : ∀ T ∈ nodeTypes s, (lookupInfo infos T).isSome = true := by
  unfold NodeOK at h
  unfold nodeTypes
  cases hk : s.kind <;> simp only [hk] at h ⊢
  · intro T hT; cases hT
  · -- output
    intro T hT
    obtain ⟨t, ht, rfl⟩ := List.mem_map.1 hT
    rcases h.1 with hf | hf | hf
    · exact (hf.2 t ht).hasSample
    · obtain ⟨⟨hne, _, hl, _⟩, hm⟩ := hf
      have : s.types = [t] := by
        cases hts : s.types with
        | nil => rw [hts] at hl; simp at hl
        | cons t' r =>
          cases r with
          | nil => rw [hts] at ht; simp at ht; rw [ht]
          | cons _ _ => rw [hts] at hl; simp at hl
      rw [this] at hm
      obtain ⟨c, hc⟩ := List.exists_mem_of_ne_nil _ hne
      exact (hm c hc).hasSample
    · exact (hf.2.2.2.2 t ht).hasSample
  · obtain ⟨a, hts, hm⟩ := h
    rw [hts]
    intro T hT
    simp only [List.map_cons, List.map_nil, List.mem_singleton] at hT
    subst hT; exact hm.hasSample
  · obtain ⟨a, hts, tid, n, hl⟩ := h
    rw [hts]
    intro T hT
    simp only [List.map_cons, List.map_nil, List.mem_singleton] at hT
    subst hT; simp [hl]
  · intro T hT
    obtain ⟨t, ht, rfl⟩ := List.mem_map.1 hT
    exact (h t ht).hasSample
  · intro T hT
    obtain ⟨t, ht, rfl⟩ := List.mem_map.1 hT
    have := h.1 t ht
    by_cases hs : t.member = star
    · rcases this.1 hs with hm | hm
      · cases hl : lookupInfo infos t.ty with
        | none => rw [hl] at hm; cases hm
        | some _ => rfl
      · exact hm.hasSample
    · exact (this.2 hs).hasSample
  · intro T hT
    obtain ⟨t, ht, rfl⟩ := List.mem_map.1 hT
    exact (h.2 t ht).hasSample

/-! ### the informal reading of C07 -/

/-- C07 (⇒, in the words of the property): if Prepare accepts, then
    (1) no sample is nil and every sample type is a named struct, map or slice (not a pointer),
    (2) the sample names are pairwise distinct,
    (3) every type name occurring in a (non-bypass) node is the name of exactly one sample,
    (4) every sample's name occurs in some node. -/
theorem prepare_ok_reading_core {C : Cls} {tt : TypeTable} {segs : List OSeg} {samples : List (Option Nat)}
    {tes : List TExpr} (h : bindTypes C tt segs samples = .ok tes) :
    ∃ tids : List Nat, samples = tids.map some ∧
      (∀ tid ∈ tids, ((tt.get tid).kind = .struct ∨ (tt.get tid).kind = .map ∨ (tt.get tid).kind = .slice) ∧
        (sampleName tt tid).size ≠ 0) ∧
      (tids.map (sampleName tt)).Nodup ∧
      (∀ s ∈ segs, ∀ T ∈ nodeTypes s, ∃ tid ∈ tids, sampleName tt tid = T ∧
        ∀ tid' ∈ tids, sampleName tt tid' = T → tid' = tid) ∧
      (∀ tid ∈ tids, ∃ s ∈ segs, sampleName tt tid ∈ nodeTypes s) := by
  obtain ⟨infos, hs, hn, hu⟩ := bindTypes_ok_iff_wellTyped_core.1 ⟨tes, h⟩
  obtain ⟨tids, hk1, hk2⟩ := hs.keys
  have hs' := hs
  obtain ⟨tids', h1, h2, h3, _, _⟩ := hs'
  have : tids = tids' := by
    rw [hk1] at h1
    exact (List.map_inj_right (f := some) (by intro a b h; cases h; rfl)).1 h1
  subst this
  refine ⟨tids, hk1, h2, h3, ?_, ?_⟩
  · intro s hsm T hT
    obtain ⟨pre, post, rfl⟩ := List.append_of_mem hsm
    have hsome := (hn pre s post rfl).types_have_samples T hT
    obtain ⟨ai, hai⟩ := Option.isSome_iff_exists.1 hsome
    obtain ⟨tid, hm, hname, _⟩ := (hs.lookup_iff T ai).1 hai
    rw [hk1] at hm
    obtain ⟨t, ht, he⟩ := List.mem_map.1 hm
    cases he
    refine ⟨tid, ht, hname, ?_⟩
    intro tid' ht' hname'
    -- injectivity of the names on `tids`
    exact inj_of_nodup_map h3 ht' ht (hname'.trans hname.symm)
  · intro tid ht
    have : sampleName tt tid ∈ infos.map (·.1) := by
      rw [hk2]; exact List.mem_map.2 ⟨tid, ht, rfl⟩
    obtain ⟨p, hp, he⟩ := List.mem_map.1 this
    obtain ⟨s, hs1, hs2⟩ := hu p hp
    exact ⟨s, hs1, by rw [← he]; exact hs2⟩

end Sqlair
