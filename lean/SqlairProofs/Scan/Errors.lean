/-
  The errors of `scanArgs`: the classes that can arise, and exactly when "column-missing" and
  "destination-not-used" arise.
-/
import SqlairProofs.Scan.Args

namespace Sqlair

def validateErrors : List String :=
  ["nil-argument", "nil-pointer", "nil-map", "need-map-or-pointer", "need-map-or-pointer-to-struct",
   "pointer-to-nil-map", "type-provided-twice"]

def locateErrors : List String :=
  ["internal-column-not-in-outputs", "slice-output", "value-missing", "nil-embedded-pointer"]

/-- every error class of `scanArgs` -/
def scanArgsErrors : List String :=
  validateErrors ++ ["too-few-columns"] ++ locateErrors ++ ["column-missing", "destination-not-used"]

theorem validateOutputs_error_mem {ds : List Dest} {m : List (Nat × Nat)} {i : Nat} {e : String}
    (h : validateOutputs ds m i = .error e) : e ∈ validateErrors := by
  induction ds generalizing m i with
  | nil => simp [validateOutputs] at h
  | cons d rest ih =>
    unfold validateOutputs at h
    cases hf : d.form <;> rw [hf] at h <;> simp only [Except.error.injEq] at h <;>
      first
      | (subst h; decide)
      | (split at h
         · simp only [Except.error.injEq] at h; subst h; decide
         · exact ih h)

theorem locateTarget_error_mem {tt : TypeTable} {dests : List Dest} {m : List (Nat × Nat)} {l : Loc} {e : String}
    (h : locateTarget tt dests m l = .error e) : e ∈ locateErrors := by
  cases l with
  | slice => simp only [locateTarget, Except.error.injEq] at h; subst h; decide
  | mapKey tid n key =>
    simp only [locateTarget] at h
    split at h
    · simp only [Except.error.injEq] at h; subst h; decide
    · cases h
  | field tid n f =>
    simp only [locateTarget] at h
    split at h
    · simp only [Except.error.injEq] at h; subst h; decide
    · split at h
      · cases h
      · simp only [Except.error.injEq] at h; subst h; decide

theorem colTarget_error_mem {tt : TypeTable} {outputs : List Loc} {dests : List Dest} {m : List (Nat × Nat)}
    {c : Bytes} {e : String} (h : colTarget tt outputs dests m c = .error e) : e ∈ locateErrors := by
  unfold colTarget at h
  split at h
  · cases h
  · split at h
    · simp only [Except.error.injEq] at h; subst h; decide
    · exact locateTarget_error_mem h

theorem scanTargets_error_mem {tt : TypeTable} {outputs : List Loc} {dests : List Dest} {m : List (Nat × Nat)}
    {cols : List Bytes} {ts : List Target} {ir us : List Nat} {e : String}
    (h : scanTargets tt outputs dests m cols ts ir us = .error e) : e ∈ locateErrors := by
  induction cols generalizing ts ir us with
  | nil => simp [scanTargets] at h
  | cons c rest ih =>
    unfold scanTargets at h
    split at h
    · exact ih h
    · split at h
      · simp only [Except.error.injEq] at h; subst h; decide
      · split at h
        · rename_i e' hloc
          simp only [Except.error.injEq] at h; subst h
          exact locateTarget_error_mem hloc
        · exact ih h

/-- the complete case analysis of `scanArgs` -/
theorem scanArgs_cases (tt : TypeTable) (outputs : List Loc) (cols : List Bytes) (dests : List Dest) :
    (∃ e, validateOutputs dests [] 0 = .error e ∧ scanArgs tt outputs cols dests = .error e) ∨
    ∃ m, validateOutputs dests [] 0 = .ok m ∧
      ((cols.length < outputs.length ∧ scanArgs tt outputs cols dests = .error "too-few-columns") ∨
       (outputs.length ≤ cols.length ∧
        ((∃ e, scanTargets tt outputs dests m cols [] [] [] = .error e ∧ scanArgs tt outputs cols dests = .error e) ∨
         ((∀ c ∈ cols, ∃ t, colTarget tt outputs dests m c = .ok t) ∧
          (((∃ k, k < outputs.length ∧ ∀ c ∈ cols, markerIndex c ≠ some k) ∧
              scanArgs tt outputs cols dests = .error "column-missing") ∨
           ((∀ k, k < outputs.length → ∃ c ∈ cols, markerIndex c = some k) ∧
            (((∃ p ∈ m, ∀ c ∈ cols, ∀ l, colOutput outputs c = some l → l.tid ≠ p.1) ∧
                scanArgs tt outputs cols dests = .error "destination-not-used") ∨
             ((∀ p ∈ m, ∃ c ∈ cols, ∃ l, colOutput outputs c = some l ∧ l.tid = p.1) ∧
                scanArgs tt outputs cols dests = .ok (cols.map (tgt tt outputs dests m)))))))))) := by
  unfold scanArgs
  cases hv : validateOutputs dests [] 0 with
  | error e => left; exact ⟨e, rfl, rfl⟩
  | ok m =>
    right
    refine ⟨m, rfl, ?_⟩
    simp only
    by_cases hlen : cols.length < outputs.length
    · left; exact ⟨hlen, by rw [if_pos hlen]⟩
    · right
      refine ⟨by omega, ?_⟩
      rw [if_neg hlen]
      cases hst : scanTargets tt outputs dests m cols [] [] [] with
      | error e => left; exact ⟨e, rfl, rfl⟩
      | ok r =>
        right
        obtain ⟨hall, hr⟩ := (scanTargets_ok_iff tt outputs dests m cols [] [] [] r).mp hst
        subst hr
        refine ⟨hall, ?_⟩
        simp only [List.nil_append, List.append_nil]
        have hA : (List.range outputs.length).all (cols.filterMap markerIndex).reverse.contains = true ↔
            ∀ k, k < outputs.length → ∃ c ∈ cols, markerIndex c = some k := by
          simp [List.all_eq_true, List.mem_range, List.mem_filterMap]
        have hB : (m.all fun p => ((cols.filterMap (fun c => (colOutput outputs c).map Loc.tid)).reverse).contains p.1) = true ↔
            ∀ p ∈ m, ∃ c ∈ cols, ∃ l, colOutput outputs c = some l ∧ l.tid = p.1 := by
          simp [List.all_eq_true, List.mem_filterMap]
        by_cases h1 : (List.range outputs.length).all (cols.filterMap markerIndex).reverse.contains = true
        · right
          refine ⟨hA.mp h1, ?_⟩
          by_cases h2 : (m.all fun p => ((cols.filterMap (fun c => (colOutput outputs c).map Loc.tid)).reverse).contains p.1) = true
          · right
            exact ⟨hB.mp h2, by simp only [h1, h2, Bool.not_true, Bool.false_eq_true, if_false]⟩
          · left
            refine ⟨?_, by simp only [h1, h2, Bool.not_true, Bool.false_eq_true, if_false, Bool.not_false, if_true]⟩
            rw [hB] at h2
            obtain ⟨p, hp'⟩ := Classical.not_forall.mp h2
            obtain ⟨hp, hnp⟩ := Classical.not_imp.mp hp'
            refine ⟨p, hp, ?_⟩
            intro c hc l hl ht
            exact hnp ⟨c, hc, l, hl, ht⟩
        · left
          refine ⟨?_, by simp only [h1, Bool.not_false, if_true]⟩
          rw [hA] at h1
          obtain ⟨k, hk'⟩ := Classical.not_forall.mp h1
          obtain ⟨hk, hnk⟩ := Classical.not_imp.mp hk'
          refine ⟨k, hk, ?_⟩
          intro c hc hmi
          exact hnk ⟨c, hc, hmi⟩

theorem scanArgs_error_mem {tt : TypeTable} {outputs : List Loc} {cols : List Bytes} {dests : List Dest} {e : String}
    (h : scanArgs tt outputs cols dests = .error e) : e ∈ scanArgsErrors := by
  have mono1 : ∀ x, x ∈ validateErrors → x ∈ scanArgsErrors := by
    intro x hx; simp only [scanArgsErrors, List.mem_append]; exact Or.inl (Or.inl (Or.inl hx))
  have mono2 : ∀ x, x ∈ locateErrors → x ∈ scanArgsErrors := by
    intro x hx; simp only [scanArgsErrors, List.mem_append]; exact Or.inl (Or.inr hx)
  rcases scanArgs_cases tt outputs cols dests with ⟨e', hv, hs⟩ | ⟨m, hv, hc⟩
  · rw [hs] at h; cases h; exact mono1 _ (validateOutputs_error_mem hv)
  · rcases hc with ⟨_, hs⟩ | ⟨_, ⟨e', hst, hs⟩ | ⟨_, ⟨_, hs⟩ | ⟨_, ⟨_, hs⟩ | ⟨_, hs⟩⟩⟩⟩
    · rw [hs] at h; cases h; decide
    · rw [hs] at h; cases h; exact mono2 _ (scanTargets_error_mem hst)
    · rw [hs] at h; cases h; decide
    · rw [hs] at h; cases h; decide
    · rw [hs] at h; cases h

/-- "column-missing" arises exactly when the earlier checks pass and some output has no column -/
theorem scanArgs_column_missing_iff (tt : TypeTable) (outputs : List Loc) (cols : List Bytes) (dests : List Dest) :
    scanArgs tt outputs cols dests = .error "column-missing" ↔
      ∃ m, validateOutputs dests [] 0 = .ok m ∧ outputs.length ≤ cols.length ∧
        (∀ c ∈ cols, ∃ t, colTarget tt outputs dests m c = .ok t) ∧
        ∃ k, k < outputs.length ∧ ∀ c ∈ cols, markerIndex c ≠ some k := by
  rcases scanArgs_cases tt outputs cols dests with ⟨e', hv, hs⟩ | ⟨m, hv, hc⟩
  · have hmem := validateOutputs_error_mem hv
    rw [hs, hv]
    constructor
    · intro h; cases h; exact absurd hmem (by decide)
    · rintro ⟨_, h, _⟩; cases h
  · rw [hv]
    simp only [Except.ok.injEq, exists_eq_left']
    rcases hc with ⟨hlt, hs⟩ | ⟨hle, ⟨e', hst, hs⟩ | ⟨hall, ⟨hk, hs⟩ | ⟨hk, ⟨_, hs⟩ | ⟨_, hs⟩⟩⟩⟩
    · rw [hs]
      constructor
      · intro h; simp only [Except.error.injEq] at h; exact absurd h (by decide)
      · rintro ⟨h, _⟩; omega
    · have hmem := scanTargets_error_mem hst
      rw [hs]
      constructor
      · intro h; cases h; exact absurd hmem (by decide)
      · rintro ⟨_, hall, _⟩
        have := (scanTargets_ok_iff tt outputs dests m cols [] [] [] _).mpr ⟨hall, rfl⟩
        rw [hst] at this; cases this
    · rw [hs]; exact ⟨fun _ => ⟨hle, hall, hk⟩, fun _ => rfl⟩
    · rw [hs]
      constructor
      · intro h; simp only [Except.error.injEq] at h; exact absurd h (by decide)
      · rintro ⟨_, _, k, hlt, hno⟩
        obtain ⟨c, hc, hmi⟩ := hk k hlt
        exact absurd hmi (hno c hc)
    · rw [hs]
      constructor
      · intro h; cases h
      · rintro ⟨_, _, k, hlt, hno⟩
        obtain ⟨c, hc, hmi⟩ := hk k hlt
        exact absurd hmi (hno c hc)

/-- "destination-not-used" arises exactly when the earlier checks pass, every output has its
    column and some destination's type is not the type of any output with a column -/
theorem scanArgs_destination_not_used_iff (tt : TypeTable) (outputs : List Loc) (cols : List Bytes) (dests : List Dest) :
    scanArgs tt outputs cols dests = .error "destination-not-used" ↔
      ∃ m, validateOutputs dests [] 0 = .ok m ∧ outputs.length ≤ cols.length ∧
        (∀ c ∈ cols, ∃ t, colTarget tt outputs dests m c = .ok t) ∧
        (∀ k, k < outputs.length → ∃ c ∈ cols, markerIndex c = some k) ∧
        ∃ d ∈ dests, ∀ c ∈ cols, ∀ l, colOutput outputs c = some l → l.tid ≠ d.tid := by
  have conv : ∀ m, ValidMap dests m →
      ((∃ p ∈ m, ∀ c ∈ cols, ∀ l, colOutput outputs c = some l → l.tid ≠ p.1) ↔
       (∃ d ∈ dests, ∀ c ∈ cols, ∀ l, colOutput outputs c = some l → l.tid ≠ d.tid)) := by
    intro m hm
    constructor
    · rintro ⟨p, hp, h⟩
      rw [hm.eq, mem_idxMap] at hp
      obtain ⟨d, hd, ht⟩ := hp
      exact ⟨d, List.mem_of_getElem? hd, by rw [ht]; exact h⟩
    · rintro ⟨d, hd, h⟩
      obtain ⟨di, hlt, hdi⟩ := List.mem_iff_getElem.mp hd
      refine ⟨(d.tid, di), ?_, h⟩
      rw [hm.eq, mem_idxMap]
      exact ⟨d, by rw [List.getElem?_eq_getElem hlt, hdi], rfl⟩
  rcases scanArgs_cases tt outputs cols dests with ⟨e', hv, hs⟩ | ⟨m, hv, hc⟩
  · have hmem := validateOutputs_error_mem hv
    rw [hs, hv]
    constructor
    · intro h; cases h; exact absurd hmem (by decide)
    · rintro ⟨_, h, _⟩; cases h
  · have hm := validMap_of_ok hv
    rw [hv]
    simp only [Except.ok.injEq, exists_eq_left']
    rcases hc with ⟨hlt, hs⟩ | ⟨hle, ⟨e', hst, hs⟩ | ⟨hall, ⟨⟨k, hlt, hno⟩, hs⟩ | ⟨hk, ⟨hp, hs⟩ | ⟨hp, hs⟩⟩⟩⟩
    · rw [hs]
      constructor
      · intro h; simp only [Except.error.injEq] at h; exact absurd h (by decide)
      · rintro ⟨h, _⟩; omega
    · have hmem := scanTargets_error_mem hst
      rw [hs]
      constructor
      · intro h; cases h; exact absurd hmem (by decide)
      · rintro ⟨_, hall, _⟩
        have := (scanTargets_ok_iff tt outputs dests m cols [] [] [] _).mpr ⟨hall, rfl⟩
        rw [hst] at this; cases this
    · rw [hs]
      constructor
      · intro h; simp only [Except.error.injEq] at h; exact absurd h (by decide)
      · rintro ⟨_, _, hk, _⟩
        obtain ⟨c, hc, hmi⟩ := hk k hlt
        exact absurd hmi (hno c hc)
    · rw [hs]; exact ⟨fun _ => ⟨hle, hall, hk, (conv m hm).mp hp⟩, fun _ => rfl⟩
    · rw [hs]
      constructor
      · intro h; cases h
      · rintro ⟨_, _, _, hd⟩
        obtain ⟨p, hpm, hno⟩ := (conv m hm).mpr hd
        obtain ⟨c, hc, l, hl, ht⟩ := hp p hpm
        exact absurd ht (hno c hc l hl)

end Sqlair
