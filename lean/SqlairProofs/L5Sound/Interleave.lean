/-
  L5Sound/Interleave: C09 and C10 (and the "never closed twice" half of C11) hold of the
  model's own observation of ANY list of atomic steps - any interleaving of any number of
  operations with reference drops, iterator closes and finalizer runs.

  The sequential development (`Execs`, `Props/L5Sound`) proves these for `runHistory`; here
  the same Boolean predicates are proved for `run {} steps`, by induction over the steps with
  the bundled invariant `Inv` as the induction hypothesis.
-/
import SqlairProofs.L5Sound.InterleaveDefs
import SqlairProofs.L5Sound.General
import SqlairProofs.L5Sound.Execs

namespace Sqlair.Cache

/-! ### what an enabled `exec` step observes -/

theorem l5i_exec_step {st st' : St} (hi : Inv st) {t : Nat} {iter : Option Nat}
    (hs : step st (.exec t iter) = some st') :
    ∃ o id, alook st.ops t = some o ∧ o.pc = .ready id ∧ Ev.close id ∉ st.log ∧
      st'.log = st.log ++ [.exec id o.d o.sql] ∧
      l5i_stepObs st (.exec t iter) =
        [{ ds := id, db := o.d, shape := o.sql, wantDb := o.d, wantShape := o.sql, closedBefore := false }] ∧
      l5i_stepWant st (.exec t iter) = [(st.log.length, o.d, o.sql)] := by
  obtain ⟨o, id, x, ho, hpc, hx, hc⟩ := step_exec hs
  obtain ⟨y, hy, hdb, hsql, hcc, _⟩ := hi.ops.ready t o id (alook_some_mem ho) hpc
  rw [hx] at hy; cases hy
  have hn : Ev.close id ∉ st.log := by
    intro hcl
    obtain ⟨y, hy, hyc⟩ := hi.log.close id hcl
    rw [hx] at hy; cases hy
    have := hi.dsOK.dclosed id x hx hyc
    rw [hcc] at this; cases this
  refine ⟨o, id, ho, hpc, hn, ?_, ?_, ?_⟩
  · rcases hc with ⟨hc, _⟩ | ⟨_, ⟨_, rfl⟩ | ⟨_, _, _, rfl⟩⟩
    · rw [hcc] at hc; cases hc
    · rw [hdb, hsql]
    · rw [hdb, hsql]
  · have hcont : st.log.contains (Ev.close id) = false := by
      cases h : st.log.contains (Ev.close id) with
      | false => rfl
      | true => exact absurd (List.contains_iff_mem.1 h) hn
    simp only [l5i_stepObs, hs, Option.isSome_some, if_true, getOp_eq, ho, hpc, getDS_eq, hx, hdb, hsql, hcc,
      hcont, Bool.or_false]
  · simp only [l5i_stepWant, hs, Option.isSome_some, if_true, getOp_eq, ho]

theorem l5i_stepObs_none {st : St} {x : Step} (h : step st x = none) : l5i_stepObs st x = [] := by
  cases x <;> try rfl
  simp only [l5i_stepObs, h, Option.isSome_none, Bool.false_eq_true, if_false]

theorem l5i_stepWant_none {st : St} {x : Step} (h : step st x = none) : l5i_stepWant st x = [] := by
  cases x <;> try rfl
  simp only [l5i_stepWant, h, Option.isSome_none, Bool.false_eq_true, if_false]

theorem l5i_stepObs_nonexec (st : St) {x : Step} (hx : ∀ t it, x ≠ .exec t it) : l5i_stepObs st x = [] := by
  cases x <;> first | rfl | exact absurd rfl (hx _ _)

theorem l5i_stepWant_nonexec (st : St) {x : Step} (hx : ∀ t it, x ≠ .exec t it) : l5i_stepWant st x = [] := by
  cases x <;> first | rfl | exact absurd rfl (hx _ _)

/-- every observation a step contributes is a matching execution of an unclosed statement -/
theorem l5i_stepObs_ok {st : St} (hi : Inv st) (x : Step) :
    ∀ e ∈ l5i_stepObs st x, e.db = e.wantDb ∧ e.shape = e.wantShape ∧ e.closedBefore = false := by
  intro e he
  cases hs : step st x with
  | none => rw [l5i_stepObs_none hs] at he; cases he
  | some st' =>
    by_cases hx : ∀ t it, x ≠ .exec t it
    · rw [l5i_stepObs_nonexec st hx] at he; cases he
    · have : ∃ t it, x = .exec t it := by
        cases x <;> first | exact ⟨_, _, rfl⟩ | (exfalso; apply hx; intro t it e; cases e)
      obtain ⟨t, it, rfl⟩ := this
      obtain ⟨o, id, _, _, _, _, hobs, _⟩ := l5i_exec_step hi hs
      rw [hobs, List.mem_singleton] at he
      subst he
      exact ⟨rfl, rfl, rfl⟩

theorem l5i_getD_inv {st : St} (hi : Inv st) (x : Step) : Inv ((step st x).getD st) := by
  cases h : step st x with
  | none => exact hi
  | some st' => exact inv_step hi x h

theorem l5i_execsFrom_ok (steps : List Step) : ∀ {st : St}, Inv st →
    ∀ e ∈ l5i_execsFrom st steps, e.db = e.wantDb ∧ e.shape = e.wantShape ∧ e.closedBefore = false := by
  induction steps with
  | nil => intro st _ e he; cases he
  | cons x xs ih =>
    intro st hi e he
    rw [l5i_execsFrom, List.mem_append] at he
    rcases he with he | he
    · exact l5i_stepObs_ok hi x e he
    · exact ih (l5i_getD_inv hi x) e he

/-! ### the observation is the sequence of execution events of the log -/

/-- a step other than `exec` appends no execution event -/
theorem l5i_nonexec_log {st st' : St} {x : Step} (hx : ∀ t it, x ≠ .exec t it) (h : step st x = some st') :
    ∃ evs, st'.log = st.log ++ evs ∧ ∀ e ∈ evs, l5i_isExecEv e = false := by
  have hq : L5sQuiet st st' → ∃ evs, st'.log = st.log ++ evs ∧ ∀ e ∈ evs, l5i_isExecEv e = false := by
    intro hq
    obtain ⟨evs, hl, hev⟩ := hq.log
    refine ⟨evs, hl, ?_⟩
    intro e he
    obtain ⟨id, rfl⟩ := hev e he
    rfl
  have hsame : st'.log = st.log → ∃ evs, st'.log = st.log ++ evs ∧ ∀ e ∈ evs, l5i_isExecEv e = false := by
    intro hl
    exact ⟨[], by rw [hl, List.append_nil], by intro e he; cases he⟩
  cases x with
  | newS => exact hsame (by rw [step_newS h])
  | newD => exact hsame (by rw [step_newD h])
  | query t s d q => obtain ⟨_, _, _, rfl⟩ := step_query h; exact hsame rfl
  | lookup t =>
    obtain ⟨o, _, _, hc⟩ := step_lookup h
    rcases hc with ⟨_, _, _, _, _, rfl⟩ | rfl <;> exact hsame rfl
  | prepare t =>
    obtain ⟨o, _, _, rfl⟩ := step_prepare h
    refine ⟨[.prepare (st.ds.length + 1) o.d o.sql], rfl, ?_⟩
    intro e he
    rw [List.mem_singleton] at he
    subst he; rfl
  | insert t => obtain ⟨o, id, _, _, rfl⟩ := step_insert h; exact hsame rfl
  | exec t it => exact absurd rfl (hx t it)
  | iterClose hd => exact hq (l5s_iterClose_quiet h)
  | dropS s => obtain ⟨_, rfl⟩ := step_dropS h; exact hsame rfl
  | dropD d => obtain ⟨_, rfl⟩ := step_dropD h; exact hsame rfl
  | finS s => exact hq (l5s_finS_quiet h)
  | finD d => exact hq (l5s_finD_quiet h)
  | finDS id => exact hq (l5s_finDS_quiet h)

/-- the event an observation stands for -/
def l5i_evOf (e : ExecObs) : Ev := .exec e.ds e.db e.shape

theorem l5i_filter_none {evs : List Ev} (h : ∀ e ∈ evs, l5i_isExecEv e = false) : evs.filter l5i_isExecEv = [] := by
  rw [List.filter_eq_nil_iff]
  intro e he
  rw [h e he]; simp

/-- one step: the execution events it appends are the observations it contributes -/
theorem l5i_step_events {st : St} (hi : Inv st) (x : Step) :
    ((step st x).getD st).log.filter l5i_isExecEv =
      st.log.filter l5i_isExecEv ++ (l5i_stepObs st x).map l5i_evOf := by
  cases hs : step st x with
  | none => rw [l5i_stepObs_none hs]; simp
  | some st' =>
    simp only [Option.getD_some]
    by_cases hx : ∀ t it, x ≠ .exec t it
    · obtain ⟨evs, hl, hev⟩ := l5i_nonexec_log hx hs
      rw [l5i_stepObs_nonexec st hx, hl, List.filter_append, l5i_filter_none hev]
      simp
    · have : ∃ t it, x = .exec t it := by
        cases x <;> first | exact ⟨_, _, rfl⟩ | (exfalso; apply hx; intro t it e; cases e)
      obtain ⟨t, it, rfl⟩ := this
      obtain ⟨o, id, _, _, _, hl, hobs, _⟩ := l5i_exec_step hi hs
      rw [hl, hobs, List.filter_append]
      rfl

theorem l5i_execsFrom_events (steps : List Step) : ∀ {st : St}, Inv st →
    (run st steps).log.filter l5i_isExecEv =
      st.log.filter l5i_isExecEv ++ (l5i_execsFrom st steps).map l5i_evOf := by
  induction steps with
  | nil => intro st _; simp [run, l5i_execsFrom]
  | cons x xs ih =>
    intro st hi
    rw [run_cons, ih (l5i_getD_inv hi x), l5i_step_events hi x, l5i_execsFrom, List.map_append,
      List.append_assoc]

/-! ### the attribution of wanted pairs, in the format of the sequential observation -/

/-- the two clauses of `L5sW` that concern the log -/
structure L5iW (log : List Ev) (w : List (Nat × Nat × Nat)) : Prop where
  wlt : ∀ e ∈ w, e.1 < log.length
  wexec : ∀ i ds db sql, log[i]? = some (Ev.exec ds db sql) → w.lookup i = some (db, sql)

theorem l5i_w_init : L5iW ([] : List Ev) [] :=
  ⟨(by intro e he; cases he), (by intro i ds db sql h; simp at h)⟩

theorem l5i_w_step {st : St} (hi : Inv st) {w : List (Nat × Nat × Nat)} (hw : L5iW st.log w) (x : Step) :
    L5iW ((step st x).getD st).log (w ++ l5i_stepWant st x) := by
  cases hs : step st x with
  | none => rw [l5i_stepWant_none hs, List.append_nil]; exact hw
  | some st' =>
    simp only [Option.getD_some]
    by_cases hx : ∀ t it, x ≠ .exec t it
    · obtain ⟨evs, hl, hev⟩ := l5i_nonexec_log hx hs
      rw [l5i_stepWant_nonexec st hx, List.append_nil, hl]
      obtain ⟨h1, h2⟩ := l5s_w_quiet hw.wlt hw.wexec (evs := evs) (by
        intro ds db sql hm
        have := hev _ hm
        cases this)
      exact ⟨h1, h2⟩
    · have : ∃ t it, x = .exec t it := by
        cases x <;> first | exact ⟨_, _, rfl⟩ | (exfalso; apply hx; intro t it e; cases e)
      obtain ⟨t, it, rfl⟩ := this
      obtain ⟨o, id, _, _, _, hl, _, hwant⟩ := l5i_exec_step hi hs
      rw [hl, hwant]
      obtain ⟨h1, h2⟩ := l5s_w_extend hw.wlt hw.wexec (evs := [Ev.exec id o.d o.sql]) (p := (o.d, o.sql)) (by
        intro ds db sql hm
        rw [List.mem_singleton] at hm
        cases hm; rfl)
      exact ⟨h1, h2⟩

theorem l5i_w_run (steps : List Step) : ∀ {st : St} {w : List (Nat × Nat × Nat)}, Inv st → L5iW st.log w →
    L5iW (run st steps).log (w ++ l5i_wantsFrom st steps) := by
  induction steps with
  | nil => intro st w _ hw; simpa [run, l5i_wantsFrom] using hw
  | cons x xs ih =>
    intro st w hi hw
    rw [run_cons, l5i_wantsFrom, ← List.append_assoc]
    exact ih (l5i_getD_inv hi x) (l5i_w_step hi hw x)

/-- `l5s_execsOf_c09` needs only the log clauses of the attribution -/
theorem l5i_execsOf_c09 {st : St} (hr : Reachable st) {w : List (Nat × Nat × Nat)}
    (hw : L5iW st.log w) : holdsC09 (l5s_execsOf st.log w) = true := by
  unfold holdsC09
  rw [List.all_eq_true]
  intro e he
  unfold l5s_execsOf at he
  obtain ⟨i, _, hi⟩ := List.mem_filterMap.1 he
  unfold l5s_obsAt at hi
  simp only at hi
  split at hi
  · rename_i ds d q hev
    cases hi
    simp only [l5s_prepOf_exec hr hev, hw.wexec i ds d q hev, Option.getD_some, beq_self_eq_true, Bool.and_self]
  · rename_i ds hev
    exact absurd (List.mem_of_getElem? hev) (no_use_after_close hr ds)
  · cases hi

/-! ### never closed twice, read off the log alone -/

theorem l5i_doubleCloseLog_zero {st : St} (hr : Reachable st) : l5i_doubleCloseLog st.log = 0 := by
  unfold l5i_doubleCloseLog
  rw [List.length_eq_zero_iff, List.filter_eq_nil_iff]
  intro e _
  cases e with
  | close ds =>
    have := hr.inv.log.close1 ds
    simp only [l5s_closes_eq_count, decide_eq_true_eq]
    omega
  | prepare _ _ _ => simp
  | exec _ _ _ => simp
  | execClosed _ => simp

end Sqlair.Cache

namespace Sqlair.Cache

/-! ### the two renderings of the observation coincide

  Both are the log's `exec` events, each rendered as a matching, unclosed observation. -/

/-- the observation a sound log entry stands for -/
def l5i_canon : Ev → Option ExecObs
  | .exec ds d q => some { ds := ds, db := d, shape := q, wantDb := d, wantShape := q, closedBefore := false }
  | _ => none

theorem l5i_canon_none {e : Ev} (h : l5i_isExecEv e = false) : l5i_canon e = none := by
  cases e <;> first | rfl | cases h

theorem l5i_filterMap_getElem? {α β : Type} (l : List α) (f : α → Option β) :
    (List.range l.length).filterMap (fun i => (l[i]?).bind f) = l.filterMap f := by
  have h1 : (List.range l.length).map (fun i => l[i]?) = l.map some := by
    apply List.ext_getElem
    · simp
    · intro i h1 h2
      simp at h1
      simp [h1]
  have h2 : (List.range l.length).filterMap (fun i => (l[i]?).bind f) =
      ((List.range l.length).map (fun i => l[i]?)).filterMap (fun o => o.bind f) := by
    rw [List.filterMap_map]; rfl
  rw [h2, h1, List.filterMap_map]
  rfl

theorem l5i_filterMap_congr {α β : Type} {f g : α → Option β} {l : List α} (h : ∀ a ∈ l, f a = g a) :
    l.filterMap f = l.filterMap g := by
  induction l with
  | nil => rfl
  | cons a l ih =>
    rw [List.filterMap_cons, List.filterMap_cons, h a (List.mem_cons_self ..),
      ih (fun b hb => h b (List.mem_cons_of_mem _ hb))]

theorem l5i_take_no_close {st : St} (hr : Reachable st) {i ds d q : Nat} (hev : st.log[i]? = some (Ev.exec ds d q)) :
    (List.take i st.log).contains (Ev.close ds) = false := by
  cases hc : (List.take i st.log).contains (Ev.close ds) with
  | false => rfl
  | true =>
    exfalso
    rw [List.contains_iff_mem, List.mem_iff_getElem?] at hc
    obtain ⟨j, hj⟩ := hc
    rw [List.getElem?_take] at hj
    split at hj
    · have := (l5s_log_reachable hr).order j i ds d q hj hev
      omega
    · cases hj

/-- in a reachable state with a sound attribution, the harness-style observation of every
    log index is the canonical rendering of the event there -/
theorem l5i_obsAt_canon {st : St} (hr : Reachable st) {w : List (Nat × Nat × Nat)} (hw : L5iW st.log w) (i : Nat) :
    l5s_obsAt st.log w i = (st.log[i]?).bind l5i_canon := by
  unfold l5s_obsAt
  cases hev : st.log[i]? with
  | none => rfl
  | some e =>
    cases e with
    | exec ds d q =>
      simp only [l5s_prepOf_exec hr hev, hw.wexec i ds d q hev, Option.getD_some, l5i_take_no_close hr hev,
        Option.bind_some, l5i_canon]
    | execClosed ds => exact absurd (List.mem_of_getElem? hev) (no_use_after_close hr ds)
    | prepare _ _ _ => rfl
    | close _ => rfl

theorem l5i_execsOf_canon {st : St} (hr : Reachable st) {w : List (Nat × Nat × Nat)} (hw : L5iW st.log w) :
    l5s_execsOf st.log w = st.log.filterMap l5i_canon := by
  unfold l5s_execsOf
  rw [← l5i_filterMap_getElem? st.log l5i_canon]
  apply l5i_filterMap_congr
  intro i _
  exact l5i_obsAt_canon hr hw i

theorem l5i_filterMap_canon_none {evs : List Ev} (h : ∀ e ∈ evs, l5i_isExecEv e = false) :
    evs.filterMap l5i_canon = [] := by
  rw [List.filterMap_eq_nil_iff]
  intro e he
  exact l5i_canon_none (h e he)

theorem l5i_step_canon {st : St} (hi : Inv st) (x : Step) :
    ((step st x).getD st).log.filterMap l5i_canon = st.log.filterMap l5i_canon ++ l5i_stepObs st x := by
  cases hs : step st x with
  | none => rw [l5i_stepObs_none hs]; simp
  | some st' =>
    simp only [Option.getD_some]
    by_cases hx : ∀ t it, x ≠ .exec t it
    · obtain ⟨evs, hl, hev⟩ := l5i_nonexec_log hx hs
      rw [l5i_stepObs_nonexec st hx, hl, List.filterMap_append, l5i_filterMap_canon_none hev]
    · have : ∃ t it, x = .exec t it := by
        cases x <;> first | exact ⟨_, _, rfl⟩ | (exfalso; apply hx; intro t it e; cases e)
      obtain ⟨t, it, rfl⟩ := this
      obtain ⟨o, id, _, _, _, hl, hobs, _⟩ := l5i_exec_step hi hs
      rw [hl, hobs, List.filterMap_append]
      rfl

theorem l5i_execsFrom_canon (steps : List Step) : ∀ {st : St}, Inv st →
    (run st steps).log.filterMap l5i_canon = st.log.filterMap l5i_canon ++ l5i_execsFrom st steps := by
  induction steps with
  | nil => intro st _; simp [run, l5i_execsFrom]
  | cons x xs ih =>
    intro st hi
    rw [run_cons, ih (l5i_getD_inv hi x), l5i_step_canon hi x, l5i_execsFrom, List.append_assoc]

end Sqlair.Cache
