/-
  L4Sound, pair cases: the context marks of the driver calls, C20.
-/
import SqlairProofs.L4Sound.C20

namespace Sqlair.Rt

/-! ### `Obs.kindsWith` -/

/-- `Obs.kindsWith` on a list of "kind@mark" entries -/
def l4s_kinds (ctxs : List String) (mark : String) : List String :=
  ctxs.filterMap fun x =>
    match x.splitOn "@" with
    | [k, m] => if m == mark || m.startsWith (mark ++ "+") then some k else none
    | _ => none

theorem l4s_kindsWith_eq (o : Obs) (mark : String) : o.kindsWith mark = l4s_kinds o.eventCtx mark := rfl

/-- kinds of context-carrying driver calls, marks of the harness -/
def l4s_isKind (k : String) : Prop := k = "prepare" ∨ k = "exec" ∨ k = "query"
def l4s_isMark (m : String) : Prop := m = "MARK-A" ∨ m = "MARK-B" ∨ m = "-"

theorem l4s_splitOn_entry {k m : String} (hk : l4s_isKind k) (hm : l4s_isMark m) :
    (k ++ "@" ++ m).splitOn "@" = [k, m] := by
  rcases hk with rfl | rfl | rfl <;> rcases hm with rfl | rfl | rfl <;>
    exact l4s_splitOn_of_fuel 40 _ _ _ (by decide +kernel) (by decide +kernel)

theorem l4s_kinds_nil (mark : String) : l4s_kinds [] mark = [] := rfl

theorem l4s_kinds_cons {k m : String} (hk : l4s_isKind k) (hm : l4s_isMark m) (rest : List String) (mark : String) :
    l4s_kinds ((k ++ "@" ++ m) :: rest) mark =
      (if m == mark || m.startsWith (mark ++ "+") then [k] else []) ++ l4s_kinds rest mark := by
  unfold l4s_kinds
  rw [List.filterMap_cons, l4s_splitOn_entry hk hm]
  dsimp only
  split <;> simp_all

theorem l4s_kinds_append (l1 l2 : List String) (mark : String) :
    l4s_kinds (l1 ++ l2) mark = l4s_kinds l1 mark ++ l4s_kinds l2 mark := by
  unfold l4s_kinds; rw [List.filterMap_append]

/-- entries with mark `m`, looked up under mark `mark` -/
theorem l4s_kinds_map {ks : List String} (hks : ∀ k ∈ ks, l4s_isKind k) {m : String} (hm : l4s_isMark m)
    (mark : String) :
    l4s_kinds (ks.map fun k => k ++ "@" ++ m) mark =
      if m == mark || m.startsWith (mark ++ "+") then ks else [] := by
  induction ks with
  | nil => simp [l4s_kinds_nil]
  | cons k rest ih =>
    rw [List.map_cons, l4s_kinds_cons (hks k (by simp)) hm, ih (fun k hk => hks k (by simp [hk]))]
    split <;> simp

theorem l4s_markB_cases (c : Case) : c.markB = "-" ∨ c.markB = "MARK-B" := by
  unfold Case.markB; split <;> simp

theorem l4s_isMark_markB (c : Case) : l4s_isMark c.markB := by
  rcases l4s_markB_cases c with h | h <;> rw [h]
  · exact .inr (.inr rfl)
  · exact .inr (.inl rfl)

/-- rendered context-carrying events are kinds -/
theorem l4s_isKind_of_ctxBearing (l : List Ev) : ∀ k ∈ (l.filter ctxBearing).map Ev.render, l4s_isKind k := by
  intro k hk
  obtain ⟨e, he, rfl⟩ := List.mem_map.1 hk
  have := (List.mem_filter.1 he).2
  cases e <;> simp [ctxBearing] at this <;> simp [l4s_isKind, Ev.render]

/-- the marks recorded for a pair case give back A's and B's driver calls -/
theorem l4s_kinds_pair (c : Case) {evA evB : List String} (hA : ∀ k ∈ evA, l4s_isKind k)
    (hB : ∀ k ∈ evB, l4s_isKind k) :
    l4s_kinds (evA.map (fun k => k ++ "@" ++ "MARK-A") ++ evB.map (fun k => k ++ "@" ++ c.markB)) "MARK-A" = evA ∧
    l4s_kinds (evA.map (fun k => k ++ "@" ++ "MARK-A") ++ evB.map (fun k => k ++ "@" ++ c.markB)) c.markB = evB := by
  rw [l4s_kinds_append, l4s_kinds_append, l4s_kinds_map hA (.inl rfl), l4s_kinds_map hA (.inl rfl),
    l4s_kinds_map hB (l4s_isMark_markB c), l4s_kinds_map hB (l4s_isMark_markB c)]
  rcases l4s_markB_cases c with h | h <;> rw [h] <;> simp

theorem l4s_pair_eventCtx (win : String) {c : Case} (h : c.op = "pair") (p : Pred) :
    (predObsW win c p).eventCtx =
      p.evA.map (fun k => k ++ "@" ++ "MARK-A") ++ p.evB.map (fun k => k ++ "@" ++ c.markB) := by
  show l4s_eventCtx c p = _
  simp [l4s_eventCtx, h]

theorem l4s_predictPair_evA (c : Case) :
    (predictPair c).evA = ((queryGet (l4s_pairA c) {} {}).2.log.filter ctxBearing).map Ev.render := by
  rw [l4s_predictPair_eq]

theorem l4s_predictPair_evB (c : Case) :
    (predictPair c).evB = ((l4s_pairB c).2.1.log.filter ctxBearing).map Ev.render := by
  rw [l4s_predictPair_eq]

/-- on the predicted observation of a pair case the marks give back the model's lists -/
theorem l4s_pair_kindsWith (win : String) {c : Case} (h : c.op = "pair") :
    (predObsW win c (predictPair c)).kindsWith "MARK-A" = (predictPair c).evA ∧
    (predObsW win c (predictPair c)).kindsWith c.markB = (predictPair c).evB := by
  rw [l4s_kindsWith_eq, l4s_kindsWith_eq, l4s_pair_eventCtx win h]
  apply l4s_kinds_pair
  · rw [l4s_predictPair_evA]; exact l4s_isKind_of_ctxBearing _
  · rw [l4s_predictPair_evB]; exact l4s_isKind_of_ctxBearing _

/-! ### B's operation -/

theorem l4s_pairBase_free (c : Case) : (l4s_pairBase c).l4s_Free .ctx := by
  refine ⟨?_, ?_, ?_⟩
  · have : (l4s_pairBase c).openErr = none := by simp [Script.openErr, l4s_pairBase]
    rw [this]; exact l4s_OFree_none _
  · exact l4s_OFree_none _
  · intro e he
    have hf : (l4s_pairBase c).fetch = c.fetch := rfl
    rw [hf] at he
    rw [l4s_fetch_error_mem he]; exact l4s_free_inj (.inl rfl) 3

theorem l4s_pairB_err_free (c : Case) : l4s_OFree .ctx (l4s_pairB c).1 := by
  unfold l4s_pairB
  split
  · show l4s_OFree .ctx (queryGetAllArgs _ _ _ _).1.err
    rw [l4s_queryGetAllArgs_fst]; exact l4s_getAllArgsSpec_free (.inl rfl) (l4s_pairBase_free c) _ _
  · show l4s_OFree .ctx (queryGet _ _ _).1.err
    rw [queryGet_fst]; exact l4s_getSpec_free (.inl rfl) (l4s_pairBase_free c) _
  · show l4s_OFree .ctx (queryGet _ _ _).1.err
    rw [queryGet_fst]; exact l4s_getSpec_free (.inl rfl) (l4s_pairBase_free c) _

/-- `Get` that is not refused runs the statement -/
theorem l4s_queryGet_ran (s : Script) (c : GetCall) (w : World) (h : s.hasOutputs = true ∨ c.dests = 0) :
    l4s_RowExt (iterOpen s w).2 (queryGet s c w).2 := by
  rcases queryGet_snd s c w with ⟨_, hrej⟩ | ⟨_, h' | h'⟩
  · exfalso
    simp only [Bool.and_eq_true, Bool.not_eq_true', decide_eq_true_eq] at hrej
    rcases h with h | h
    · rw [h] at hrej; exact absurd hrej.1 (by simp)
    · omega
  · rw [h']; exact l4s_Iter_close_ext _ _
  · rw [h']; exact (l4s_Iter_next_ext _ _).trans (l4s_Iter_close_ext _ _)

theorem l4s_filter_ctxBearing_rows {evs : List Ev} (h : evs.all Ev.l4s_isRow = true) : evs.filter ctxBearing = [] := by
  rw [List.filter_eq_nil_iff]
  intro e he
  have := List.all_eq_true.1 h e he
  cases e <;> simp_all [Ev.l4s_isRow, ctxBearing]

theorem l4s_evs_of_ran {s : Script} {w2 : World} (h : l4s_RowExt (iterOpen s {}).2 w2) :
    (w2.log.filter ctxBearing).map Ev.render = (s.openEvents.filter ctxBearing).map Ev.render := by
  obtain ⟨evs, hlog, hrows⟩ := h
  rw [hlog, l4s_iterOpen_log]
  simp [List.filter_append, l4s_filter_ctxBearing_rows hrows]

theorem l4s_pairBase_openEvents (c : Case) :
    ((l4s_pairBase c).openEvents.filter ctxBearing).map Ev.render =
      ["prepare", if c.hasOutputs then "query" else "exec"] := by
  cases h : c.hasOutputs <;> simp [Script.openEvents, l4s_pairBase, h, ctxBearing, Ev.render]

theorem l4s_pairB_evB {c : Case} (hwf : CaseWF c) (h : c.op = "pair") :
    (predictPair c).evB = ["prepare", if c.hasOutputs then "query" else "exec"] := by
  rw [l4s_predictPair_evB, ← l4s_pairBase_openEvents]
  apply l4s_evs_of_ran
  have hw := (l4s_pair_notTx hwf h).2
  unfold l4s_pairB
  split
  · rename_i hga
    have ho : c.hasOutputs = true := by
      rcases hw with hw | hw
      · exact hw
      · exact absurd hga hw.2
    have heq : queryGetAllArgs (l4s_pairBase c) [.ok] true {} = queryGetAll (l4s_pairBase c) 1 true {} := by
      have ho' : (l4s_pairBase c).hasOutputs = true := ho
      simp [queryGetAllArgs, ho', SliceArg.rejectedUpFront]
    show l4s_RowExt _ (queryGetAllArgs _ _ _ _).2
    rw [heq]
    rcases l4s_queryGetAll_ext (l4s_pairBase c) 1 true {} with ⟨_, h'⟩ | h'
    · have ho' : (l4s_pairBase c).hasOutputs = true := ho
      rw [ho'] at h'; cases h'
    · exact h'
  · rename_i hg
    have ho : c.hasOutputs = true := by
      rcases hw with hw | hw
      · exact hw
      · exact absurd hg hw.1
    exact l4s_queryGet_ran _ _ _ (.inl ho)
  · exact l4s_queryGet_ran _ _ _ (.inr rfl)

theorem l4s_holdsC20_pair (win : String) {c : Case} (hwf : CaseWF c) (h : c.op = "pair") :
    holdsC20 c (predObsW win c (predictPair c)) = true := by
  have hret : (predObsW win c (predictPair c)).returns.getD 1 "" = renderOpt (l4s_pairB c).1 := by
    show (predictPair c).returns.getD 1 "" = _
    rw [l4s_predictPair_eq]; rfl
  have hfree := l4s_not_bad_ctx (l4s_renderOpt_free (.inl rfl) (l4s_pairB_err_free c))
  simp only [Bool.and_eq_true] at hfree
  unfold holdsC20
  simp only [h, beq_self_eq_true, if_true, hret, hfree.1, hfree.2, (l4s_pair_kindsWith win h).2,
    l4s_pairB_evB hwf h, Bool.true_and]

theorem l4s_holdsC20_all {win : String} (hwin : isFinisher win = true) {c : Case} (hwf : CaseWF c) :
    holdsC20 c (predObsW win c (predict c)) = true := by
  by_cases h : c.op = "pair"
  · rw [l4s_predict_pair h]; exact l4s_holdsC20_pair win hwf h
  · rw [l4s_predict_single h]; exact l4s_holdsC20_single hwin hwf h

end Sqlair.Rt
