/-
  L2Sound/Chunks: `chunksInOrder` (the bypass chunks occur in the SQL in order) accepts the
  SQL the model renders, provided no two bypass nodes are adjacent (the parser never produces
  two: a bypass node is the text between two expressions).

  `chunksInOrder` matches greedily: after an expression it takes the LEFTMOST occurrence of
  the next chunk (`Bytes.findFrom`), which may lie inside the rendering of the expression,
  before the place where the chunk really stands.  That is harmless as long as the chunk
  after it is searched for again (`pendingExpr = true`), but a directly following bypass chunk
  is expected exactly behind the greedy match: with two adjacent bypass nodes the predicate
  can reject the model's own SQL (witness in `Props/L2Sound.lean`).
-/
import SqlairProofs.L2Sound.Defs
import SqlairProofs.L2Sound.Nodes
import SqlairProofs.L2Sound.Bytes
import SqlairProofs.Bind.Fold

namespace Sqlair

/-! ### `findFrom` is leftmost -/

theorem l2s_hasPrefixAt_le {b w : Bytes} {p : Nat} (h : b.hasPrefixAt p w = true) : p + w.size ≤ b.size := by
  unfold Bytes.hasPrefixAt at h
  simp only [Bool.and_eq_true, decide_eq_true_eq] at h
  exact h.1

/-- if the word stands at `p ≥ off`, `findFrom` finds an occurrence between `off` and `p` -/
theorem l2s_findFrom_le {sql w : Bytes} {off p : Nat} (hop : off ≤ p) (h : sql.hasPrefixAt p w = true) :
    ∃ i, sql.findFrom w off = some i ∧ off ≤ i ∧ i ≤ p := by
  have hsz := l2s_hasPrefixAt_le h
  have hsome : (sql.findFrom w off).isSome = true := by
    unfold Bytes.findFrom
    rw [List.findSome?_isSome_iff]
    refine ⟨p - off, by rw [List.mem_range]; omega, ?_⟩
    rw [show off + (p - off) = p by omega, h]
    rfl
  obtain ⟨i, hi⟩ := Option.isSome_iff_exists.1 hsome
  refine ⟨i, hi, ?_⟩
  unfold Bytes.findFrom at hi
  rw [List.findSome?_eq_some_iff] at hi
  obtain ⟨l1, j, l2, hl, hj, hnone⟩ := hi
  have hji : off + j = i := by
    split at hj
    · simpa using hj
    · cases hj
  refine ⟨by omega, ?_⟩
  -- `p - off` is in the range; it is not in `l1` (where nothing is found), so it is `≥ j`
  have hmem : p - off ∈ List.range (sql.size + 1 - off) := by rw [List.mem_range]; omega
  have hpw := List.pairwise_lt_range (n := sql.size + 1 - off)
  rw [hl] at hmem hpw
  rcases List.mem_append.1 hmem with hm | hm
  · have := hnone _ hm
    rw [show off + (p - off) = p by omega, h] at this
    cases this
  · rcases List.mem_cons.1 hm with hm | hm
    · omega
    · have := (List.pairwise_append.1 hpw).2.1
      have := (List.pairwise_cons.1 this).1 _ hm
      omega

/-! ### nodes and pieces -/

/-- no two adjacent bypass nodes -/
def l2s_noAdjBypass : List OSeg → Bool
  | a :: b :: rest => !(a.kind == .bypass && b.kind == .bypass) && l2s_noAdjBypass (b :: rest)
  | _ => true

/-- a bypass node becomes the text piece with its raw text -/
def L2sBypassPiece (s : OSeg) (p : Piece) : Prop := s.kind = .bypass → p = .text s.raw

theorem l2s_bypass_pieces {C : Cls} {tt : TypeTable} {segs : List OSeg} {samples : List (Option Nat)}
    {tes : List TExpr} {args : List GoVal} {pq : Primed}
    (hp : bindTypes C tt segs samples = .ok tes) (hb : bindInputs tt tes args = .ok pq) :
    Corr L2sBypassPiece segs pq.pieces := by
  refine Corr.trans (R := NodeExpr) (S := ExprPiece) ?_ (bindTypes_exprs hp) (bindInputs_pieces hb)
  intro s e p h1 h2 hk
  have := NodeExpr.piece h1 h2
  rw [hk] at this
  exact this.bypass

/-- a statement without expressions is rendered as the concatenation of its chunks -/
theorem l2s_all_bypass_render : ∀ (segs : List OSeg) (ps : List Piece), Corr L2sBypassPiece segs ps →
    hasExpr segs = false → ps.map Piece.render = segs.map (·.raw) := by
  intro segs
  induction segs with
  | nil =>
    intro ps hc _
    have : ps = [] := by simpa using hc.1
    subst this; rfl
  | cons s rest ih =>
    intro ps hc he
    obtain ⟨p, ps', rfl, hr, hc'⟩ := hc.l2s_cons_inv
    simp only [hasExpr, List.any_cons, Bool.or_eq_false_iff, bne_eq_false_iff_eq] at he
    rw [List.map_cons, List.map_cons, hr (by simpa using he.1), ih ps' hc' (by simpa [hasExpr] using he.2)]
    rfl

/-! ### the greedy matcher -/

theorem l2s_chunksInOrder : ∀ (segs : List OSeg) (ps : List Piece) (a : Bytes) (off : Nat) (pending : Bool),
    Corr L2sBypassPiece segs ps → l2s_noAdjBypass segs = true → off ≤ a.size →
    (pending = false → off = a.size ∨ ∃ s rest, segs = s :: rest ∧ s.kind ≠ .bypass) →
    chunksInOrder segs (a ++ concatBytes (ps.map Piece.render)) off pending = true := by
  intro segs
  induction segs with
  | nil =>
    intro ps a off pending hc _ _ hpre
    have : ps = [] := by simpa using hc.1
    subst this
    cases pending with
    | true => simp [chunksInOrder]
    | false =>
      rcases hpre rfl with h | ⟨s, rest, h, _⟩
      · simp [chunksInOrder, concatBytes_nil, h]
      · cases h
  | cons s rest ih =>
    intro ps a off pending hc hadj hle hpre
    obtain ⟨p, ps', rfl, hr, hc'⟩ := hc.l2s_cons_inv
    have hsql : a ++ concatBytes ((p :: ps').map Piece.render) =
        a ++ p.render ++ concatBytes (ps'.map Piece.render) := by
      rw [List.map_cons, concatBytes_cons, Array.append_assoc]
    by_cases hk : s.kind = .bypass
    · -- a bypass chunk
      have hp := hr hk
      subst hp
      simp only [Piece.render] at hsql
      have hkb : (s.kind == .bypass) = true := by simp [hk]
      have hat : (a ++ concatBytes ((Piece.text s.raw :: ps').map Piece.render)).hasPrefixAt a.size s.raw = true :=
        l2s_hasPrefixAt_mid' hsql rfl
      cases rest with
      | nil =>
        have : ps' = [] := by simpa using hc'.1
        subst this
        have hsz : (a ++ concatBytes ((Piece.text s.raw :: []).map Piece.render)).size = a.size + s.raw.size := by
          rw [hsql]; simp [concatBytes_nil, Array.size_append]
        cases pending with
        | true =>
          simp only [chunksInOrder, hkb, if_true, Bool.and_eq_true, decide_eq_true_eq]
          rw [hsz]
          refine ⟨by omega, ?_⟩
          rw [show a.size + s.raw.size - s.raw.size = a.size by omega]
          exact hat
        | false =>
          rcases hpre rfl with h | ⟨s', rest', h, hnb⟩
          · subst h
            simp only [chunksInOrder, hkb, if_true, Bool.false_eq_true, if_false, Bool.and_eq_true, beq_iff_eq]
            exact ⟨hat, hsz.symm⟩
          · cases h; exact absurd hk hnb
      | cons s' rest' =>
        have hadj' : l2s_noAdjBypass (s' :: rest') = true := by
          simp only [l2s_noAdjBypass, Bool.and_eq_true] at hadj; exact hadj.2
        have hs'nb : s'.kind ≠ .bypass := by
          simp only [l2s_noAdjBypass, Bool.and_eq_true, hkb, Bool.true_and, Bool.not_eq_true', beq_eq_false_iff_ne] at hadj
          exact hadj.1
        cases pending with
        | true =>
          obtain ⟨i, hi, _, hia⟩ := l2s_findFrom_le hle hat
          simp only [chunksInOrder, hkb, if_true, hi]
          have := ih ps' (a ++ s.raw) (i + s.raw.size) false hc' hadj'
            (by rw [Array.size_append]; omega) (fun _ => Or.inr ⟨s', rest', rfl, hs'nb⟩)
          rw [← hsql] at this
          exact this
        | false =>
          rcases hpre rfl with h | ⟨s'', rest'', h, hnb⟩
          · subst h
            simp only [chunksInOrder, hkb, if_true, Bool.false_eq_true, if_false, Bool.and_eq_true]
            refine ⟨hat, ?_⟩
            have := ih ps' (a ++ s.raw) (a.size + s.raw.size) false hc' hadj'
              (by rw [Array.size_append]; omega) (fun _ => Or.inl (by rw [Array.size_append]))
            rw [← hsql] at this
            exact this
          · cases h; exact absurd hk hnb
    · -- an expression: the next chunk is searched for
      have hkb : (s.kind == .bypass) = false := by simp [hk]
      cases rest with
      | nil => simp [chunksInOrder, hkb]
      | cons s' rest' =>
        have hadj' : l2s_noAdjBypass (s' :: rest') = true := by
          simp only [l2s_noAdjBypass, Bool.and_eq_true] at hadj; exact hadj.2
        simp only [chunksInOrder, hkb, Bool.false_eq_true, if_false]
        have := ih ps' (a ++ p.render) off true hc' hadj'
          (by rw [Array.size_append]; omega) (fun h => by cases h)
        rw [← hsql] at this
        exact this

end Sqlair
